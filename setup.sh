#!/bin/sh
# Offline setup: build the driver and warm the Go build cache for every harness.
set -e
cd "$(dirname "$0")"
export VERIF_ROOT="${VERIF_ROOT:-$PWD}"
export GOFLAGS=-mod=mod GOPROXY=off GOSUMDB=off GOTOOLCHAIN=local
mkdir -p bin out evidence
go build -o bin/vdriver ./tools/vdriver
for h in $(bin/vdriver harnesses); do
  bin/vdriver build "$h" || echo "setup: warm-up build of $h failed (checks will report it)"
done
