package main

import (
	"encoding/json"
	"flag"
	"fmt"
	"io"
	"log"
	"os"
	"path/filepath"
	"strings"
	"testing"

	"github.com/Comcast/sheens/match"
	"github.com/Comcast/sheens/verifrt/vh"
)

func TestMain(m *testing.M) {
	vh.Main(map[string]vh.CheckFunc{"C19mexpect": C19mexpect})
}

// C19mexpect: the tool as its user runs it - cmd/mexpect's main() reads a session file, starts "mcrew" (here a
// stand-in on PATH that prints a prepared stream) and panics unless the session passes.  Sessions with several
// guarded outputs whose guards look at the matched value; the tool may pass only if every expected output was
// matched by some emitted message that its OWN guard accepts.

type mxOut struct {
	Pat   string `json:"pat"`   // A | B
	Guard string `json:"guard"` // "" | accept | reject | is1 | is2
	Inv   bool   `json:"inverted,omitempty"`
}

type mxCase struct {
	Steps  [][]mxOut `json:"steps"`
	Stream []string  `json:"stream"` // A1 | A2 | B1
}

var mxMsgs = map[string]string{"A1": `{"a":1}`, "A2": `{"a":2}`, "B1": `{"b":1}`}
var mxPats = map[string]string{"A": `{"a":"?v"}`, "B": `{"b":"?v"}`}
var mxGuards = map[string]string{
	"accept": "return _.bindings;",
	"reject": "return null;",
	"is1":    `return _.bindings["?v"] == 1 ? _.bindings : null;`,
	"is2":    `return _.bindings["?v"] == 2 ? _.bindings : null;`,
}

func mxAccepts(o mxOut, sym string) bool {
	var msg, pat interface{}
	json.Unmarshal([]byte(mxMsgs[sym]), &msg)
	json.Unmarshal([]byte(mxPats[o.Pat]), &pat)
	bss, _ := match.Match(pat, msg, match.NewBindings())
	if len(bss) == 0 {
		return false
	}
	v, _ := bss[0]["?v"].(float64)
	switch o.Guard {
	case "reject":
		return false
	case "is1":
		return v == 1
	case "is2":
		return v == 2
	}
	return true
}

// mxRef: the pass conditions (a step ends at the earliest message after which all its expected outputs are matched).
func mxRef(cs mxCase) bool {
	pos := 0
	for _, set := range cs.Steps {
		matched := make([]bool, len(set))
		need := 0
		for _, o := range set {
			if !o.Inv {
				need++
			}
		}
		done := false
		for pos < len(cs.Stream) && !done {
			sym := cs.Stream[pos]
			pos++
			for i, o := range set {
				if matched[i] || !mxAccepts(o, sym) {
					continue
				}
				matched[i] = true
				if o.Inv {
					return false
				}
				need--
			}
			if need == 0 {
				done = true
			}
		}
		if !done {
			return false
		}
	}
	return true
}

func mxRun(dir string, cs mxCase, timeout string) (passed bool, detail string) {
	var y strings.Builder
	y.WriteString("doc: generated\nios:\n")
	for _, set := range cs.Steps {
		y.WriteString("- doc: a step\n  outputSet:\n")
		for _, o := range set {
			fmt.Fprintf(&y, "  - pattern: '%s'\n", mxPats[o.Pat])
			if o.Inv {
				y.WriteString("    inverted: true\n")
			}
			if g := mxGuards[o.Guard]; g != "" {
				fmt.Fprintf(&y, "    guardSource:\n      interpreter: ecmascript\n      source: '%s'\n", g)
			}
		}
	}
	fmt.Fprintf(&y, "parsePatterns: true\ndefaultTimeout: %s\n", timeout)
	sess := filepath.Join(dir, "session.yaml")
	os.WriteFile(sess, []byte(y.String()), 0o644)
	var lines []string
	for _, s := range cs.Stream {
		lines = append(lines, mxMsgs[s])
	}
	stream := filepath.Join(dir, "stream.txt")
	os.WriteFile(stream, []byte(strings.Join(lines, "\n")+"\n"), 0o644)
	os.WriteFile(filepath.Join(dir, "mcrew"), []byte("#!/bin/sh\ncat "+stream+"\ncat > /dev/null\n"), 0o755)
	oldArgs, oldPath := os.Args, os.Getenv("PATH")
	os.Setenv("PATH", dir+":"+oldPath)
	os.Args = []string{"mexpect", "-f", sess, "-d", dir, "-e=false", "-t", "30s", "-s", dir, "-i", dir}
	flag.CommandLine = flag.NewFlagSet("mexpect", flag.ContinueOnError)
	p, pm, _ := vh.Trap(func() { main() })
	os.Args = oldArgs
	os.Setenv("PATH", oldPath)
	return !p, pm
}

func C19mexpect(c *vh.Ctx) {
	log.SetOutput(io.Discard)
	dir, _ := os.MkdirTemp(os.Getenv("VERIF_SCRATCH"), "mexpect-")
	defer os.RemoveAll(dir)
	one := func(cs mxCase) {
		c.Eval()
		want := mxRef(cs)
		timeout := "150ms" // a short timeout can only turn a pass into a fail
		if want {
			timeout = "20s"
			c.Nontrivial()
		}
		passed, _ := mxRun(dir, cs, timeout)
		if passed && !want {
			again, _ := mxRun(dir, cs, timeout)
			if !again {
				c.Count("unreproduced", 1)
				c.NotExhaustive("a false pass did not reproduce; not reported")
				return
			}
			c.Violation("C19/mexpect/false-pass", fmt.Sprintf("cmd/mexpect passed the session %+v on the stream %v, although not every expected output was matched by a message its own guard accepts (or a forbidden one was)", cs.Steps, cs.Stream), cs)
		}
	}
	if c.Replay != "" {
		var cs mxCase
		if c.LoadReplay(&cs) == nil && len(cs.Steps) > 0 {
			one(cs)
		}
		return
	}
	c.Rule("cmd/mexpect's main() on generated session files (one and two steps; output sets of one or two outputs over patterns A/B with guards that accept, reject, or accept one particular matched value; inverted outputs) against a stand-in mcrew that prints every stream of up to two messages over {a:1, a:2, b:1}: main may return normally (= the session passed) only if the reference pass conditions hold.")
	kinds := []mxOut{{Pat: "A", Guard: "is1"}, {Pat: "A", Guard: "is2"}, {Pat: "A", Guard: "accept"}, {Pat: "A", Guard: "reject"}, {Pat: "B"}, {Pat: "B", Guard: "is1"}, {Pat: "A", Guard: "is2", Inv: true}}
	var sets [][]mxOut
	for i, k1 := range kinds {
		sets = append(sets, []mxOut{k1})
		for _, k2 := range kinds[i:] {
			sets = append(sets, []mxOut{k1, k2})
		}
	}
	var streams [][]string
	for _, a := range []string{"A1", "A2", "B1"} {
		streams = append(streams, []string{a})
		for _, b := range []string{"A1", "A2", "B1"} {
			streams = append(streams, []string{a, b})
		}
	}
	var idx uint64
	for _, set := range sets {
		for _, st := range streams {
			idx++
			if c.Mine(idx) && !c.Expired() {
				one(mxCase{Steps: [][]mxOut{set}, Stream: st})
			}
		}
	}
	for _, k1 := range kinds[:4] {
		for _, k2 := range kinds[:6] {
			for _, st := range streams {
				idx++
				if c.Mine(idx) && !c.Expired() {
					one(mxCase{Steps: [][]mxOut{{k1}, {k2}}, Stream: st})
				}
			}
		}
	}
}
