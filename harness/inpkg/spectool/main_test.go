package main

import (
	"bytes"
	"context"
	"encoding/json"
	"fmt"
	"os"
	"os/exec"
	"strconv"
	"strings"
	"testing"

	"github.com/Comcast/sheens/core"
	_ "github.com/Comcast/sheens/interpreters/ecmascript"
	"github.com/Comcast/sheens/match"
	"github.com/Comcast/sheens/verifrt/actlang"
	"github.com/Comcast/sheens/verifrt/ref/rstep"
	"github.com/Comcast/sheens/verifrt/vh"

	jyaml "github.com/jsccast/yaml"
)

func TestMain(m *testing.M) {
	if a := os.Getenv("VERIF_SPECTOOL_ARGS"); a != "" {
		// the harness binary re-executed as the tool itself (the tool calls os.Exit on its error paths)
		os.Args = append([]string{"spectool"}, strings.Fields(a)...)
		main()
		os.Exit(0)
	}
	vh.Main(map[string]vh.CheckFunc{"C13spectool": C13spectool, "C20spectool": C20spectool})
}

// C13spectool: the repository's own converters between representations.  `spectool yamltojson`, `spectool
// jsontoyaml` and the spec-to-spec commands (which decode YAML, parse the patterns and write YAML) hand back
// "the same specification" in another representation: what comes out must behave like what went in.

type stCase struct {
	NoErrorNode         bool   `json:"no_error_node"`
	ErrorNode           string `json:"error_node"`
	ActionErrorBranches bool   `json:"action_error_branches"`
	ActionErrorNode     string `json:"action_error_node"`
	JSONPatterns        bool   `json:"json_patterns"`
	Cmd                 string `json:"cmd"` // yamltojson | yamltojson -p | jsontoyaml | analyze | yamltojson+jsontoyaml
}

type M = map[string]interface{}

func stSpec(cs stCase) *rstep.ASpec {
	emit := func(tag string) *actlang.Prog {
		return actlang.P(false, actlang.Op{K: actlang.Emit, V: M{"at": tag}}, actlang.Op{K: actlang.Set, A: "last", V: tag})
	}
	return &rstep.ASpec{ActionErrorBranches: cs.ActionErrorBranches, ActionErrorNode: cs.ActionErrorNode, Nodes: map[string]*rstep.ANode{
		"n0": {Type: "message", Branches: []rstep.ABranch{
			{Pattern: M{"a": "?x"}, Target: "n1"},
			{Pattern: M{"fail": "?f"}, Target: "boom"},
			{Pattern: M{"goto": "?t"}, Target: "failed"},
			{Pattern: M{"stuck": "?s"}, Target: "nobranch"}}},
		"n1":       {Action: emit("n1"), Branches: []rstep.ABranch{{Target: "n0"}}},
		"boom":     {Action: actlang.P(false, actlang.Op{K: actlang.Emit, V: "lost"}, actlang.Op{K: actlang.Throw}), Branches: []rstep.ABranch{{Pattern: M{"actionError": "?e"}, Target: "handled"}, {Target: "n0"}}},
		"nobranch": {Action: emit("nobranch"), Branches: []rstep.ABranch{{Pattern: M{"never": "?n"}, Target: "n0"}}},
		"handled":  {Type: "message", Branches: []rstep.ABranch{{Pattern: M{"a": "?y"}, Target: "n0"}}},
	}}
}

var stMsgs = []interface{}{M{"a": 1.0}, M{"fail": 1.0}, M{"goto": 1.0}, M{"stuck": 1.0}, M{"zzz": 1.0}}

func stTrace(spec *core.Spec, maxLen int) string { return stTraceOver(spec, maxLen, stMsgs, "n0") }

func stTraceOver(spec *core.Spec, maxLen int, stMsgs []interface{}, start string) string {
	var out strings.Builder
	var rec func(st *core.State, depth int, prefix string)
	rec = func(st *core.State, depth int, prefix string) {
		if depth == maxLen {
			return
		}
		for i, m := range stMsgs {
			key := fmt.Sprintf("%s%d", prefix, i)
			w, err := spec.Walk(context.Background(), st.Copy(), []interface{}{m}, &core.Control{Limit: 20}, nil)
			if err != nil {
				out.WriteString(key + ":ERR;")
				continue
			}
			ns := st
			if to := w.To(); to != nil {
				ns = to
			}
			var em []interface{}
			w.DoEmitted(func(x interface{}) error { em = append(em, x); return nil })
			fmt.Fprintf(&out, "%s:%s/%s/%s/%s;", key, ns.NodeName, rstep.Canon(rstep.MaskErrors(M(ns.Bs))), rstep.Canon(em), w.StoppedBecause)
			rec(ns, depth+1, key+".")
		}
	}
	rec(&core.State{NodeName: start, Bs: match.NewBindings()}, 0, "")
	return out.String()
}

func stDoc(cs stCase, format string) (M, bool) {
	doc, ok := stSpec(cs).Doc(format, cs.JSONPatterns)
	if !ok {
		return nil, false
	}
	if cs.NoErrorNode {
		if format == "json" {
			doc["noErrorNode"] = true
		} else {
			doc["noautoerrornode"] = true
		}
	}
	if cs.ErrorNode != "" {
		if format == "json" {
			doc["errorNode"] = cs.ErrorNode
		} else {
			doc["errornode"] = cs.ErrorNode
		}
	}
	return doc, true
}

func stTool(args string, in []byte) ([]byte, error) {
	cmd := exec.Command(os.Args[0])
	cmd.Env = append(os.Environ(), "VERIF_SPECTOOL_ARGS="+args)
	cmd.Stdin = bytes.NewReader(in)
	var out, errb bytes.Buffer
	cmd.Stdout, cmd.Stderr = &out, &errb
	if err := cmd.Run(); err != nil {
		return nil, fmt.Errorf("%v: %s", err, strings.TrimSpace(errb.String()))
	}
	return out.Bytes(), nil
}

func stLoad(bs []byte, format string) (*core.Spec, error) {
	var spec core.Spec
	var err error
	if format == "json" {
		err = json.Unmarshal(bs, &spec)
	} else {
		err = jyaml.Unmarshal(bs, &spec)
	}
	if err != nil {
		return nil, err
	}
	if err = spec.Compile(context.Background(), nil, true); err != nil {
		return nil, err
	}
	return &spec, nil
}

func C13spectool(c *vh.Ctx) {
	maxLen := c.Pick(2, 3)
	one := func(cs stCase) {
		c.Eval()
		base := stSpec(cs).Raw()
		base.NoAutoErrorNode, base.ErrorNode = cs.NoErrorNode, cs.ErrorNode
		if err := base.Compile(context.Background(), nil, true); err != nil {
			c.NotExhaustive("the Go-structure rendering does not compile: " + err.Error())
			return
		}
		want := stTrace(base, maxLen)
		c.Nontrivial()
		fail := func(clause, detail string) {
			c.Violation("C13/spectool/"+clause+"/"+strings.Fields(cs.Cmd)[0], detail, cs)
		}
		ydoc, _ := stDoc(cs, "yaml")
		jdoc, _ := stDoc(cs, "json")
		yin := []byte(rstep.YAML(ydoc))
		jin, _ := json.Marshal(jdoc)
		// the input itself, loaded directly, must behave like the Go-structure rendering (else the tool is not to blame)
		for f, in := range map[string][]byte{"yaml": yin, "json": jin} {
			sp, err := stLoad(in, f)
			if err != nil || stTrace(sp, maxLen) != want {
				c.Count("input_document_differs", 1)
				c.NotExhaustive(fmt.Sprintf("the %s document itself does not behave like the Go-structure rendering (%v); case skipped", f, err))
				return
			}
		}
		var out []byte
		var err error
		outFormat := "json"
		switch cs.Cmd {
		case "yamltojson", "yamltojson -p":
			out, err = stTool(cs.Cmd, yin)
		case "jsontoyaml":
			out, err = stTool(cs.Cmd, jin)
			outFormat = "yaml"
		case "analyze":
			out, err = stTool(cs.Cmd, yin)
			outFormat = "yaml"
		case "yamltojson+jsontoyaml":
			if out, err = stTool("yamltojson", yin); err == nil {
				out, err = stTool("jsontoyaml", out)
			}
			outFormat = "yaml"
		}
		if err != nil {
			fail("tool-fails", fmt.Sprintf("spectool %s fails on a specification that loads and compiles: %v", cs.Cmd, err))
			return
		}
		sp, err := stLoad(out, outFormat)
		if err != nil {
			fail("output-does-not-load", fmt.Sprintf("the output of spectool %s does not load or compile (%v): %s", cs.Cmd, err, clip(string(out))))
			return
		}
		if got := stTrace(sp, maxLen); got != want {
			fail("output-behaves-differently", fmt.Sprintf("the output of spectool %s behaves differently from its input: %s", cs.Cmd, firstDiff(got, want)))
		}
	}
	if c.Replay != "" {
		var mc stModCase
		if c.LoadReplay(&mc) == nil && mc.Mod != "" {
			stModOne(c, mc, maxLen)
			return
		}
		var cs stCase
		if c.LoadReplay(&cs) == nil && cs.Cmd != "" {
			one(cs)
		}
		return
	}
	// the commands that edit a specification (read YAML, parse patterns, apply the edit, write YAML)
	{
		var idx uint64
		pats := []string{`{"ctl":"cancel"}`, `{"device":17}`, `{"v":1.5}`, `{"l":[1,"a",true,null]}`, `{"n":{"deep":[{"k":2}]}}`, `17`, `"?anything"`, `{"id":9007199254740993}`, `{"n":123456789}`, `{"e":1e3}`}
		for _, pt := range pats {
			for _, parse := range []bool{true, false} {
				idx++
				if c.Mine(idx) && !c.Expired() {
					stModOne(c, stModCase{Mod: "addMessageBranches", Pattern: pt, Parse: parse}, maxLen)
				}
			}
		}
		lists := []string{`[{"e":{"order":"beer"},"r":{"deliver":"beer"}}]`, `[{"e":{"order":1},"r":{"deliver":1}},{"e":{"order":2.5},"r":{"deliver":2.5}}]`,
			`[{"e":{"order":[1,2]},"r":{"deliver":[2]}},{"e":"text","r":17}]`, `[{"e":null,"r":{"ok":true}},{"e":{"n":{"k":3}},"r":{"n":{"k":3}}}]`}
		for _, l := range lists {
			idx++
			if c.Mine(idx) && !c.Expired() {
				stModOne(c, stModCase{Mod: "addOrderedOutMessages", Pattern: l, Parse: true}, maxLen)
			}
		}
	}
	c.Rule("(spectool) a five-node specification with emitting, failing and branch-less action nodes and a branch to a node that may not exist, under every combination of the settings {noErrorNode, errorNode in {none, a name of its own, an existing node}, actionErrorBranches, actionErrorNode, inline patterns / JSON-text patterns}, written as YAML and as JSON and converted by the repository's own commands (yamltojson, yamltojson -p, jsontoyaml, yamltojson then jsontoyaml, analyze = decode, parse patterns, write YAML): the complete behaviour tree of the output over all message sequences up to the bound must equal that of the Go-structure rendering. The editing commands (addMessageBranches with and without -P over patterns that hold strings, integers, fractions, large (beyond 2^53) and exponent-form numbers, arrays, nested maps, a bare number, a bare variable; addOrderedOutMessages over lists of messages with numbers, arrays, nested maps): the specification they write, loaded, must behave like the same edit made on the Go structures (the pattern instances are among the messages).")
	var idx uint64
	for _, ne := range []bool{false, true} {
		for _, en := range []string{"", "failed", "n1"} {
			for _, aeb := range []bool{false, true} {
				for _, aen := range []string{"", "handled"} {
					for _, jp := range []bool{false, true} {
						for _, cmd := range []string{"yamltojson", "yamltojson -p", "jsontoyaml", "yamltojson+jsontoyaml", "analyze"} {
							idx++
							if c.Mine(idx) && !c.Expired() {
								one(stCase{NoErrorNode: ne, ErrorNode: en, ActionErrorBranches: aeb, ActionErrorNode: aen, JSONPatterns: jp, Cmd: cmd})
							}
						}
					}
				}
			}
		}
	}
}

func clip(s string) string {
	if len(s) > 300 {
		return s[:300] + "..."
	}
	return s
}

func firstDiff(got, want string) string {
	g, w := strings.Split(got, ";"), strings.Split(want, ";")
	for i := range w {
		if i >= len(g) || g[i] != w[i] {
			gi := "<nothing>"
			if i < len(g) {
				gi = g[i]
			}
			return fmt.Sprintf("after the message sequence %s it is at %s; the input is at %s", strings.SplitN(w[i], ":", 2)[0], gi, w[i])
		}
	}
	return "extra steps"
}

// stModCase: one of spectool's editing commands.
type stModCase struct {
	Mod     string `json:"mod"`     // addMessageBranches | addOrderedOutMessages
	Pattern string `json:"pattern"` // JSON text given on the command line (a pattern / the list of messages)
	Parse   bool   `json:"parse"`   // -P
}

// stModOne: the command's output, loaded, must behave like the Go-structure rendering of the input edited in
// process by the same (exported) editing function with the JSON text decoded the plain way.
func stModOne(c *vh.Ctx, mc stModCase, maxLen int) {
	c.Eval()
	base := stSpec(stCase{}).Raw()
	var args string
	var msgs []interface{}
	msgs = append(msgs, stMsgs...)
	addMsgsOf := func(x interface{}) {
		if x != nil {
			msgs = append(msgs, x)
		}
	}
	start := "n0"
	switch mc.Mod {
	case "addMessageBranches":
		var pattern interface{} = mc.Pattern
		args = "addMessageBranches -t n1 -p " + mc.Pattern
		if mc.Parse {
			args = "addMessageBranches -P -t n1 -p " + mc.Pattern
			if err := json.Unmarshal([]byte(mc.Pattern), &pattern); err != nil {
				c.NotExhaustive("bad pattern text in the harness: " + err.Error())
				return
			}
			if !strings.Contains(mc.Pattern, "?") {
				addMsgsOf(pattern) // an instance of the pattern (a pattern with variables is not a message)
			}
		}
		if err := AddMessageBranches(base, pattern, "n1"); err != nil {
			c.NotExhaustive("AddMessageBranches: " + err.Error())
			return
		}
	case "addOrderedOutMessages":
		args = "addOrderedOutMessages -e n0 -m " + mc.Pattern
		m := &AddOrderedOutMessagesMod{Prefix: "oi_", StartNodeName: "start", EndNodeName: "n0", TimeoutNodeName: "timedout"}
		if err := json.Unmarshal([]byte(mc.Pattern), &m.OutAndIns); err != nil {
			c.NotExhaustive("bad list text in the harness: " + err.Error())
			return
		}
		for _, oi := range m.OutAndIns {
			addMsgsOf(oi.In)
		}
		if err := m.F(base); err != nil {
			c.NotExhaustive("AddOrderedOutMessagesMod.F: " + err.Error())
			return
		}
		start = "oi_start"
	}
	if err := base.Compile(context.Background(), nil, true); err != nil {
		c.Count("mod_reference_does_not_compile", 1)
		return
	}
	want := stTraceOver(base, maxLen, msgs, start)
	c.Nontrivial()
	ydoc, _ := stDoc(stCase{}, "yaml")
	out, err := stTool(args, []byte(rstep.YAML(ydoc)))
	if err != nil {
		c.Violation("C13/spectool/tool-fails/"+mc.Mod, fmt.Sprintf("spectool %s fails on a specification that loads and compiles: %v", args, err), mc)
		return
	}
	sp, err := stLoad(out, "yaml")
	if err != nil {
		c.Violation("C13/spectool/output-does-not-load/"+mc.Mod, fmt.Sprintf("the output of spectool %s does not load or compile (%v): %s", args, err, clip(string(out))), mc)
		return
	}
	if got := stTraceOver(sp, maxLen, msgs, start); got != want {
		if n, lossy := beyondFloat32(mc.Pattern); lossy {
			// the YAML library the repository writes with renders every float with 32-bit precision
			c.Violation("C13/spectool/yaml-output-rounds-numbers-to-float32/"+mc.Mod, fmt.Sprintf("spectool %s: the number %v in the pattern does not survive the YAML the tool writes (the specification it writes behaves differently from the same edit made on the Go structures: %s)", args, n, firstDiff(got, want)), mc)
			return
		}
		c.Violation("C13/spectool/output-behaves-differently/"+mc.Mod, fmt.Sprintf("the specification written by spectool %s behaves differently from the same edit made on the Go structures: %s", args, firstDiff(got, want)), mc)
	}
}

// beyondFloat32 reports a number in the JSON text that changes when it is written with 32-bit precision.
func beyondFloat32(text string) (float64, bool) {
	var x interface{}
	if json.Unmarshal([]byte(text), &x) != nil {
		return 0, false
	}
	var found float64
	lossy := false
	var walk func(x interface{})
	walk = func(x interface{}) {
		switch v := x.(type) {
		case float64:
			if back, err := strconv.ParseFloat(strconv.FormatFloat(v, 'g', -1, 32), 64); err != nil || back != v {
				found, lossy = v, true
			}
		case []interface{}:
			for _, e := range v {
				walk(e)
			}
		case map[string]interface{}:
			for _, e := range v {
				walk(e)
			}
		}
	}
	walk(x)
	return found, lossy
}
