package main

import (
	"bytes"
	"context"
	"encoding/json"
	"fmt"
	"os"
	"os/exec"
	"strings"
	"testing"

	"github.com/Comcast/sheens/core"
	_ "github.com/Comcast/sheens/interpreters/ecmascript"
	"github.com/Comcast/sheens/match"
	"github.com/Comcast/sheens/verifrt/actlang"
	"github.com/Comcast/sheens/verifrt/ref/rstep"
	"github.com/Comcast/sheens/verifrt/vh"

	jyaml "github.com/jsccast/yaml"
)

func TestMain(m *testing.M) {
	if a := os.Getenv("VERIF_SPECTOOL_ARGS"); a != "" {
		// the harness binary re-executed as the tool itself (the tool calls os.Exit on its error paths)
		os.Args = append([]string{"spectool"}, strings.Fields(a)...)
		main()
		os.Exit(0)
	}
	vh.Main(map[string]vh.CheckFunc{"C13spectool": C13spectool})
}

// C13spectool: the repository's own converters between representations.  `spectool yamltojson`, `spectool
// jsontoyaml` and the spec-to-spec commands (which decode YAML, parse the patterns and write YAML) hand back
// "the same specification" in another representation: what comes out must behave like what went in.

type stCase struct {
	NoErrorNode         bool   `json:"no_error_node"`
	ErrorNode           string `json:"error_node"`
	ActionErrorBranches bool   `json:"action_error_branches"`
	ActionErrorNode     string `json:"action_error_node"`
	JSONPatterns        bool   `json:"json_patterns"`
	Cmd                 string `json:"cmd"` // yamltojson | yamltojson -p | jsontoyaml | analyze | yamltojson+jsontoyaml
}

type M = map[string]interface{}

func stSpec(cs stCase) *rstep.ASpec {
	emit := func(tag string) *actlang.Prog {
		return actlang.P(false, actlang.Op{K: actlang.Emit, V: M{"at": tag}}, actlang.Op{K: actlang.Set, A: "last", V: tag})
	}
	return &rstep.ASpec{ActionErrorBranches: cs.ActionErrorBranches, ActionErrorNode: cs.ActionErrorNode, Nodes: map[string]*rstep.ANode{
		"n0": {Type: "message", Branches: []rstep.ABranch{
			{Pattern: M{"a": "?x"}, Target: "n1"},
			{Pattern: M{"fail": "?f"}, Target: "boom"},
			{Pattern: M{"goto": "?t"}, Target: "failed"},
			{Pattern: M{"stuck": "?s"}, Target: "nobranch"}}},
		"n1":       {Action: emit("n1"), Branches: []rstep.ABranch{{Target: "n0"}}},
		"boom":     {Action: actlang.P(false, actlang.Op{K: actlang.Emit, V: "lost"}, actlang.Op{K: actlang.Throw}), Branches: []rstep.ABranch{{Pattern: M{"actionError": "?e"}, Target: "handled"}, {Target: "n0"}}},
		"nobranch": {Action: emit("nobranch"), Branches: []rstep.ABranch{{Pattern: M{"never": "?n"}, Target: "n0"}}},
		"handled":  {Type: "message", Branches: []rstep.ABranch{{Pattern: M{"a": "?y"}, Target: "n0"}}},
	}}
}

var stMsgs = []interface{}{M{"a": 1.0}, M{"fail": 1.0}, M{"goto": 1.0}, M{"stuck": 1.0}, M{"zzz": 1.0}}

func stTrace(spec *core.Spec, maxLen int) string {
	var out strings.Builder
	var rec func(st *core.State, depth int, prefix string)
	rec = func(st *core.State, depth int, prefix string) {
		if depth == maxLen {
			return
		}
		for i, m := range stMsgs {
			key := fmt.Sprintf("%s%d", prefix, i)
			w, err := spec.Walk(context.Background(), st.Copy(), []interface{}{m}, &core.Control{Limit: 20}, nil)
			if err != nil {
				out.WriteString(key + ":ERR;")
				continue
			}
			ns := st
			if to := w.To(); to != nil {
				ns = to
			}
			var em []interface{}
			w.DoEmitted(func(x interface{}) error { em = append(em, x); return nil })
			fmt.Fprintf(&out, "%s:%s/%s/%s/%s;", key, ns.NodeName, rstep.Canon(rstep.MaskErrors(M(ns.Bs))), rstep.Canon(em), w.StoppedBecause)
			rec(ns, depth+1, key+".")
		}
	}
	rec(&core.State{NodeName: "n0", Bs: match.NewBindings()}, 0, "")
	return out.String()
}

func stDoc(cs stCase, format string) (M, bool) {
	doc, ok := stSpec(cs).Doc(format, cs.JSONPatterns)
	if !ok {
		return nil, false
	}
	if cs.NoErrorNode {
		if format == "json" {
			doc["noErrorNode"] = true
		} else {
			doc["noautoerrornode"] = true
		}
	}
	if cs.ErrorNode != "" {
		if format == "json" {
			doc["errorNode"] = cs.ErrorNode
		} else {
			doc["errornode"] = cs.ErrorNode
		}
	}
	return doc, true
}

func stTool(args string, in []byte) ([]byte, error) {
	cmd := exec.Command(os.Args[0])
	cmd.Env = append(os.Environ(), "VERIF_SPECTOOL_ARGS="+args)
	cmd.Stdin = bytes.NewReader(in)
	var out, errb bytes.Buffer
	cmd.Stdout, cmd.Stderr = &out, &errb
	if err := cmd.Run(); err != nil {
		return nil, fmt.Errorf("%v: %s", err, strings.TrimSpace(errb.String()))
	}
	return out.Bytes(), nil
}

func stLoad(bs []byte, format string) (*core.Spec, error) {
	var spec core.Spec
	var err error
	if format == "json" {
		err = json.Unmarshal(bs, &spec)
	} else {
		err = jyaml.Unmarshal(bs, &spec)
	}
	if err != nil {
		return nil, err
	}
	if err = spec.Compile(context.Background(), nil, true); err != nil {
		return nil, err
	}
	return &spec, nil
}

func C13spectool(c *vh.Ctx) {
	maxLen := c.Pick(2, 3)
	one := func(cs stCase) {
		c.Eval()
		base := stSpec(cs).Raw()
		base.NoAutoErrorNode, base.ErrorNode = cs.NoErrorNode, cs.ErrorNode
		if err := base.Compile(context.Background(), nil, true); err != nil {
			c.NotExhaustive("the Go-structure rendering does not compile: " + err.Error())
			return
		}
		want := stTrace(base, maxLen)
		c.Nontrivial()
		fail := func(clause, detail string) {
			c.Violation("C13/spectool/"+clause+"/"+strings.Fields(cs.Cmd)[0], detail, cs)
		}
		ydoc, _ := stDoc(cs, "yaml")
		jdoc, _ := stDoc(cs, "json")
		yin := []byte(rstep.YAML(ydoc))
		jin, _ := json.Marshal(jdoc)
		// the input itself, loaded directly, must behave like the Go-structure rendering (else the tool is not to blame)
		for f, in := range map[string][]byte{"yaml": yin, "json": jin} {
			sp, err := stLoad(in, f)
			if err != nil || stTrace(sp, maxLen) != want {
				c.Count("input_document_differs", 1)
				c.NotExhaustive(fmt.Sprintf("the %s document itself does not behave like the Go-structure rendering (%v); case skipped", f, err))
				return
			}
		}
		var out []byte
		var err error
		outFormat := "json"
		switch cs.Cmd {
		case "yamltojson", "yamltojson -p":
			out, err = stTool(cs.Cmd, yin)
		case "jsontoyaml":
			out, err = stTool(cs.Cmd, jin)
			outFormat = "yaml"
		case "analyze":
			out, err = stTool(cs.Cmd, yin)
			outFormat = "yaml"
		case "yamltojson+jsontoyaml":
			if out, err = stTool("yamltojson", yin); err == nil {
				out, err = stTool("jsontoyaml", out)
			}
			outFormat = "yaml"
		}
		if err != nil {
			fail("tool-fails", fmt.Sprintf("spectool %s fails on a specification that loads and compiles: %v", cs.Cmd, err))
			return
		}
		sp, err := stLoad(out, outFormat)
		if err != nil {
			fail("output-does-not-load", fmt.Sprintf("the output of spectool %s does not load or compile (%v): %s", cs.Cmd, err, clip(string(out))))
			return
		}
		if got := stTrace(sp, maxLen); got != want {
			fail("output-behaves-differently", fmt.Sprintf("the output of spectool %s behaves differently from its input: %s", cs.Cmd, firstDiff(got, want)))
		}
	}
	if c.Replay != "" {
		var cs stCase
		if c.LoadReplay(&cs) == nil && cs.Cmd != "" {
			one(cs)
		}
		return
	}
	c.Rule("(spectool) a five-node specification with emitting, failing and branch-less action nodes and a branch to a node that may not exist, under every combination of the settings {noErrorNode, errorNode in {none, a name of its own, an existing node}, actionErrorBranches, actionErrorNode, inline patterns / JSON-text patterns}, written as YAML and as JSON and converted by the repository's own commands (yamltojson, yamltojson -p, jsontoyaml, yamltojson then jsontoyaml, analyze = decode, parse patterns, write YAML): the complete behaviour tree of the output over all message sequences up to the bound must equal that of the Go-structure rendering.")
	var idx uint64
	for _, ne := range []bool{false, true} {
		for _, en := range []string{"", "failed", "n1"} {
			for _, aeb := range []bool{false, true} {
				for _, aen := range []string{"", "handled"} {
					for _, jp := range []bool{false, true} {
						for _, cmd := range []string{"yamltojson", "yamltojson -p", "jsontoyaml", "yamltojson+jsontoyaml", "analyze"} {
							idx++
							if c.Mine(idx) && !c.Expired() {
								one(stCase{NoErrorNode: ne, ErrorNode: en, ActionErrorBranches: aeb, ActionErrorNode: aen, JSONPatterns: jp, Cmd: cmd})
							}
						}
					}
				}
			}
		}
	}
}

func clip(s string) string {
	if len(s) > 300 {
		return s[:300] + "..."
	}
	return s
}

func firstDiff(got, want string) string {
	g, w := strings.Split(got, ";"), strings.Split(want, ";")
	for i := range w {
		if i >= len(g) || g[i] != w[i] {
			gi := "<nothing>"
			if i < len(g) {
				gi = g[i]
			}
			return fmt.Sprintf("after the message sequence %s it is at %s; the input is at %s", strings.SplitN(w[i], ":", 2)[0], gi, w[i])
		}
	}
	return "extra steps"
}
