package main

import (
	"fmt"
	"os"
	"path/filepath"
	"regexp"
	"sort"

	"github.com/Comcast/sheens/core"
	"github.com/Comcast/sheens/verifrt/vh"
)

// ---- C20spectool: the renderings as the command writes them: `spectool graph -o FILE` and `spectool mermaid -o FILE`
// (Grapher.F / Mermaid.F).  The file describes the specification it was written for and nothing else - whatever the
// file held before. ----

func c20Chain(n int, tag string) *core.Spec {
	s := &core.Spec{Name: "chain", Nodes: map[string]*core.Node{}}
	for i := 0; i < n; i++ {
		node := &core.Node{}
		if i+1 < n {
			node.Branches = &core.Branches{Type: "message", Branches: []*core.Branch{{Pattern: map[string]interface{}{"go": tag}, Target: fmt.Sprintf("%s%d", tag, i+1)}}}
		}
		s.Nodes[fmt.Sprintf("%s%d", tag, i)] = node
	}
	return s
}

type c20fCase struct {
	Tool   string `json:"tool"`   // graph | mermaid
	Before []int  `json:"before"` // sizes of the specifications rendered to the file earlier
	Now    int    `json:"now"`
}

func c20fRun(dir string, cs c20fCase) [][2]string {
	render := func(file string, n int, tag string) error {
		if cs.Tool == "graph" {
			return (&Grapher{OutputFilename: file}).F(c20Chain(n, tag))
		}
		return (&Mermaid{OutputFilename: file}).F(c20Chain(n, tag))
	}
	fresh := filepath.Join(dir, "fresh.out")
	reused := filepath.Join(dir, "reused.out")
	os.Remove(fresh)
	os.Remove(reused)
	for i, n := range cs.Before {
		if err := render(reused, n, fmt.Sprintf("old%d_", i)); err != nil {
			return [][2]string{{"<harness>", err.Error()}}
		}
	}
	var e1, e2 error
	if p, pm, where := vh.Trap(func() { e1 = render(reused, cs.Now, "node"); e2 = render(fresh, cs.Now, "node") }); p {
		return [][2]string{{"panic/" + where, pm}}
	}
	if e1 != nil || e2 != nil {
		return [][2]string{{"render-error", fmt.Sprint(e1, e2)}}
	}
	a, _ := os.ReadFile(reused)
	b, _ := os.ReadFile(fresh)
	// the renderings list nodes in map order: compare as sorted lines
	lines := func(x []byte) string {
		var ls []string
		cur := ""
		for _, ch := range string(x) {
			if ch == '\n' {
				ls = append(ls, cur)
				cur = ""
			} else {
				cur += string(ch)
			}
		}
		if cur != "" {
			ls = append(ls, cur)
		}
		// Mermaid numbers the nodes (n1, n2, ...) in the order it meets them: put the names back
		decl := regexp.MustCompile(`^\s*(n\d+)[\(\[]"(.*)"[\)\]]$`)
		names := map[string]string{}
		for _, l := range ls {
			if m := decl.FindStringSubmatch(l); m != nil {
				names[m[1]] = m[2]
			}
		}
		if cs.Tool == "mermaid" {
			id := regexp.MustCompile(`\bn\d+\b`)
			for i, l := range ls {
				ls[i] = id.ReplaceAllStringFunc(l, func(x string) string {
					if n, ok := names[x]; ok {
						return "<" + n + ">"
					}
					return x
				})
			}
		}
		sort.Strings(ls)
		return fmt.Sprint(len(ls), ls)
	}
	if lines(a) != lines(b) {
		return [][2]string{{"rendering-depends-on-what-the-file-held-before", fmt.Sprintf("%+v: rendered into a file that already held earlier renderings, the output has %d bytes; rendered into a new file %d bytes, and the lines differ", cs, len(a), len(b))}}
	}
	return nil
}

func C20spectool(c *vh.Ctx) {
	dir, _ := os.MkdirTemp(os.Getenv("VERIF_SCRATCH"), "c20f-")
	defer os.RemoveAll(dir)
	one := func(cs c20fCase) {
		c.Eval()
		vs := c20fRun(dir, cs)
		if len(vs) == 0 {
			c.Nontrivial()
		}
		for _, v := range vs {
			if v[0] == "<harness>" {
				c.NotExhaustive("C20spectool: " + v[1])
				continue
			}
			c.Violation("C20/spectool/"+v[0]+"/"+cs.Tool, v[1], cs)
		}
	}
	if c.Replay != "" {
		var cs c20fCase
		if c.LoadReplay(&cs) == nil && cs.Tool != "" {
			one(cs)
		}
		return
	}
	c.Rule("(spectool graph / mermaid) chain specifications of 1-8 nodes rendered by the command's own Grapher.F / Mermaid.F into an output file that does not exist yet, and into one that already holds the rendering(s) of other - smaller and larger - specifications: the file's lines must be those of a rendering into a new file.")
	var idx uint64
	for _, tool := range []string{"graph", "mermaid"} {
		for now := 1; now <= 8; now++ {
			for _, before := range [][]int{nil, {1}, {8}, {3}, {8, 2}, {2, 8}} {
				idx++
				if c.Mine(idx) && !c.Expired() {
					one(c20fCase{Tool: tool, Before: before, Now: now})
				}
			}
		}
	}
}
