package main

import (
	"context"
	"fmt"
	"os"
	"path/filepath"

	"github.com/Comcast/sheens/crew"
	"github.com/Comcast/sheens/verifrt/ref/rspecs"
	"github.com/Comcast/sheens/verifrt/ref/rstep"
	"github.com/Comcast/sheens/verifrt/vh"
)

type c13mcrewCase struct {
	Spec    *rstep.ASpec `json:"spec"`
	Variant string       `json:"variant"`
}

// C13mcrew: mcrew's own loader (a YAML file in the spec directory, read by Service.GetSpec).  The
// specification must behave like its Go-structure rendering, with inline patterns and with JSON-text
// patterns under patternSyntax json.
func C13mcrew(c *vh.Ctx) {
	dir := scratchDir()
	defer os.RemoveAll(dir)
	e, err := newSvc(dir)
	if err != nil {
		c.NotExhaustive("cannot create a service: " + err.Error())
		return
	}
	defer e.close()
	maxLen := c.Pick(1, 2)
	one := func(as *rstep.ASpec, variant string) {
		c.Eval()
		c.Nontrivial()
		base, err := as.Build()
		if err != nil {
			return
		}
		want := rspecs.Trace(base, maxLen)
		doc, ok := as.Doc("yaml", variant == "json-syntax")
		if !ok {
			return
		}
		os.WriteFile(filepath.Join(dir, "specs", "gen.yaml"), []byte(rstep.YAML(doc)), 0o644)
		var got string
		var lerr error
		if p, pm, where := vh.Trap(func() {
			sp, err := e.s.GetSpec(context.Background(), &crew.SpecSource{Name: "gen"})
			if err != nil {
				lerr = err
				return
			}
			got = rspecs.Trace(sp.Spec(), maxLen)
		}); p {
			c.Violation("C13/mcrew-loader-panic/"+variant, pm+" @"+where, c13mcrewCase{Spec: as, Variant: variant})
			return
		}
		if lerr != nil {
			c.Violation("C13/mcrew-loader/fails-in-this-representation/"+variant, fmt.Sprintf("the specification compiles as Go structures but mcrew's GetSpec fails for its YAML file (%s): %v", variant, lerr), c13mcrewCase{Spec: as, Variant: variant})
			return
		}
		if got != want {
			c.Violation("C13/mcrew-loader/behaves-differently/"+variant, fmt.Sprintf("loaded through mcrew's GetSpec (%s) the specification behaves differently from its Go-structure rendering", variant), c13mcrewCase{Spec: as, Variant: variant})
		}
	}
	if c.Replay != "" {
		var cs c13mcrewCase
		if c.LoadReplay(&cs) == nil && cs.Spec != nil {
			one(cs.Spec, cs.Variant)
		}
		return
	}
	c.Rule("(mcrew host loader) every specification of the same family written as a YAML file into the service's spec directory and loaded by Service.GetSpec, with inline patterns and with JSON-text patterns under patternSyntax json: behaviour tree equal to the Go-structure rendering.")
	var idx uint64
	for _, as := range rspecs.Family() {
		for _, v := range []string{"inline-patterns", "json-syntax"} {
			idx++
			if !c.Mine(idx) || c.Expired() {
				continue
			}
			one(as, v)
		}
	}
}
