package main

import (
	"context"
	"fmt"
	"os"
	"sort"
	"strings"
	"time"

	"github.com/Comcast/sheens/verifrt/ref/rtimers"
	"github.com/Comcast/sheens/verifrt/sched"
	"github.com/Comcast/sheens/verifrt/vh"
)

// tOp is one timer request.
type tOp struct {
	K  string `json:"k"`            // make | cancel | pending | shutdown
	Id string `json:"id,omitempty"` //
	D  int64  `json:"d,omitempty"`  // delay in ms (make)
}

func (o tOp) String() string {
	switch o.K {
	case "make":
		return fmt.Sprintf("make(%s,%dms)", o.Id, o.D)
	case "cancel":
		return "cancel(" + o.Id + ")"
	}
	return o.K
}

// tScenario: requests issued by the requester thread, and requests issued from inside the handler of the n-th firing.
type tScenario struct {
	Req     []tOp `json:"req"`
	Handler []tOp `json:"handler,omitempty"` // run inside the first firing's handler
}

type c17Case struct {
	Scenario tScenario `json:"scenario"`
	Choices  []int     `json:"choices"`
	Sizes    []int     `json:"sizes"`
	Trace    []string  `json:"trace,omitempty"`
	Log      []string  `json:"log,omitempty"`
}

type ev = rtimers.Ev

type timersRun struct {
	evs         []ev
	x           *sched.Exec
	tokens      int
	handlerDone bool
}

//go:norace
func (r *timersRun) takeHandler() bool {
	if r.handlerDone {
		return false
	}
	r.handlerDone = true
	return true
}

//go:norace
func (r *timersRun) nextToken() int { r.tokens++; return r.tokens }

//go:norace
func (r *timersRun) rec(e ev) { e.Now = sched.NowNS(); r.evs = append(r.evs, e) }

func runTimersScenario(sc tScenario, prefix, prefixN []int) (*sched.Exec, *timersRun) {
	x := sched.NewExec(prefix, prefixN)
	r := &timersRun{x: x}
	ctx, cancel := context.WithCancel(context.Background())
	var ts *Timers
	var do func(ctx context.Context, who string, op tOp)
	do = func(ctx context.Context, who string, op tOp) {
		switch op.K {
		case "make":
			tok := r.nextToken()
			due := sched.NowNS() + op.D*int64(time.Millisecond)
			err := ts.Add(ctx, op.Id, map[string]interface{}{"token": tok}, time.Duration(op.D)*time.Millisecond)
			r.rec(ev{Kind: "add", Id: op.Id, Token: tok, Err: errStr(err), Due: due})
		case "cancel":
			err := ts.Rem(ctx, op.Id)
			r.rec(ev{Kind: "cancel", Id: op.Id, Err: errStr(err)})
		case "pending":
			ts.Lock()
			var ids []string
			for id := range ts.timers {
				ids = append(ids, id)
			}
			ts.Unlock()
			sort.Strings(ids)
			r.rec(ev{Kind: "pending", IDs: ids})
		case "shutdown":
			ts.Shutdown()
			r.rec(ev{Kind: "shutdown"})
		}
	}
	emitter := func(hctx context.Context, message interface{}) error {
		tok := message.(map[string]interface{})["token"].(int)
		r.rec(ev{Kind: "fire-begin", Token: tok})
		sched.Yield("in-handler")
		if r.takeHandler() {
			for _, op := range sc.Handler {
				// a handler works with the context it was given (as the mcrew service does)
				do(hctx, "handler", op)
				sched.Yield("in-handler-after-op")
			}
		}
		r.rec(ev{Kind: "fire-end", Token: tok})
		return nil
	}
	ts = NewTimers(emitter)
	x.Go("requester", func() {
		for _, op := range sc.Req {
			do(ctx, "req", op)
			sched.Yield("after-" + op.K)
		}
	})
	x.Run()
	cancel()
	x.Finish()
	if ls := x.LiveStacks(); ls != "" && leftoverNote == "" {
		leftoverNote = ls
	}
	return x, r
}

var leftoverNote string

func errStr(err error) string {
	if err == nil {
		return ""
	}
	return err.Error()
}

func timersScenarios(maxReq int, thorough bool) []tScenario {
	base := []tOp{{K: "make", Id: "1", D: 10}, {K: "make", Id: "1", D: 3600000}, {K: "make", Id: "2", D: 10}, {K: "cancel", Id: "1"}, {K: "cancel", Id: "2"}, {K: "pending"}}
	var seqs [][]tOp
	var rec func(cur []tOp)
	rec = func(cur []tOp) {
		if len(cur) > 0 {
			seqs = append(seqs, append([]tOp{}, cur...))
		}
		if len(cur) == maxReq {
			return
		}
		for _, o := range base {
			rec(append(cur, o))
		}
	}
	rec(nil)
	var out []tScenario
	handlers := [][]tOp{nil, {{K: "make", Id: "1", D: 10}}, {{K: "cancel", Id: "1"}, {K: "make", Id: "1", D: 3600000}}, {{K: "pending"}}}
	if thorough {
		handlers = append(handlers, []tOp{{K: "make", Id: "2", D: 10}}, []tOp{{K: "cancel", Id: "2"}})
	}
	for _, s := range seqs {
		makes := 0
		for _, o := range s {
			if o.K == "make" {
				makes++
			}
		}
		if makes == 0 || s[0].K != "make" {
			continue // nothing can happen before the first make
		}
		for _, h := range handlers {
			out = append(out, tScenario{Req: s, Handler: h})
		}
	}
	return out
}

// C17mcrew explores the mcrew Timers.
func C17mcrew(c *vh.Ctx) {
	bound := c.Pick(2, 3)
	if c.Replay != "" {
		var hc hangCase
		if c.LoadReplay(&hc) == nil && hc.Family != "" {
			c17Hangup(c)
			return
		}
		var cs c17Case
		if c.LoadReplay(&cs) != nil {
			return
		}
		x, r := runTimersScenario(cs.Scenario, cs.Choices, cs.Sizes)
		c.Eval()
		for _, v := range rtimers.Monitor(r.evs, !x.HorizonHit && x.Deadlock == "") {
			c.Violation("C17/mcrew/"+v[0], v[1], cs)
		}
		return
	}
	maxReq := c.Pick(3, 4)
	if os.Getenv("VERIF_RACE") == "1" {
		maxReq, bound = 2, 2 // the race pass re-runs a reduced exploration under ThreadSanitizer
	}
	if os.Getenv("VERIF_RACE") != "1" {
		c17Hangup(c)
	}
	scs := timersScenarios(maxReq, !c.Quick())
	c.Bound("requests_max", maxReq)
	c.Bound("deviations_max", bound)
	if c.Shard == 0 {
		c.Count("scenarios", int64(len(scs)))
	}
	c.Rule("mcrew Timers: every request sequence up to the bound over {make(1,10ms), make(1,1h), make(2,10ms), cancel(1), cancel(2), report-pending} starting with a make, crossed with requests issued from inside the handler of the first firing {none, make(1), cancel(1)+make(1), report-pending}; for each, every schedule of requester, timer goroutines and timer-fire events with at most k deviations from the default (run the current thread; fire timers in due order when nothing else can run); virtual time; a per-id monitor automaton checks every execution. states = scenarios, transitions = scheduler steps, traces = schedules; non-trivial = schedule with at least one firing. Sessions that end (real clock, outside the scheduler): a timer (300 ms, 1 s) made with a context that is then cancelled, next to 0 or 2 timers of a session that goes on, followed by nothing / a make under the same id by another session / a cancel by another session: within 10 s the timer is either retired (gone from the pending set, never fires, id reusable - the reused timer fires exactly once) or kept (then it fires once when due); the other session's timers stay pending.")
	for i, sc := range scs {
		if !c.Mine(uint64(i)) {
			continue
		}
		if c.Expired() {
			return
		}
		c.R.States++
		seen := map[string]bool{}
		st := sched.Explore(bound, 200000, func(uint64) bool { return true }, true,
			func(p, pn []int) *sched.Exec {
				x, r := runTimersScenario(sc, p, pn)
				x.UserData = r
				return x
			},
			func(x *sched.Exec, devs int) {
				c.Eval()
				c.Count("sched_fast_steps", int64(x.FastSteps))
				c.Count("sched_full_dumps", int64(x.FullDumps))
				r := x.UserData.(*timersRun)
				fired := false
				var sb strings.Builder
				for _, e := range r.evs {
					if e.Kind == "fire-begin" {
						fired = true
					}
					fmt.Fprintf(&sb, "%s:%s:%d:%s:%v;", e.Kind, e.Id, e.Token, e.Err, e.IDs)
				}
				if fired {
					c.Nontrivial()
				}
				c.Outcome("log", sb.String())
				if x.Deadlock != "" {
					key := "C17/mcrew/deadlock"
					if !seen[key] {
						seen[key] = true
						cs, ns := sched.Choices(x.Trace)
						c.Violation(key, "deadlock: "+x.Deadlock, c17Case{Scenario: sc, Choices: cs, Sizes: ns, Trace: sched.FormatTrace(x.Trace)})
					}
					return
				}
				for _, v := range rtimers.Monitor(r.evs, !x.HorizonHit) {
					key := "C17/mcrew/" + v[0]
					if seen[key] {
						c.R.ViolationKeys[key]++
						continue
					}
					// re-run the same schedule: it must fail the same way
					cs, ns := sched.Choices(x.Trace)
					x2, r2 := runTimersScenario(sc, cs, ns)
					again := false
					if x2.Nondet == "" {
						for _, v2 := range rtimers.Monitor(r2.evs, !x2.HorizonHit) {
							if v2[0] == v[0] {
								again = true
							}
						}
					}
					if !again {
						c.Count("unreproduced", 1)
						c.NotExhaustive("a violation did not reproduce on replay; not reported")
						continue
					}
					seen[key] = true
					var log []string
					for _, e := range r.evs {
						log = append(log, fmt.Sprintf("%+v", e))
					}
					c.Violation(key, v[1]+" | scenario "+fmt.Sprint(sc.Req)+" handler "+fmt.Sprint(sc.Handler), c17Case{Scenario: sc, Choices: cs, Sizes: ns, Trace: sched.FormatTrace(x.Trace), Log: log})
				}
			})
		c.Bound("max_goroutine_dump_bytes", sched.MaxDump)
		c.R.Traces += int64(st.Schedules)
		c.R.Transitions += int64(st.Transitions)
		c.Count("nondeterministic_subtrees", int64(st.Nondet))
		if leftoverNote != "" {
			c.Note("LEFTOVER goroutines after Finish: " + leftoverNote)
		}
		for _, n := range st.NondetNotes {
			c.Note("NONDET " + fmt.Sprint(sc.Req, sc.Handler) + ": " + n)
		}
		c.Count("stuck_executions", int64(st.Stuck))
		c.Count("horizons", int64(st.Horizons))
		c.Count("multi_event_steps", int64(st.MultiEvent))
		if st.Nondet > 0 || st.Stuck > 0 || st.Capped {
			c.NotExhaustive(fmt.Sprintf("exploration gaps: %d nondeterministic subtrees, %d stuck executions, capped=%v", st.Nondet, st.Stuck, st.Capped))
		}
		if c.WantSample() && i%7 == 3 {
			c.Sample(map[string]interface{}{"scenario": sc, "schedules": st.Schedules})
		}
	}
}
