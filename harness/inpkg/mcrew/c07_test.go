package main

import (
	"encoding/json"
	"fmt"
	"os"
	"path/filepath"
	"strings"

	"github.com/Comcast/sheens/verifrt/sched"
	"github.com/Comcast/sheens/verifrt/vh"
)

// ---- C07mcrew: hostile specifications, states, messages, control settings and action behaviours as they reach
// the mcrew host: machines are added and messages submitted as lines of Service.Listener's text protocol.  The host
// must answer every line and stay in service; nothing may crash it. ----

const c07Actor = `
nodes:
  start:
    branching:
      type: message
      branches:
      - pattern: {"do":"?do"}
        target: act
      - pattern: "?other"
        target: start
  act:
    action:
      interpreter: ecmascript
      source: |-
        var d = _.bindings["?do"];
        delete _.bindings["?do"];
        _.out({did: d});
        switch (d) {
        case "throw": throw "no";
        case "throwobj": throw {toString: function() { throw "worse"; }};
        case "null": return null;
        case "scalar": return 7;
        case "array": return [1];
        case "nan": _.bindings.x = 0/0; return _.bindings;
        case "fn": _.bindings.f = function() {}; return _.bindings;
        case "emitfn": _.out(function() {}); return _.bindings;
        case "emitnan": _.out({x: 0/0}); return _.bindings;
        case "cyclic": var o = {}; o.o = o; _.bindings.o = o; return _.bindings;
        case "toself": _.out({to: _.props ? _.props.mid : "a", do: "ok"}); return _.bindings;
        case "tonobody": _.out({to: "nobody", do: "ok"}); _.out({to: 7}); _.out(null); _.out(7); return _.bindings;
        case "delperm": delete _.bindings["k!"]; return _.bindings;
        case "goerr": _.bindings.goerr = true; return _.bindings;
        case "goerr7": _.bindings.goerr = true; _.bindings.error = 7; _.bindings.lastNode = {}; return _.bindings;
        }
        _.bindings.n = (_.bindings.n || 0) + 1;
        return _.bindings;
    branching:
      branches:
      - pattern: {"goerr": true}
        target: error
      - target: start
`

var c07SpecFiles = map[string]string{
	"actor":      "name: actor" + c07Actor,
	"params":     "name: params\nparamspecs:\n  color:\n    primitiveType: string\n    default: blue\n  sizes:\n    primitiveType: number\n    isArray: true\n    default: [1, null]\n  nothing:\n    primitiveType: string\n" + c07Actor,
	"handled":    "name: handled\nactionerrornode: oops\n" + c07Actor + "  oops:\n    branching:\n      type: message\n      branches:\n      - target: start\n",
	"selferr":    "name: selferr\nactionerrornode: error\n" + c07Actor + "  error:\n    branching:\n      type: message\n      branches:\n      - target: start\n",
	"broken":     "name: broken\nnodes:\n  start: [\n",
	"badinterp":  "name: badinterp\nnodes:\n  start:\n    action:\n      interpreter: cobol\n      source: x\n",
	"nullnode":   "name: nullnode\nnodes:\n  start:\n  other:\n    branching:\n      branches:\n      - \n",
	"badpattern": "name: badpattern\npatternSyntax: json\nnodes:\n  start:\n    branching:\n      type: message\n      branches:\n      - pattern: '{\"a\":'\n        target: start\n",
	"empty":      "",
	"scalar":     "7\n",
}

type c07mCase struct {
	Verbose bool        `json:"verbose,omitempty"` // the host's -v flag
	Spec    string      `json:"spec"`              // spec file name ("missing" has no file)
	State   string      `json:"state"`             // JSON text of the machine's state member ("" - the member is absent)
	Msgs    []string    `json:"msgs"`              // JSON texts of the messages
	Ctl     string      `json:"ctl"`               // JSON text of the process op's ctl member ("" - absent)
	Extra   interface{} `json:"extra,omitempty"`
}

func c07mLines(cs c07mCase) []string {
	add := `{"cop":{"add":{"m":{"id":"a","spec":{"name":"` + cs.Spec + `"}`
	if cs.State != "" {
		add += `,"state":` + cs.State
	}
	add += `}}}}`
	lines := []string{add}
	for _, m := range cs.Msgs {
		p := `{"cop":{"process":{"message":` + m
		if cs.Ctl != "" {
			p += `,"ctl":` + cs.Ctl
		}
		p += `}}}`
		lines = append(lines, p)
	}
	// what every client may ask at any time
	lines = append(lines, `{"getCrew":{}}`, `{"getSpec":{"source":{"name":"`+cs.Spec+`"}}}`, add, `{"cop":{"process":{"message":{"do":"ok"}}}}`, `{"cop":{"rem":{"id":"a"}}}`, `{"getCrew":{}}`)
	return lines
}

// c07mRun feeds the lines to one Listener session of a fresh service, under the scheduler's default schedule (so that
// the service's own goroutines - re-injected emissions - have run to the end before the service is judged).
func c07mRun(dir string, cs c07mCase) [][2]string {
	e, err := newSvc(dir)
	if err != nil {
		return [][2]string{{"<harness>", "cannot create a service: " + err.Error()}}
	}
	defer e.close()
	e.s.Emitted = make(chan interface{}, 4096)
	e.s.wsClientC = make(chan interface{}, 4096)
	lines := c07mLines(cs)
	defer func(v bool) { Verbose = v }(Verbose)
	Verbose = cs.Verbose
	var resp []string
	var lerr error
	panicked, pmsg, where := false, "", ""
	x := sched.NewExec(nil, nil)
	x.Go("client", func() {
		panicked, pmsg, where = vh.Trap(func() { resp, lerr = listenerSay(e.s, strings.Join(lines, "\n")+"\n") })
	})
	x.Run()
	x.Finish()
	if os.Getenv("VERIF_DEBUG") != "" {
		for i, r := range resp {
			if i < len(lines) {
				func() {
					f, _ := os.OpenFile("/tmp/c07dbg.log", os.O_APPEND|os.O_CREATE|os.O_WRONLY, 0644)
					fmt.Fprintf(f, "LINE %.300s\nRESP %.600s\n", lines[i], r)
					f.Close()
				}()
			}
		}
	}
	var out [][2]string
	if panicked {
		return [][2]string{{"panic/" + where, fmt.Sprintf("lines %q: panic: %s", lines, pmsg)}}
	}
	if x.Deadlock != "" || x.HorizonHit {
		out = append(out, [2]string{"host-stuck", fmt.Sprintf("lines %q: the service did not come to rest: %s horizon=%v", lines, x.Deadlock, x.HorizonHit)})
	}
	if lerr != nil {
		out = append(out, [2]string{"listener-gave-up", fmt.Sprintf("lines %q: Service.Listener returned %v before the end of the input", lines, lerr)})
	}
	if len(resp) != len(lines) {
		out = append(out, [2]string{"line-not-answered", fmt.Sprintf("lines %q: %d lines, %d answers", lines, len(lines), len(resp))})
	} else {
		for i, r := range resp {
			var v interface{}
			if json.Unmarshal([]byte(r), &v) != nil && !strings.HasPrefix(r, "error:") {
				out = append(out, [2]string{"answer-unreadable", fmt.Sprintf("line %q was answered with %.200q", lines[i], r)})
				break
			}
		}
	}
	return out
}

func C07mcrew(c *vh.Ctx) {
	dir := scratchDir()
	defer os.RemoveAll(dir)
	for name, text := range c07SpecFiles {
		os.WriteFile(filepath.Join(dir, "specs", name+".yaml"), []byte(text), 0o644)
	}
	one := func(cs c07mCase) {
		c.InFlight(cs)
		c.Eval()
		vs := c07mRun(dir, cs)
		if len(vs) == 0 {
			c.Nontrivial()
		}
		for _, v := range vs {
			if v[0] == "<harness>" {
				c.NotExhaustive("C07mcrew: " + v[1])
				continue
			}
			c.Violation("C07/mcrew/"+v[0], v[1], cs)
		}
	}
	if c.Replay != "" {
		var cs c07mCase
		if c.LoadReplay(&cs) == nil {
			one(cs)
		}
		return
	}
	specs := []string{"actor", "params", "handled", "selferr", "broken", "badinterp", "nullnode", "badpattern", "empty", "scalar", "missing"}
	states := []string{`{"node":"start","bs":{}}`, "", `null`, `{"node":"start"}`, `{"node":"start","bs":null}`, `{"bs":{}}`, `{"node":"nowhere","bs":{}}`, `{"node":"","bs":{}}`,
		`{"node":"start","bs":{"k!":{"deep":[1,{"x":null}]},"n":"text"}}`, `{"node":"act","bs":{}}`, `{"node":"act"}`, `{"node":"error","bs":{"error":"earlier","lastBindings":{"lastBindings":{}}}}`, `{"node":"error","bs":{"error":7,"lastNode":7}}`}
	behaviours := []string{"ok", "throw", "throwobj", "null", "scalar", "array", "nan", "fn", "emitfn", "emitnan", "cyclic", "toself", "tonobody", "delperm", "goerr", "goerr7"}
	msgs := []string{`null`, `7`, `"text"`, `[1,[2]]`, `{}`, `{"to":"a"}`, `{"to":7,"do":"ok"}`, `{"to":["a"],"do":"ok"}`, `{"to":"timers","do":"ok"}`, `{"to":"timers","makeTimer":null}`, `{"to":"timers","makeTimer":{"id":7,"in":"never","message":null}}`, `{"to":"http"}`, `{"to":"http","request":7}`, `{"to":"ws"}`,
		`{"do":{"not":"a string"}}`, `{"do":null}`, strings.Repeat(`{"d":`, 200) + `1` + strings.Repeat(`}`, 200)}
	for _, b := range behaviours {
		msgs = append(msgs, `{"do":"`+b+`"}`, `{"to":"a","do":"`+b+`"}`)
	}
	ctls := []string{"", `null`, `{"limit":0}`, `{"limit":-1}`, `{"limit":1}`, `{"limit":2}`, `{}`}
	c.Bound("mcrew_specs", len(specs))
	c.Bound("mcrew_states", len(states))
	c.Bound("mcrew_messages", len(msgs))
	c.Bound("mcrew_controls", len(ctls))
	c.Rule("(mcrew host) a machine is added and messages are submitted as lines of Service.Listener's text protocol: every combination of a specification file (four that work - one with parameter defaults, one with an action-error node of its own, one that names the error node as its action-error node; each with a branch of its own to the error node - and files that are broken YAML, name an unknown interpreter, hold a null node and a null branch, hold an unparsable pattern, are empty, hold a scalar, are missing), a machine state (with / without / with null bindings, without a node, at an unknown node, at an action node, at the error node, with a structured permanent binding) and one message (every JSON shape, addressed to the machine / to nobody / to the service names with malformed requests, deep nesting, and one per action behaviour: throwing, throwing a hostile object, returning null / a scalar / an array, binding or emitting what cannot be serialised, emitting to itself and to nobody) under every control setting (absent, null, limits 0 / -1 / 1 / 2), with and without the host's -v flag; in the thorough tier also every pair of messages for the working specifications. Each session ends with read-crew, get-spec, the same add once more (a client that retries), one ordinary message, remove, read-crew. Oracle: no panic (trap; a worker that dies is attributed to the case in flight), the service comes to rest, the listener answers every line with one readable line and does not give up.")
	var idx uint64
	for _, sp := range specs {
		for _, st := range states {
			for mi, m := range msgs {
				for _, ctl := range ctls {
					if c.Quick() && ctl != "" && (mi+len(st))%3 != 0 && !strings.Contains(m, `"do":"`) {
						continue // quick: the control settings take turns for messages that run no action
					}
					idx++
					if !c.Mine(idx) || c.Expired() {
						continue
					}
					one(c07mCase{Spec: sp, State: st, Msgs: []string{m}, Ctl: ctl})
					one(c07mCase{Spec: sp, State: st, Msgs: []string{m}, Ctl: ctl, Verbose: true})
				}
			}
		}
	}
	if !c.Quick() {
		for _, sp := range []string{"actor", "params", "handled", "selferr"} {
			for _, st := range []string{`{"node":"start","bs":{}}`, `{"node":"start"}`, `{"node":"start","bs":{"k!":1}}`} {
				for _, m1 := range msgs {
					for _, m2 := range msgs {
						idx++
						if !c.Mine(idx) || c.Expired() {
							continue
						}
						one(c07mCase{Spec: sp, State: st, Msgs: []string{m1, m2}})
					}
				}
			}
		}
	}
}
