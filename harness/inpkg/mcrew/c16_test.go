package main

import (
	"context"
	"fmt"
	"os"
	"path/filepath"
	"runtime"
	"sort"
	"strings"
	"time"

	"github.com/Comcast/sheens/core"
	"github.com/Comcast/sheens/crew"
	"github.com/Comcast/sheens/match"
	"github.com/Comcast/sheens/verifrt/ref/rstep"
	"github.com/Comcast/sheens/verifrt/sched"
	"github.com/Comcast/sheens/verifrt/snap"
	"github.com/Comcast/sheens/verifrt/tickctx"
	"github.com/Comcast/sheens/verifrt/vbolt"
	"github.com/Comcast/sheens/verifrt/vh"
)

const counterSpec = `name: counter
nodes:
  start:
    branching:
      type: message
      branches:
      - pattern:
          inc: "?n"
        target: bump
      - pattern:
          poison: "?p"
        target: poison
      - pattern:
          emit: "?e"
        target: emit
      - pattern:
          half: "?h"
        target: half
  half:
    action:
      interpreter: ecmascript
      source: |-
        var c = _.bindings.count || 0;
        if (c % 2 == 1) { return {count: 1/0}; }
        return {count: c + 1};
    branching:
      branches:
      - target: start
  bump:
    action:
      interpreter: ecmascript
      source: |-
        _.ctx.Value("tick");
        var c = _.bindings.count || 0;
        _.ctx.Value("tick");
        return {count: c + 1};
    branching:
      branches:
      - target: start
  poison:
    action:
      interpreter: ecmascript
      source: |-
        return {count: 0/0};
    branching:
      branches:
      - target: start
  emit:
    action:
      interpreter: ecmascript
      source: |-
        _.out({to: _.bindings["?e"], inc: 1});
        return {count: _.bindings.count || 0};
    branching:
      branches:
      - target: start
`

func scratchDir() string {
	base := "/dev/shm"
	if st, err := os.Stat(base); err != nil || !st.IsDir() {
		base = os.Getenv("VERIF_SCRATCH")
		if base == "" {
			base = os.TempDir()
		}
	}
	d := filepath.Join(base, fmt.Sprintf("verif-mcrew-%d", os.Getpid()))
	os.MkdirAll(filepath.Join(d, "specs"), 0o755)
	os.WriteFile(filepath.Join(d, "specs", "counter.yaml"), []byte(counterSpec), 0o644)
	// the same machine with declared parameters: the add operation of the protocol fills in their defaults
	os.WriteFile(filepath.Join(d, "specs", "pcounter.yaml"), []byte(strings.Replace(counterSpec, "name: counter\n", "name: pcounter\nparamspecs:\n  limit:\n    primitiveType: number\n    default: 3\n  label:\n    primitiveType: string\n    default: plain\n", 1)), 0o644)
	return d
}

type svcOp struct {
	K  string `json:"k"` // add | rem | inc | bcast | poison | down | up | read
	Id string `json:"id,omitempty"`
	// Dead: the request arrives with a context that has already ended (a client that went away)
	Dead bool `json:"dead,omitempty"`
}

func (o svcOp) String() string {
	s := o.K
	if o.Id != "" {
		s = o.K + "(" + o.Id + ")"
	}
	if o.Dead {
		s += "[context ended]"
	}
	return s
}

type svcEnv struct {
	dir    string
	file   string
	s      *Service
	down   bool
	cancel context.CancelFunc
}

var svcSeq int

func newSvc(dir string) (*svcEnv, error) {
	svcSeq++
	vbolt.FailUpdates = 0
	file := filepath.Join(dir, fmt.Sprintf("db-%d.bolt", svcSeq%4))
	os.Remove(file)
	ctx, cancel := context.WithCancel(context.Background())
	s, err := NewService(ctx, filepath.Join(dir, "specs"), file, "")
	if err != nil {
		cancel()
		return nil, err
	}
	return &svcEnv{dir: dir, file: file, s: s, cancel: cancel}, nil
}

func (e *svcEnv) close() {
	if !e.down {
		e.s.store.Close(context.Background())
		e.down = true
	}
	e.cancel()
	os.Remove(e.file)
}

// do executes one operation; returns its result rendering.
func (e *svcEnv) do(ctx context.Context, op svcOp) string {
	s := e.s
	switch op.K {
	case "add":
		return errStr(s.AddMachine(ctx, "counter", op.Id, "start", nil))
	case "addghost":
		return errStr(s.AddMachine(ctx, "no-such-spec", op.Id, "start", nil))
	case "addop":
		// the add operation of the service protocol (what the TCP, HTTP and WebSocket front ends run), for a
		// specification with parameter defaults; the client gives no bindings
		o := &SOp{COp: &COp{Add: &OpAdd{Machine: &crew.Machine{Id: op.Id, SpecSource: &crew.SpecSource{Name: "pcounter"}}}}}
		if err := o.Do(ctx, s); err != nil {
			return "ERR:" + err.Error()
		}
		return o.COp.Add.Err
	case "readop":
		// the read-crew operation of the protocol: what it shows is the crew as it is now
		o := &SOp{GetCrewOp: &GetCrewOp{}}
		if err := o.Do(ctx, s); err != nil {
			return "ERR:" + err.Error()
		}
		var parts []string
		if o.GetCrewOp.Crew != nil {
			for id, m := range o.GetCrewOp.Crew.Machines {
				node, bs, spec := "", "{}", ""
				if m != nil && m.SpecSource != nil {
					spec = m.SpecSource.Name
				}
				if m != nil && m.State != nil {
					node = m.State.NodeName
					if m.State.Bs != nil {
						bs = rstep.Canon(map[string]interface{}(m.State.Bs))
					}
				}
				parts = append(parts, fmt.Sprintf("%q:%s/%s/%s", id, spec, node, bs))
			}
		}
		sort.Strings(parts)
		if shown := strings.Join(parts, ";"); shown != e.memory() {
			return "STALE: read-crew shows [" + shown + "] but the crew is [" + e.memory() + "]"
		}
		return ""
	case "rem":
		return errStr(s.RemMachine(ctx, op.Id))
	case "inc", "poison", "bcast", "half":
		msg := map[string]interface{}{"inc": 1.0}
		if op.K == "poison" {
			msg = map[string]interface{}{"poison": 1.0}
		}
		if op.K == "half" {
			// a broadcast that some machines of the batch survive (even count: count+1) and others do not
			// (odd count: a value that cannot be stored)
			msg = map[string]interface{}{"half": 1.0}
		}
		if op.K != "bcast" && op.K != "half" {
			msg["to"] = op.Id
		}
		ws, err := s.Process(ctx, msg, nil)
		var parts []string
		for mid, w := range ws {
			if to := w.To(); to != nil {
				parts = append(parts, mid+"->"+to.NodeName+rstep.Canon(map[string]interface{}(to.Bs)))
			}
		}
		sort.Strings(parts)
		if err != nil {
			return "ERR"
		}
		return strings.Join(parts, ",")
	case "failnext", "failcommit":
		// the next write transaction fails (before it starts / when it commits), then the store is healthy again
		vbolt.FailUpdates, vbolt.FailAtCommit = 1, op.K == "failcommit"
		return ""
	case "down":
		if !e.down {
			s.store.Close(ctx)
			e.down = true
		}
		return ""
	case "up":
		if e.down {
			if err := s.store.Open(ctx); err != nil {
				return "ERR:" + err.Error()
			}
			e.down = false
		}
		return ""
	case "getspec":
		// a client asks the service for a machine's specification (the getSpec / add requests do, outside the
		// crew lock) and works with what it gets: a compiled specification, whoever else is asking for it
		sp, err := s.GetSpec(ctx, &crew.SpecSource{Name: "counter"})
		if err != nil {
			return "ERR:" + err.Error()
		}
		w, err := sp.Spec().Walk(ctx, &core.State{NodeName: "start", Bs: match.NewBindings()}, []interface{}{map[string]interface{}{"inc": 1.0}}, &core.Control{Limit: 10}, nil)
		if err != nil {
			return "WALKERR:" + err.Error()
		}
		if to := w.To(); to != nil {
			return "spec-walk->" + to.NodeName + rstep.Canon(map[string]interface{}(to.Bs))
		}
		return "spec-walk-stays"
	case "read":
		// a read-crew request: what it returns is a snapshot - every machine as it was at one moment
		c := s.crew.Copy()
		var parts []string
		for id, m := range c.Machines {
			if m == nil {
				parts = append(parts, id+"=<nil>")
				continue
			}
			node, bs := "", "{}"
			if m.State != nil {
				node = m.State.NodeName
				if m.State.Bs != nil {
					bs = rstep.Canon(map[string]interface{}(m.State.Bs))
				}
			}
			parts = append(parts, id+"="+node+"/"+bs)
		}
		sort.Strings(parts)
		return strings.Join(parts, ",")
	}
	return "?"
}

func (e *svcEnv) memory() string {
	var parts []string
	for id, m := range e.s.crew.Machines {
		if m == nil {
			parts = append(parts, fmt.Sprintf("%q:<nil machine>", id))
			continue
		}
		spec := ""
		if m.SpecSource != nil {
			spec = m.SpecSource.Name
		}
		node, bs := "", "{}"
		if m.State != nil {
			node = m.State.NodeName
			if m.State.Bs != nil {
				bs = rstep.Canon(map[string]interface{}(m.State.Bs))
			}
		}
		parts = append(parts, fmt.Sprintf("%q:%s/%s/%s", id, spec, node, bs))
	}
	sort.Strings(parts)
	return strings.Join(parts, ";")
}

func (e *svcEnv) stored() (string, error) {
	var mss []*MachineState
	var err error
	if e.down {
		st, _ := NewStorage(e.file)
		if err = st.Open(context.Background()); err != nil {
			return "", err
		}
		mss, err = st.GetCrew(context.Background(), e.s.crewName)
		st.Close(context.Background())
	} else {
		mss, err = e.s.store.GetCrew(context.Background(), e.s.crewName)
	}
	if err != nil {
		return "", err
	}
	var parts []string
	for _, ms := range mss {
		spec := ""
		if ms.SpecSource != nil {
			spec = ms.SpecSource.Name
		}
		bs := "{}"
		if ms.Bs != nil {
			bs = rstep.Canon(map[string]interface{}(ms.Bs))
		}
		parts = append(parts, fmt.Sprintf("%q:%s/%s/%s", ms.Mid, spec, ms.NodeName, bs))
	}
	sort.Strings(parts)
	return strings.Join(parts, ";"), nil
}

type c16SeqCase struct {
	Ops []svcOp `json:"ops"`
}

func c16Seq(c *vh.Ctx, dir string, cs c16SeqCase) {
	c.Eval()
	e, err := newSvc(dir)
	if err != nil {
		c.NotExhaustive("cannot create a service: " + err.Error())
		return
	}
	defer e.close()
	ctx := context.Background()
	for i, op := range cs.Ops {
		before := snap.Of(e.s.crew.Machines)
		memBefore := e.memory()
		var res string
		opctx := ctx
		goroutines := runtime.NumGoroutine()
		if op.Dead {
			dctx, dcancel := context.WithCancel(ctx)
			dcancel()
			opctx = dctx
		}
		p, pm, where := vh.Trap(func() { res = e.do(opctx, op) })
		if op.Dead {
			// whatever the service started for the request has time to finish before the crew is judged
			for w := 0; w < 3000 && runtime.NumGoroutine() > goroutines; w++ {
				time.Sleep(time.Millisecond)
			}
		}
		if p {
			c.Violation("C16/panic/"+op.K+"/"+where, fmt.Sprintf("ops %v: %s panicked: %s", cs.Ops[:i+1], op, pm), cs)
			return
		}
		updown := "store-up"
		if e.down {
			updown = "store-down"
		}
		failed := res == "ERR" || (op.K != "inc" && op.K != "bcast" && op.K != "poison" && op.K != "half" && op.K != "read" && res != "")
		if failed && (op.K == "add" || op.K == "rem" || op.K == "inc" || op.K == "bcast" || op.K == "poison" || op.K == "half") {
			c.Nontrivial()
			if after := snap.Of(e.s.crew.Machines); after != before {
				c.Violation("C16/failed-operation-changed-the-crew/"+op.K+"/"+updown, fmt.Sprintf("ops %v: %s failed (%s) but the in-memory crew changed from [%s] to [%s]", cs.Ops[:i+1], op, res, memBefore, e.memory()), c16SeqCase{Ops: cs.Ops[:i+1]})
				return
			}
		}
		if strings.HasPrefix(res, "STALE:") {
			c.Violation("C16/read-crew-shows-a-crew-that-is-not-the-current-one", fmt.Sprintf("ops %v: %s", cs.Ops[:i+1], res), c16SeqCase{Ops: cs.Ops[:i+1]})
			return
		}
		st, err := e.stored()
		if err != nil {
			c.NotExhaustive("cannot read the store back: " + err.Error())
			return
		}
		if mem := e.memory(); mem != st {
			c.Violation("C16/memory-differs-from-store/after-"+op.K+"/"+updown, fmt.Sprintf("ops %v: after %s (result %q) memory is [%s] but the store holds [%s]", cs.Ops[:i+1], op, res, mem, st), c16SeqCase{Ops: cs.Ops[:i+1]})
			return
		}
		c.Outcome("state", e.memory())
	}
}

// ---- concurrent part -----------------------------------------------------------

type c16Scenario struct {
	Init    []svcOp   `json:"init"`
	Threads [][]svcOp `json:"threads"`
	Down    bool      `json:"down,omitempty"` // the store is failing throughout
}

type c16Case struct {
	Scenario c16Scenario `json:"scenario"`
	Choices  []int       `json:"choices"`
	Sizes    []int       `json:"sizes"`
	Trace    []string    `json:"trace,omitempty"`
}

type c16Run struct {
	results [4][4]string
	mem     string
	store   string
}

//go:norace
func (r *c16Run) set(t, i int, s string) { r.results[t][i] = s }

func runC16(dir string, sc c16Scenario, prefix, prefixN []int, order [][2]int) (*sched.Exec, *c16Run, error) {
	e, err := newSvc(dir)
	if err != nil {
		return nil, nil, err
	}
	defer e.close()
	r := &c16Run{}
	for _, op := range sc.Init {
		e.do(context.Background(), op)
	}
	if sc.Down {
		e.do(context.Background(), svcOp{K: "down"})
	}
	var x *sched.Exec
	if order != nil {
		// sequential reference: the operations in the given merge order
		for _, ti := range order {
			r.set(ti[0], ti[1], e.do(context.Background(), sc.Threads[ti[0]][ti[1]]))
		}
	} else {
		x = sched.NewExec(prefix, prefixN)
		for t, ops := range sc.Threads {
			t, ops := t, ops
			x.Go(fmt.Sprintf("client%d", t+1), func() {
				ctx := tickctx.New(context.Background(), 0)
				ctx.OnTick = func(int64) { sched.Yield("tick") }
				defer ctx.Cancel()
				for i, op := range ops {
					r.set(t, i, e.do(ctx, op))
					sched.Yield("after-" + op.K)
				}
			})
		}
		x.Run()
		x.Finish()
	}
	r.mem = e.memory()
	r.store, err = e.stored()
	return x, r, err
}

func (r *c16Run) key(sc c16Scenario) string {
	var sb strings.Builder
	for t, ops := range sc.Threads {
		for i := range ops {
			fmt.Fprintf(&sb, "%d.%d=%s|", t, i, r.results[t][i])
		}
	}
	sb.WriteString("MEM=" + r.mem + "|STORE=" + r.store)
	return sb.String()
}

// merges enumerates all interleavings of the threads' operation sequences.
func merges(threads [][]svcOp) [][][2]int {
	var out [][][2]int
	pos := make([]int, len(threads))
	var cur [][2]int
	var rec func()
	rec = func() {
		done := true
		for t := range threads {
			if pos[t] < len(threads[t]) {
				done = false
				cur = append(cur, [2]int{t, pos[t]})
				pos[t]++
				rec()
				pos[t]--
				cur = cur[:len(cur)-1]
			}
		}
		if done {
			out = append(out, append([][2]int{}, cur...))
		}
	}
	rec()
	return out
}

func c16Scenarios(thorough bool) []c16Scenario {
	inc := func(id string) svcOp { return svcOp{K: "inc", Id: id} }
	add := func(id string) svcOp { return svcOp{K: "add", Id: id} }
	rem := func(id string) svcOp { return svcOp{K: "rem", Id: id} }
	read := svcOp{K: "read"}
	bc := svcOp{K: "bcast"}
	m1 := []svcOp{add("m1")}
	out := []c16Scenario{
		{Init: m1, Threads: [][]svcOp{{inc("m1")}, {inc("m1")}}},
		{Init: m1, Threads: [][]svcOp{{inc("m1"), inc("m1")}, {inc("m1")}}},
		{Init: m1, Threads: [][]svcOp{{add("m2")}, {rem("m2")}}},
		{Init: m1, Threads: [][]svcOp{{add("m2")}, {add("m2")}}},
		{Init: []svcOp{add("m1"), add("m2")}, Threads: [][]svcOp{{rem("m2")}, {add("m2")}}},
		{Init: m1, Threads: [][]svcOp{{rem("m1")}, {inc("m1")}}},
		{Init: m1, Threads: [][]svcOp{{bc}, {add("m2")}}},
		{Init: m1, Threads: [][]svcOp{{inc("m1")}, {read}, {add("m2")}}},
		{Init: m1, Threads: [][]svcOp{{add("m2"), rem("m2")}, {rem("m2"), add("m2")}}},
		{Init: m1, Threads: [][]svcOp{{inc("m1")}, {inc("m1")}}, Down: true},
		{Init: m1, Threads: [][]svcOp{{add("m2")}, {read}}, Down: true},
		// read-crew against requests that change several machines
		{Init: []svcOp{add("m1"), add("m2")}, Threads: [][]svcOp{{bc}, {read}}},
		{Init: []svcOp{add("m1"), add("m2")}, Threads: [][]svcOp{{read, read}, {bc, inc("m2")}}},
	}
	if thorough {
		out = append(out,
			c16Scenario{Init: m1, Threads: [][]svcOp{{inc("m1")}, {inc("m1")}, {inc("m1")}}},
			c16Scenario{Init: m1, Threads: [][]svcOp{{add("m2")}, {rem("m2")}, {bc}}},
			c16Scenario{Init: m1, Threads: [][]svcOp{{bc, bc}, {add("m2"), rem("m1")}}},
		)
	}
	return out
}

// C16: mcrew - memory advances only with a successful write; requests are serialised.
func C16(c *vh.Ctx) {
	dir := scratchDir()
	defer os.RemoveAll(dir)
	if c.Replay != "" {
		var probe struct {
			Ops []svcOp `json:"ops"`
		}
		c.LoadReplay(&probe)
		if probe.Ops != nil {
			c16Seq(c, dir, c16SeqCase{Ops: probe.Ops})
			return
		}
		var cs c16Case
		if c.LoadReplay(&cs) == nil {
			c16Conc(c, dir, cs.Scenario, 0, &cs)
		}
		return
	}
	maxLen := c.Pick(4, 5)
	alphabet := []svcOp{{K: "add", Id: "m1"}, {K: "add", Id: "m2"}, {K: "add", Id: ""}, {K: "rem", Id: "m1"}, {K: "rem", Id: "ghost"}, {K: "inc", Id: "m1"}, {K: "bcast"}, {K: "poison", Id: "m1"}, {K: "half"}, {K: "down"}, {K: "up"}, {K: "failnext"}, {K: "failcommit"}}
	c.Bound("fault_sequence_max", maxLen)
	c.Rule("(sequential fault sequences) every operation sequence up to the bound over {add m1, add m2, add \"\", remove m1, remove a machine that does not exist, process->m1, process broadcast, process a message that makes m1's bindings unserialisable, a broadcast that only some machines of the batch survive (the others end with a value that cannot be stored), store stops working, store works again, the next write transaction fails before it starts, the next write transaction fails at commit} on a real Service over a real bolt file (tmpfs); after every operation the in-memory crew must equal the stored crew (read back through a second handle while the store is down), and an operation that failed must not have changed the crew; also sequences of up to three operations in which add / remove / process requests arrive with a context that has already ended, and in which machines are added through the add operation of the service protocol for a specification with parameter defaults, and in which the crew is read through the protocol's read-crew operation between requests that reached the service directly (as timers and emitted messages do), and in which a machine is added whose specification cannot be loaded, followed by messages to the others and to all. (schedules) 2-3 client threads issuing process / add / remove / read-crew with yield points inside the machine's action and at the shimmed crew lock, store healthy or failing, every schedule within the deviation bound; the per-operation results and the final (memory, store) must equal those of some sequential order of the operations (the service itself, run sequentially, is the reference), and memory must equal the store. states = sequences + scenarios, transitions = operations + scheduler steps.")
	var idx uint64
	var rec func(cur []svcOp)
	rec = func(cur []svcOp) {
		if len(cur) == maxLen {
			idx++
			if c.Mine(idx) && !c.Expired() {
				c.R.States++
				c.R.Transitions += int64(len(cur))
				c16Seq(c, dir, c16SeqCase{Ops: append([]svcOp{}, cur...)})
				if c.WantSample() && cur[1].K == "down" {
					c.Sample(c16SeqCase{Ops: append([]svcOp{}, cur...)})
				}
			}
			return
		}
		for _, o := range alphabet {
			rec(append(cur, o))
		}
	}
	rec(nil)
	// requests whose context has already ended (a client that went away): whatever the service makes of them,
	// memory and store move together
	{
		dead := []svcOp{{K: "add", Id: "m1"}, {K: "inc", Id: "m1"}, {K: "add", Id: "m1", Dead: true}, {K: "add", Id: "m2", Dead: true}, {K: "rem", Id: "m1", Dead: true}, {K: "inc", Id: "m1", Dead: true}, {K: "bcast", Dead: true}, {K: "failnext"},
			{K: "addop", Id: "m1"}, {K: "addop", Id: "m3"}, {K: "inc", Id: "m3"}, {K: "readop"},
			// a machine whose specification cannot be loaded (nothing checks the name when it is added), and a broadcast
			{K: "addghost", Id: "g"}, {K: "bcast"}}
		var recDead func(cur []svcOp)
		recDead = func(cur []svcOp) {
			special := false
			for _, o := range cur {
				if o.Dead || o.K == "addop" || o.K == "readop" || o.K == "addghost" {
					special = true
				}
			}
			if len(cur) > 0 && special {
				idx++
				if c.Mine(idx) && !c.Expired() {
					c.R.States++
					c.R.Transitions += int64(len(cur))
					c16Seq(c, dir, c16SeqCase{Ops: append([]svcOp{}, cur...)})
					c.Count("sequences_with_ended_contexts", 1)
				}
			}
			if len(cur) == 3 {
				return
			}
			for _, o := range dead {
				recDead(append(cur, o))
			}
		}
		recDead(nil)
	}
	for i, sc := range c16Scenarios(!c.Quick()) {
		if c.Expired() {
			return
		}
		c16Conc(c, dir, sc, i, nil)
	}
}

// concProp: the property a concurrent scenario is run for (the machinery is shared by C16 and C12mcrew).
var concProp = "C16"

func c16Conc(c *vh.Ctx, dir string, sc c16Scenario, si int, replay *c16Case) {
	bound := c.Pick(2, 3)
	if os.Getenv("VERIF_RACE") == "1" {
		bound = 1
	}
	// reference: all sequential orders
	allowed := map[string]bool{}
	for _, order := range merges(sc.Threads) {
		_, r, err := runC16(dir, sc, nil, nil, order)
		if err != nil {
			c.NotExhaustive("reference run failed: " + err.Error())
			return
		}
		allowed[r.key(sc)] = true
	}
	check := func(x *sched.Exec, r *c16Run) [][2]string {
		var out [][2]string
		if x.Deadlock != "" {
			out = append(out, [2]string{"deadlock", x.Deadlock})
		}
		if r.mem != r.store && !sc.Down {
			out = append(out, [2]string{"memory-differs-from-store-at-quiescence", fmt.Sprintf("memory [%s] store [%s]", r.mem, r.store)})
		}
		if !allowed[r.key(sc)] {
			out = append(out, [2]string{"not-equivalent-to-any-sequential-order", fmt.Sprintf("outcome %s is not the outcome of any sequential order of the operations (%d orders tried)", r.key(sc), len(allowed))})
		}
		return out
	}
	if replay != nil {
		x, r, err := runC16(dir, sc, replay.Choices, replay.Sizes, nil)
		if err == nil {
			c.Eval()
			for _, v := range check(x, r) {
				c.Violation(concProp+"/"+v[0], v[1], replay)
			}
		}
		return
	}
	if c.Shard == 0 {
		c.R.States++
	}
	seen := map[string]bool{}
	st := sched.Explore(bound, 200000, func(k uint64) bool { return c.Mine(k + uint64(si)) }, c.Shard == 0,
		func(p, pn []int) *sched.Exec {
			x, r, err := runC16(dir, sc, p, pn, nil)
			if err != nil {
				x.Stuck = true
			}
			x.UserData = r
			return x
		},
		func(x *sched.Exec, devs int) {
			c.Eval()
			if devs > 0 {
				c.Nontrivial()
			}
			r := x.UserData.(*c16Run)
			c.Outcome("conc", r.key(sc))
			for _, v := range check(x, r) {
				key := concProp + "/" + v[0] + "/" + scenarioSig(sc)
				if seen[key] {
					c.R.ViolationKeys[key]++
					continue
				}
				cs, ns := sched.Choices(x.Trace)
				x2, r2, err := runC16(dir, sc, cs, ns, nil)
				again := false
				if err == nil {
					for _, v2 := range check(x2, r2) {
						if v2[0] == v[0] {
							again = true
						}
					}
				}
				if !again {
					c.Count("unreproduced", 1)
					c.NotExhaustive("a violation did not reproduce on replay; not reported")
					continue
				}
				seen[key] = true
				c.Violation(key, v[1]+" | threads "+fmt.Sprint(sc.Threads), c16Case{Scenario: sc, Choices: cs, Sizes: ns, Trace: sched.FormatTrace(x.Trace)})
			}
		})
	c.R.Traces += int64(st.Schedules)
	c.R.Transitions += int64(st.Transitions)
	c.Count("nondeterministic_subtrees", int64(st.Nondet))
	c.Count("stuck_executions", int64(st.Stuck))
	for _, n := range st.NondetNotes {
		c.Note("NONDET " + fmt.Sprint(sc.Threads) + ": " + n)
	}
	if st.Nondet > 0 || st.Stuck > 0 || st.Capped {
		c.NotExhaustive(fmt.Sprintf("exploration gaps: %d nondeterministic subtrees, %d stuck, capped=%v", st.Nondet, st.Stuck, st.Capped))
	}
}

func scenarioSig(sc c16Scenario) string {
	var parts []string
	for _, t := range sc.Threads {
		var ks []string
		for _, o := range t {
			ks = append(ks, o.K)
		}
		parts = append(parts, strings.Join(ks, "+"))
	}
	s := strings.Join(parts, "||")
	if sc.Down {
		s += "/store-down"
	}
	return s
}

var _ = core.DefaultControl
var _ crew.Machine
