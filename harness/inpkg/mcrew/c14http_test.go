package main

import (
	"context"
	"fmt"
	"net"
	"net/http"
	"net/http/httptest"
	"os"
	"path/filepath"
	"sort"
	"strings"
	"sync/atomic"
	"time"

	"github.com/Comcast/sheens/match"
	"github.com/Comcast/sheens/verifrt/vh"
)

// ---- C14http: a message addressed to the http service is a request; its answer is a message submitted to the crew -
// to the machine the request names, to every machine otherwise - exactly once, whatever the server does (answers at
// once, answers late, fails, drops the connection, cannot be reached) and whatever the request asks for. ----

type h14Case struct {
	Server  string `json:"server"`   // fast | slow | status500 | drop | unreachable
	ReplyTo string `json:"reply_to"` // "" | a | zz
	Timeout int    `json:"timeout"`  // the request's "timeout" member (ms); 0 - absent
	Method  string `json:"method,omitempty"`
	Twice   bool   `json:"twice,omitempty"` // two requests in a row
}

const h14Slow = 300 * time.Millisecond

func h14Run(dir string, cs h14Case) [][2]string {
	e, err := newSvc(dir)
	if err != nil {
		return [][2]string{{"<harness>", err.Error()}}
	}
	defer e.close()
	e.s.Emitted = make(chan interface{}, 1024)
	e.s.wsClientC = make(chan interface{}, 64)
	e.s.Errors = make(chan interface{}, 1024)
	bg := context.Background()
	for _, id := range []string{"a", "b"} {
		if err := e.s.AddMachine(bg, "recorder", id, "start", match.Bindings{"mode": "none"}); err != nil {
			return [][2]string{{"<harness>", "add: " + err.Error()}}
		}
	}
	var served int32
	ts := httptest.NewServer(http.HandlerFunc(func(w http.ResponseWriter, r *http.Request) {
		atomic.AddInt32(&served, 1)
		switch cs.Server {
		case "slow":
			select {
			case <-r.Context().Done():
			case <-time.After(h14Slow):
			}
			fmt.Fprint(w, "late hello")
		case "status500":
			http.Error(w, "no", 500)
		case "drop":
			if hj, ok := w.(http.Hijacker); ok {
				if conn, _, err := hj.Hijack(); err == nil {
					conn.Close()
				}
			}
		default:
			fmt.Fprint(w, "hello")
		}
	}))
	defer ts.Close()
	url := ts.URL
	if cs.Server == "unreachable" {
		// a port nobody listens on
		l, err := net.Listen("tcp", "127.0.0.1:0")
		if err != nil {
			return [][2]string{{"<harness>", err.Error()}}
		}
		url = "http://" + l.Addr().String()
		l.Close()
	}
	req := map[string]interface{}{"url": url}
	if cs.ReplyTo != "" {
		req["replyTo"] = cs.ReplyTo
	}
	if cs.Timeout > 0 {
		req["timeout"] = float64(cs.Timeout)
	}
	if cs.Method != "" {
		req["method"] = cs.Method
		req["body"] = "x"
	}
	n := 1
	if cs.Twice {
		n = 2
	}
	var panics []string
	for i := 0; i < n; i++ {
		if p, pm, where := vh.Trap(func() { e.s.Process(bg, map[string]interface{}{"to": "http", "request": req}, nil) }); p {
			panics = append(panics, pm+" @"+where)
		}
	}
	if len(panics) > 0 {
		return [][2]string{{"panic", strings.Join(panics, "; ")}}
	}
	want := map[string]int{"a": n, "b": n}
	switch cs.ReplyTo {
	case "a":
		want["b"] = 0
	case "zz":
		want["a"], want["b"] = 0, 0
	}
	count := func() map[string]int {
		got := map[string]int{}
		e.s.crew.RLock()
		defer e.s.crew.RUnlock()
		for _, id := range []string{"a", "b"} {
			if mm := e.s.crew.Machines[id]; mm != nil && mm.State != nil {
				if l, ok := mm.State.Bs["log"].([]interface{}); ok {
					got[id] = len(l)
				}
			}
		}
		return got
	}
	// the answers are processed by the time Process returns or shortly after; wait for them (a generous horizon
	// that only bounds a service that never answers), then leave any second answer time to show up
	deadline := time.Now().Add(20 * time.Second)
	for time.Now().Before(deadline) {
		got := count()
		if got["a"] >= want["a"] && got["b"] >= want["b"] {
			break
		}
		time.Sleep(5 * time.Millisecond)
	}
	time.Sleep(h14Slow + 200*time.Millisecond)
	got := count()
	var out [][2]string
	var ids []string
	for id := range want {
		ids = append(ids, id)
	}
	sort.Strings(ids)
	for _, id := range ids {
		switch {
		case got[id] > want[id]:
			out = append(out, [2]string{"answer-presented-more-than-once", fmt.Sprintf("%+v: %d request(s) to the http service; machine %q was presented with %d answers, expected %d", cs, n, id, got[id], want[id])})
		case got[id] < want[id]:
			out = append(out, [2]string{"answer-not-presented", fmt.Sprintf("%+v: %d request(s) to the http service; machine %q was presented with %d answers within 20 s, expected %d", cs, n, id, got[id], want[id])})
		}
	}
	return out
}

func C14http(c *vh.Ctx) {
	dir := scratchDir()
	defer os.RemoveAll(dir)
	os.WriteFile(filepath.Join(dir, "specs", "recorder.yaml"), []byte(mcrewRecorder), 0o644)
	one := func(cs h14Case) {
		c.Eval()
		c.R.States++
		vs := h14Run(dir, cs)
		if len(vs) == 0 {
			c.Nontrivial()
		}
		for _, v := range vs {
			if v[0] == "<harness>" {
				c.NotExhaustive("C14http: " + v[1])
				continue
			}
			c.Violation("C14/mcrew-http/"+v[0]+"/server-"+cs.Server, v[1], cs)
		}
	}
	if c.Replay != "" {
		var cs h14Case
		if c.LoadReplay(&cs) == nil {
			one(cs)
		}
		return
	}
	c.Rule("(mcrew http service) a message addressed to \"http\" carries a request; every combination of a local server that answers at once / after 300 ms / with status 500 / by dropping the connection / is not listening, a reply target (none, machine a, an unknown machine), the request's timeout member (absent, 50 ms, 5 s), GET and POST, one request and two in a row: the answer is presented to the named machine, or to every machine, exactly once per request (counted in the recorders' receive logs after the answers have arrived plus a settling time longer than the slowest server).")
	var idx uint64
	for _, srv := range []string{"fast", "slow", "status500", "drop", "unreachable"} {
		for _, rt := range []string{"", "a", "zz"} {
			for _, to := range []int{0, 50, 5000} {
				for _, m := range []string{"", "POST"} {
					for _, twice := range []bool{false, true} {
						if (m != "" || twice) && (to == 5000 || rt == "zz") {
							continue
						}
						idx++
						if c.Mine(idx) && !c.Expired() {
							one(h14Case{Server: srv, ReplyTo: rt, Timeout: to, Method: m, Twice: twice})
						}
					}
				}
			}
		}
	}
}
