package main

import (
	"context"
	"fmt"
	"os"
	"sort"
	"strings"
	"time"

	"github.com/Comcast/sheens/verifrt/ref/rtimers"
	"github.com/Comcast/sheens/verifrt/sched"
	"github.com/Comcast/sheens/verifrt/vbolt"
	"github.com/Comcast/sheens/verifrt/vh"
)

// The timers as a spec author reaches them in mcrew: a message addressed to "timers" goes through
// Service.Process -> Route -> toTimers (timers_glue.go) -> Timers.Add/Rem, and a firing comes back through the
// service's own emitter (Service.Process again) to the machine the timer's message is addressed to.

const recTimerSpec = `name: rectimer
nodes:
  start:
    branching:
      type: message
      branches:
      - pattern:
          token: "?t"
        target: rec
  rec:
    action:
      interpreter: ecmascript
      source: |-
        var log = _.bindings.log || [];
        log.push(_.bindings["?t"]);
        _.out({answer: _.bindings["?t"]});
        return {log: log};
    branching:
      branches:
      - target: start
`

// gOp: one request as a message to "timers".
type gOp struct {
	K   string `json:"k"`             // make | makeat | cancel | pending | bad | storefail (the next D write transactions fail)
	Id  string `json:"id,omitempty"`  //
	D   int64  `json:"d,omitempty"`   // delay in ms (make) / offset in s from the epoch (makeat)
	Bad string `json:"bad,omitempty"` // which malformed request
}

func (o gOp) String() string {
	switch o.K {
	case "make":
		return fmt.Sprintf("make(%s,%dms)", o.Id, o.D)
	case "makeat":
		return fmt.Sprintf("make-at(%s,+%ds)", o.Id, o.D)
	case "cancel":
		return "cancel(" + o.Id + ")"
	case "bad":
		return "bad(" + o.Bad + ")"
	}
	return o.K
}

type gScenario struct {
	Req []gOp `json:"req"`
}

type c17gCase struct {
	Scenario gScenario `json:"scenario"`
	Choices  []int     `json:"choices"`
	Sizes    []int     `json:"sizes"`
	Trace    []string  `json:"trace,omitempty"`
	Log      []string  `json:"log,omitempty"`
}

type glueRun struct {
	timersRun
	machineLog []int
	answers    map[int]int // token -> how many times the machine answered it (its emissions reach the host even when its state cannot be stored)
	storeFails bool
	extra      []string
}

func runGlueScenario(dir string, sc gScenario, prefix, prefixN []int) (*sched.Exec, *glueRun, error) {
	os.WriteFile(dir+"/specs/rectimer.yaml", []byte(recTimerSpec), 0o644)
	e, err := newSvc(dir)
	if err != nil {
		return nil, nil, err
	}
	defer e.close()
	s := e.s
	ctx, cancel := context.WithCancel(context.Background())
	defer cancel()
	if err := s.AddMachine(ctx, "rectimer", "rec", "start", nil); err != nil {
		return nil, nil, err
	}
	errs := make(chan interface{}, 64)
	s.Emitted = make(chan interface{}, 4096)
	s.Errors = errs
	s.timers.Errors = errs
	x := sched.NewExec(prefix, prefixN)
	r := &glueRun{}
	r.x = x
	// the real emitter (Service.Process), bracketed so that the monitor knows when a firing is being handled
	orig := s.timers.emit
	s.timers.emit = func(ctx context.Context, message interface{}) error {
		tok := 0
		if m, ok := message.(map[string]interface{}); ok {
			switch t := m["token"].(type) {
			case int:
				tok = t
			case float64:
				tok = int(t)
			}
		}
		r.rec(ev{Kind: "fire-begin", Token: tok})
		err := orig(ctx, message)
		if err != nil {
			r.extra = append(r.extra, "emitter error: "+err.Error())
		}
		r.rec(ev{Kind: "fire-end", Token: tok})
		return err
	}
	drain := func() string {
		var es []string
		for {
			select {
			case x := <-errs:
				es = append(es, fmt.Sprint(x))
			default:
				return strings.Join(es, "; ")
			}
		}
	}
	epoch := sched.Epoch.UTC() // the virtual clock's zero: the service sees vtime.Now() = Epoch + virtual ns
	send := func(req map[string]interface{}) string {
		msg := map[string]interface{}{"to": "timers"}
		for k, v := range req {
			msg[k] = v
		}
		if _, err := s.Process(ctx, msg, nil); err != nil {
			return "process: " + err.Error()
		}
		return drain()
	}
	do := func(op gOp) {
		switch op.K {
		case "make", "makeat":
			tok := r.nextToken()
			mk := map[string]interface{}{"id": op.Id, "message": map[string]interface{}{"to": "rec", "token": float64(tok)}}
			var due int64
			if op.K == "make" {
				mk["in"] = fmt.Sprintf("%dms", op.D)
				due = sched.NowNS() + op.D*int64(time.Millisecond)
			} else {
				at := epoch.Add(time.Duration(op.D) * time.Second)
				mk["at"] = at.Format(time.RFC3339)
				due = int64(at.Sub(sched.Epoch))
			}
			// the request's result is observed some scheduling points after the service has decided it: the monitor
			// is told when the request is handed over (a timer may go off in between)
			r.rec(ev{Kind: "add-begin", Id: op.Id, Token: tok, Due: due})
			e := send(map[string]interface{}{"makeTimer": mk})
			r.rec(ev{Kind: "add", Id: op.Id, Token: tok, Err: e, Due: due})
		case "cancel":
			e := send(map[string]interface{}{"deleteTimer": op.Id})
			r.rec(ev{Kind: "cancel", Id: op.Id, Err: e})
		case "bad":
			// malformed requests must be refused and must not disturb the timers that exist
			var req map[string]interface{}
			switch op.Bad {
			case "no-message":
				req = map[string]interface{}{"makeTimer": map[string]interface{}{"id": "1", "in": "10ms"}}
			case "bad-duration":
				req = map[string]interface{}{"makeTimer": map[string]interface{}{"id": "1", "in": "soon", "message": map[string]interface{}{"to": "rec", "token": -1.0}}}
			case "non-string-id":
				req = map[string]interface{}{"makeTimer": map[string]interface{}{"id": 1.0, "in": "10ms", "message": map[string]interface{}{"to": "rec", "token": -1.0}}}
			case "no-when":
				req = map[string]interface{}{"makeTimer": map[string]interface{}{"id": "1", "message": map[string]interface{}{"to": "rec", "token": -1.0}}}
			case "delete-non-string":
				req = map[string]interface{}{"deleteTimer": 1.0}
			default:
				req = map[string]interface{}{"neither": true}
			}
			if e := send(req); e == "" {
				r.extra = append(r.extra, "malformed request "+op.Bad+" was not refused")
			}
		case "storefail":
			vbolt.FailUpdates = int(op.D)
			r.storeFails = true
		case "pending":
			s.timers.Lock()
			var ids []string
			for id := range s.timers.timers {
				ids = append(ids, id)
			}
			s.timers.Unlock()
			sort.Strings(ids)
			r.rec(ev{Kind: "pending", IDs: ids})
		}
	}
	x.Go("requester", func() {
		for _, op := range sc.Req {
			do(op)
			sched.Yield("after-" + op.K)
		}
	})
	x.Run()
	x.Finish()
	s.crew.Lock()
	defer s.crew.Unlock()
	if m := s.crew.Machines["rec"]; m != nil && m.State != nil {
		if l, ok := m.State.Bs["log"].([]interface{}); ok {
			for _, t := range l {
				var n int
				if _, err := fmt.Sscan(fmt.Sprint(t), &n); err == nil { // a script's integers arrive as int64, a reloaded state's as float64
					r.machineLog = append(r.machineLog, n)
				}
			}
		}
	}
	r.answers = map[int]int{}
	for more := true; more; {
		select {
		case v := <-s.Emitted:
			if m, ok := v.(map[string]interface{}); ok {
				var n int
				if _, err := fmt.Sscan(fmt.Sprint(m["answer"]), &n); err == nil {
					r.answers[n]++
				}
			}
		default:
			more = false
		}
	}
	if e := drain(); e != "" && !r.storeFails {
		r.extra = append(r.extra, "errors reported outside any request: "+e)
	}
	return x, r, nil
}

// glueJudge: the timer monitor on the events, plus: what the machine received is exactly what fired.
func glueJudge(x *sched.Exec, r *glueRun) [][2]string {
	out := rtimers.Monitor(r.evs, !x.HorizonHit && x.Deadlock == "")
	fired := map[int]int{}
	for _, e := range r.evs {
		if e.Kind == "fire-end" {
			fired[e.Token]++
		}
	}
	got := map[int]int{}
	for _, t := range r.machineLog {
		got[t]++
	}
	for t, n := range r.answers {
		if n > fired[t] {
			out = append(out, [2]string{"timer-message-processed-more-than-once", fmt.Sprintf("token %d fired %d time(s) but the addressed machine answered it %d time(s)", t, fired[t], n)})
		}
	}
	if r.storeFails {
		// a firing whose state cannot be stored leaves the machine as it was: the machine's log says nothing then
		for _, e := range r.extra {
			if !strings.HasPrefix(e, "emitter error") {
				out = append(out, [2]string{"glue/" + strings.SplitN(e, ":", 2)[0], e})
			}
		}
		return out
	}
	for t, n := range fired {
		if got[t] != n {
			out = append(out, [2]string{"firing-did-not-reach-the-machine", fmt.Sprintf("token %d fired %d time(s) but the addressed machine received it %d time(s) (log %v)", t, n, got[t], r.machineLog)})
		}
	}
	for t, n := range got {
		if fired[t] == 0 {
			out = append(out, [2]string{"machine-received-a-message-no-timer-fired", fmt.Sprintf("token %d x%d (log %v)", t, n, r.machineLog)})
		}
	}
	for _, e := range r.extra {
		out = append(out, [2]string{"glue/" + strings.SplitN(e, ":", 2)[0], e})
	}
	return out
}

func glueScenarios(thorough bool) []gScenario {
	base := []gOp{{K: "make", Id: "1", D: 10}, {K: "make", Id: "1", D: 3600000}, {K: "makeat", Id: "2", D: 2}, {K: "cancel", Id: "1"}, {K: "cancel", Id: "2"}, {K: "pending"}}
	var out []gScenario
	for _, a := range base {
		if a.K != "make" && a.K != "makeat" {
			continue
		}
		out = append(out, gScenario{Req: []gOp{a}})
		for _, b := range base {
			out = append(out, gScenario{Req: []gOp{a, b}})
			if thorough {
				for _, c := range base {
					out = append(out, gScenario{Req: []gOp{a, b, c}})
				}
			}
		}
		// the store fails when the timer goes off: the machine's new state cannot be stored - and the firing is still one firing
		for _, n := range []int64{1, 2, 5} {
			out = append(out, gScenario{Req: []gOp{a, {K: "storefail", D: n}}}, gScenario{Req: []gOp{a, {K: "storefail", D: n}, {K: "pending"}}})
		}
		for _, bad := range []string{"no-message", "bad-duration", "non-string-id", "no-when", "delete-non-string", "neither"} {
			out = append(out, gScenario{Req: []gOp{a, {K: "bad", Bad: bad}, {K: "pending"}}})
		}
	}
	return out
}

// C17glue explores the mcrew timers through the service.
func C17glue(c *vh.Ctx) {
	dir := scratchDir()
	defer os.RemoveAll(dir)
	bound := c.Pick(1, 2)
	if c.Replay != "" {
		var cs c17gCase
		if c.LoadReplay(&cs) != nil {
			return
		}
		x, r, err := runGlueScenario(dir, cs.Scenario, cs.Choices, cs.Sizes)
		if err != nil {
			c.NotExhaustive("replay: " + err.Error())
			return
		}
		c.Eval()
		for _, v := range glueJudge(x, r) {
			c.Violation("C17/mcrew-glue/"+v[0], v[1], cs)
		}
		return
	}
	if os.Getenv("VERIF_RACE") == "1" {
		bound = 1
	}
	scs := glueScenarios(!c.Quick())
	c.Bound("glue_deviations_max", bound)
	c.Rule("mcrew timers through the service: requests are messages addressed to \"timers\" handed to Service.Process (makeTimer with a delay, makeTimer with an absolute RFC3339 time, deleteTimer, malformed requests of six kinds), a firing comes back through the service's own emitter (Service.Process) to the machine the timer's message names; request sequences of up to the bound starting with a make; every schedule of requester, timer goroutines and fire events with at most k deviations, virtual time; oracle: the timer monitor (at most once, never early, never after a successful cancel, exactly once at the end of time, pending set), every firing reaches the addressed machine exactly once (also when the store fails at that moment: the machine answers a firing at most once), malformed requests are refused and leave the existing timers alone.")
	for i, sc := range scs {
		if !c.Mine(uint64(i)) {
			continue
		}
		if c.Expired() {
			return
		}
		c.R.States++
		seen := map[string]bool{}
		st := sched.Explore(bound, 50000, func(uint64) bool { return true }, true,
			func(p, pn []int) *sched.Exec {
				x, r, err := runGlueScenario(dir, sc, p, pn)
				if err != nil {
					x = sched.NewExec(p, pn)
					x.Run()
					x.Finish()
					r = &glueRun{}
					r.extra = append(r.extra, "harness: "+err.Error())
				}
				x.UserData = r
				return x
			},
			func(x *sched.Exec, devs int) {
				c.Eval()
				r := x.UserData.(*glueRun)
				if len(r.machineLog) > 0 {
					c.Nontrivial()
				}
				var sb strings.Builder
				for _, e := range r.evs {
					fmt.Fprintf(&sb, "%s:%s:%d:%s:%v;", e.Kind, e.Id, e.Token, e.Err, e.IDs)
				}
				c.Outcome("glue-log", sb.String())
				if x.Deadlock != "" {
					key := "C17/mcrew-glue/deadlock"
					if !seen[key] {
						seen[key] = true
						cs, ns := sched.Choices(x.Trace)
						c.Violation(key, "deadlock: "+x.Deadlock, c17gCase{Scenario: sc, Choices: cs, Sizes: ns, Trace: sched.FormatTrace(x.Trace)})
					}
					return
				}
				for _, v := range glueJudge(x, r) {
					key := "C17/mcrew-glue/" + v[0]
					if seen[key] {
						c.R.ViolationKeys[key]++
						continue
					}
					cs, ns := sched.Choices(x.Trace)
					x2, r2, err := runGlueScenario(dir, sc, cs, ns)
					again := false
					if err == nil && x2.Nondet == "" {
						for _, v2 := range glueJudge(x2, r2) {
							if v2[0] == v[0] {
								again = true
							}
						}
					}
					if !again {
						c.Count("unreproduced", 1)
						c.NotExhaustive("a violation did not reproduce on replay; not reported")
						continue
					}
					seen[key] = true
					var log []string
					for _, e := range r.evs {
						log = append(log, fmt.Sprintf("%+v", e))
					}
					c.Violation(key, v[1]+" | scenario "+fmt.Sprint(sc.Req), c17gCase{Scenario: sc, Choices: cs, Sizes: ns, Trace: sched.FormatTrace(x.Trace), Log: log})
				}
			})
		c.R.Traces += int64(st.Schedules)
		c.R.Transitions += int64(st.Transitions)
		c.Count("nondeterministic_subtrees", int64(st.Nondet))
		c.Count("stuck_executions", int64(st.Stuck))
		c.Count("horizons", int64(st.Horizons))
		for _, n := range st.NondetNotes {
			c.Note("NONDET glue " + fmt.Sprint(sc.Req) + ": " + n)
		}
		if st.Nondet > 0 || st.Stuck > 0 || st.Capped {
			c.NotExhaustive(fmt.Sprintf("exploration gaps (glue): %d nondeterministic subtrees, %d stuck executions, capped=%v", st.Nondet, st.Stuck, st.Capped))
		}
	}
}
