package main

import (
	"testing"

	"github.com/Comcast/sheens/verifrt/vh"
)

func TestMain(m *testing.M) {
	vh.Main(map[string]vh.CheckFunc{
		"C17mcrew": C17mcrew,
		"C16":      C16,
		"C14mcrew": C14mcrew,
		"C13mcrew": C13mcrew,
		"C17glue":  C17glue,
		"C09mcrew": C09mcrew,
		"C08mcrew": C08mcrew,
		"C12mcrew": C12mcrew,
		"C07mcrew": C07mcrew,
		"C14http":  C14http,
		"C11mcrew": C11mcrew,
		"C17http":  C17http,
	})
}
