package main

import (
	"context"
	"fmt"
	"sync"
	"time"

	"github.com/Comcast/sheens/verifrt/vh"
)

// ---- C17mcrew, sessions that end: a timer is made with the context of the request that asked for it (in mcrew a
// websocket session's); that context can end while the timer is pending.  What the implementation then does with the
// timer is its choice - retire it (it never fires, its id is free) or keep it (it is pending and fires when due) -
// but it has to be one of the two: an entry that stays pending and never fires is neither.  Runs on the real clock
// (outside the controlled scheduler: the wake-up comes from the context); the horizons only bound a failure. ----

type hangCase struct {
	Family string `json:"hangup_family"`
	D      int    `json:"d_ms"`  // the timer's delay
	After  string `json:"after"` // nothing | reuse-id | cancel-by-another-session
	Others int    `json:"others"`
}

func hangRun(cs hangCase) (vs [][2]string) {
	var mu sync.Mutex
	fired := map[int]int{}
	emitter := func(ctx context.Context, message interface{}) error {
		if m, ok := message.(map[string]interface{}); ok {
			if t, ok := m["token"].(int); ok {
				mu.Lock()
				fired[t]++
				mu.Unlock()
			}
		}
		return nil
	}
	ts := NewTimers(emitter)
	ts.Errors = make(chan interface{}, 64)
	has := func(id string) bool {
		ts.Lock()
		defer ts.Unlock()
		_, have := ts.timers[id]
		return have
	}
	nfired := func(tok int) int { mu.Lock(); defer mu.Unlock(); return fired[tok] }
	ctx1, cancel1 := context.WithCancel(context.Background())
	ctx2, cancel2 := context.WithCancel(context.Background())
	defer cancel2()
	defer cancel1()
	d := time.Duration(cs.D) * time.Millisecond
	made := time.Now()
	if err := ts.Add(ctx1, "a", map[string]interface{}{"token": 1}, d); err != nil {
		return [][2]string{{"<harness>", "make failed: " + err.Error()}}
	}
	for i := 0; i < cs.Others; i++ {
		// timers of a session that goes on
		if err := ts.Add(ctx2, fmt.Sprintf("o%d", i), map[string]interface{}{"token": 100 + i}, time.Hour); err != nil {
			return [][2]string{{"<harness>", "make failed: " + err.Error()}}
		}
	}
	cancel1() // the session ends
	// until the entry is gone, or 10 s
	horizon := time.Now().Add(10 * time.Second)
	for has("a") && time.Now().Before(horizon) {
		time.Sleep(2 * time.Millisecond)
	}
	goneAt := time.Since(made)
	if has("a") {
		// kept: it is pending and by now long overdue - then it has fired (and would not be pending any more)
		vs = append(vs, [2]string{"timer-of-an-ended-session-stays-pending-and-never-fires", fmt.Sprintf("%+v: 10 s after the context of the request that made timer a (due after %d ms) ended, a is still listed as pending and has fired %d time(s): neither retired nor kept", cs, cs.D, nfired(1))})
		return
	}
	switch cs.After {
	case "reuse-id":
		if err := ts.Add(ctx2, "a", map[string]interface{}{"token": 2}, 20*time.Millisecond); err != nil {
			vs = append(vs, [2]string{"id-of-a-gone-timer-not-reusable", fmt.Sprintf("%+v: timer a is no longer pending, but make(a) by another session fails: %v", cs, err)})
		} else {
			h := time.Now().Add(10 * time.Second)
			for nfired(2) == 0 && time.Now().Before(h) {
				time.Sleep(2 * time.Millisecond)
			}
			time.Sleep(50 * time.Millisecond)
			if n := nfired(2); n != 1 {
				vs = append(vs, [2]string{"reused-id-fired-other-than-once", fmt.Sprintf("%+v: the timer made under the reused id a fired %d times", cs, n)})
			}
		}
	case "cancel-by-another-session":
		if err := ts.Rem(ctx2, "a"); err == nil {
			vs = append(vs, [2]string{"cancel-succeeded-for-non-pending-id", fmt.Sprintf("%+v: cancel(a) succeeded although a is not pending", cs)})
		}
	}
	// past the due time: a timer that was gone before it was due never fires; one that was kept fired once
	if rest := d + 200*time.Millisecond - time.Since(made); rest > 0 {
		time.Sleep(rest)
	}
	n := nfired(1)
	if n > 1 || (n == 1 && goneAt < d) {
		vs = append(vs, [2]string{"retired-timer-fired", fmt.Sprintf("%+v: timer a was gone from the pending set %v after it was made (due after %d ms), and fired %d time(s)", cs, goneAt, cs.D, n)})
	}
	for i := 0; i < cs.Others; i++ {
		id := fmt.Sprintf("o%d", i)
		if !has(id) {
			vs = append(vs, [2]string{"timer-of-a-live-session-lost", fmt.Sprintf("%+v: timer %s of the session that goes on is no longer pending", cs, id)})
		}
		ts.Rem(ctx2, id)
	}
	return
}

func c17Hangup(c *vh.Ctx) {
	one := func(cs hangCase) {
		c.Eval()
		c.R.States++
		vs := hangRun(cs)
		if len(vs) == 0 {
			c.Nontrivial()
		}
		for _, v := range vs {
			if v[0] == "<harness>" {
				c.NotExhaustive("C17 hangup: " + v[1])
				continue
			}
			c.Violation("C17/mcrew/session-ends/"+v[0], v[1], cs)
		}
	}
	if c.Replay != "" {
		var cs hangCase
		if c.LoadReplay(&cs) == nil && cs.Family != "" {
			one(cs)
		}
		return
	}
	idx := uint64(1 << 20)
	for _, d := range []int{300, 1000} {
		for _, after := range []string{"nothing", "reuse-id", "cancel-by-another-session"} {
			for _, others := range []int{0, 2} {
				idx++
				if c.Mine(idx) && !c.Expired() {
					one(hangCase{Family: "hangup", D: d, After: after, Others: others})
				}
			}
		}
	}
}
