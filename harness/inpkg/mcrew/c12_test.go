package main

import (
	"os"

	"github.com/Comcast/sheens/verifrt/vh"
)

// C12mcrew: the mcrew host hands specifications out to everything that processes a machine - Service.Process
// for every machine and message, and the getSpec / add requests on their own, outside the crew lock.  Whatever
// GetSpec does to avoid work (today: nothing; every call reads, decodes and compiles the file), each caller
// must get a compiled specification and the result it would get alone, and no two callers may race on one.
// Client threads issue process and get-spec requests against a service that has not served that
// specification yet; every schedule within the deviation bound; oracle as for the C16 schedules (per-operation
// results equal to some sequential order) plus ThreadSanitizer.
func C12mcrew(c *vh.Ctx) {
	concProp = "C12"
	defer func() { concProp = "C16" }()
	dir := scratchDir()
	defer os.RemoveAll(dir)
	if c.Replay != "" {
		var cs c16Case
		if c.LoadReplay(&cs) == nil {
			c16Conc(c, dir, cs.Scenario, 0, &cs)
		}
		return
	}
	c.Rule("(mcrew host) 2-3 client threads issuing process, add and get-spec requests (the latter walk the specification they were given) against a Service that has not handed that specification out before; yield points inside the machine's action, at the shimmed locks and at goroutine starts; every schedule within the deviation bound; each request's result must be that of some sequential order, which includes: every caller got a compiled specification; race pass: ThreadSanitizer silent.")
	inc := func(id string) svcOp { return svcOp{K: "inc", Id: id} }
	add := func(id string) svcOp { return svcOp{K: "add", Id: id} }
	gs := svcOp{K: "getspec"}
	m1 := []svcOp{add("m1")}
	scs := []c16Scenario{
		{Init: m1, Threads: [][]svcOp{{gs}, {gs}}},
		{Init: m1, Threads: [][]svcOp{{inc("m1")}, {gs}}},
		{Init: m1, Threads: [][]svcOp{{gs, inc("m1")}, {gs}}},
		{Init: m1, Threads: [][]svcOp{{inc("m1")}, {add("m2"), gs}}},
		{Init: m1, Threads: [][]svcOp{{gs}, {gs}, {inc("m1")}}},
		{Init: nil, Threads: [][]svcOp{{add("m1"), inc("m1")}, {gs, gs}}},
	}
	for i, sc := range scs {
		if c.Expired() {
			return
		}
		c16Conc(c, dir, sc, i, nil)
	}
}
