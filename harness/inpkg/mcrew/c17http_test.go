package main

import (
	"context"
	"fmt"
	"net/http"
	"net/http/httptest"
	"os"
	"path/filepath"
	"time"

	"github.com/Comcast/sheens/match"
	"github.com/Comcast/sheens/verifrt/vh"
)

// ---- C17http: a timer made by a machine while it handles the answer to an HTTP request is a timer like any other:
// accepted, pending, fired once - whatever the request looked like.  (Real clock, real loopback HTTP: the timer is
// due after 300 ms and is given five seconds.) ----

const c17Poller = `name: poller
nodes:
  start:
    branching:
      type: message
      branches:
      - pattern: {"from":"http"}
        target: arm
      - pattern: {"fired":"?f"}
        target: note
      - pattern: {"arm":"?a"}
        target: arm
  arm:
    action:
      interpreter: ecmascript
      source: |-
        _.out({to: "timers", makeTimer: {id: "t-" + _.props.mid, in: "300ms", message: {to: _.props.mid, fired: true}}});
        return {armed: (_.bindings.armed || 0) + 1, fired: _.bindings.fired || 0};
    branching:
      branches:
      - target: start
  note:
    action:
      interpreter: ecmascript
      source: |-
        return {armed: _.bindings.armed || 0, fired: (_.bindings.fired || 0) + 1};
    branching:
      branches:
      - target: start
`

type t17hCase struct {
	Via     string `json:"via"`     // direct (the machine is told to arm) | http (it arms on the answer to a request)
	Timeout int    `json:"timeout"` // the request's timeout member, ms (0: absent)
	Server  string `json:"server"`  // fast | status500
}

func t17hRun(dir string, cs t17hCase) [][2]string {
	e, err := newSvc(dir)
	if err != nil {
		return [][2]string{{"<harness>", err.Error()}}
	}
	defer e.close()
	e.s.Emitted = make(chan interface{}, 1024)
	e.s.Errors = make(chan interface{}, 1024)
	bg := context.Background()
	if err := e.s.AddMachine(bg, "poller", "p", "start", match.Bindings{}); err != nil {
		return [][2]string{{"<harness>", "add: " + err.Error()}}
	}
	ts := httptest.NewServer(http.HandlerFunc(func(w http.ResponseWriter, r *http.Request) {
		if cs.Server == "status500" {
			http.Error(w, "no", 500)
			return
		}
		fmt.Fprint(w, "hello")
	}))
	defer ts.Close()
	var msg map[string]interface{}
	if cs.Via == "direct" {
		msg = map[string]interface{}{"to": "p", "arm": 1.0}
	} else {
		req := map[string]interface{}{"url": ts.URL, "replyTo": "p"}
		if cs.Timeout > 0 {
			req["timeout"] = float64(cs.Timeout)
		}
		msg = map[string]interface{}{"to": "http", "request": req}
	}
	if p, pm, where := vh.Trap(func() { e.s.Process(bg, msg, nil) }); p {
		return [][2]string{{"panic/" + where, pm}}
	}
	state := func() (armed, fired float64) {
		e.s.crew.RLock()
		defer e.s.crew.RUnlock()
		if mm := e.s.crew.Machines["p"]; mm != nil && mm.State != nil {
			// a script's integers are int64 in memory, float64 once reloaded
			fmt.Sscan(fmt.Sprint(mm.State.Bs["armed"]), &armed)
			fmt.Sscan(fmt.Sprint(mm.State.Bs["fired"]), &fired)
		}
		return
	}
	deadline := time.Now().Add(5 * time.Second)
	for time.Now().Before(deadline) {
		if a, f := state(); a >= 1 && f >= 1 {
			break
		}
		time.Sleep(10 * time.Millisecond)
	}
	time.Sleep(400 * time.Millisecond) // a second firing would show up now
	armed, fired := state()
	switch {
	case armed != 1:
		return [][2]string{{"machine-did-not-arm-once", fmt.Sprintf("%+v: the machine made its timer %v times", cs, armed)}}
	case fired == 0:
		return [][2]string{{"accepted-timer-never-fired", fmt.Sprintf("%+v: the machine made a 300 ms timer (accepted: no error was reported) and its message has not arrived five seconds later", cs)}}
	case fired > 1:
		return [][2]string{{"fired-twice", fmt.Sprintf("%+v: the timer's message arrived %v times", cs, fired)}}
	}
	return nil
}

func C17http(c *vh.Ctx) {
	dir := scratchDir()
	defer os.RemoveAll(dir)
	os.WriteFile(filepath.Join(dir, "specs", "poller.yaml"), []byte(c17Poller), 0o644)
	one := func(cs t17hCase) {
		c.Eval()
		c.R.States++
		vs := t17hRun(dir, cs)
		if len(vs) == 0 {
			c.Nontrivial()
		}
		for _, v := range vs {
			if v[0] == "<harness>" {
				c.NotExhaustive("C17http: " + v[1])
				continue
			}
			c.Violation("C17/mcrew-http/"+v[0]+"/via-"+cs.Via, v[1], cs)
		}
	}
	if c.Replay != "" {
		var cs t17hCase
		if c.LoadReplay(&cs) == nil && cs.Via != "" {
			one(cs)
		}
		return
	}
	c.Rule("(mcrew, real clock) a machine makes a 300 ms timer when told to, and when it handles the answer to an HTTP request it had the service make (a local server that answers at once / with status 500; the request's timeout member absent, 50 ms, 60 s): the timer's message arrives exactly once within five seconds.")
	var idx uint64
	for _, cs := range []t17hCase{{Via: "direct"}, {Via: "http", Server: "fast"}, {Via: "http", Server: "fast", Timeout: 60000}, {Via: "http", Server: "fast", Timeout: 50}, {Via: "http", Server: "status500"}, {Via: "http", Server: "status500", Timeout: 60000}} {
		idx++
		if c.Mine(idx) && !c.Expired() {
			one(cs)
		}
	}
}
