package main

import (
	"context"
	"fmt"
	"os"
	"path/filepath"
	"strings"
	"sync/atomic"

	"github.com/Comcast/sheens/match"
	"github.com/Comcast/sheens/verifrt/sched"
	"github.com/Comcast/sheens/verifrt/vh"
)

// ---- C11mcrew: a request's context ends while the service is still working for it - on the message itself, or on a
// message a machine emitted while handling it (which the service processes on a goroutine of its own).  Whichever
// script is running for the request stops; the failure is the timeout error, routed like any action error. ----

const c11Relay = `name: relay
nodes:
  start:
    branching:
      type: message
      branches:
      - pattern: {"kick":"?k"}
        target: pass
  pass:
    action:
      interpreter: ecmascript
      source: |-
        _.ctx.Value("tick");
        _.out({to: _.bindings["?k"], spin: 1});
        return {};
    branching:
      branches:
      - target: start
`

const c11Spinner = `name: spinner
nodes:
  start:
    branching:
      type: message
      branches:
      - pattern: {"spin":"?s"}
        target: spin
  spin:
    action:
      interpreter: ecmascript
      source: |-
        while (true) { _.ctx.Value("tick"); }
    branching:
      branches:
      - target: start
`

const c11AfterDoneLimit = 3000000

type m11Ctx struct {
	context.Context
	cancel    context.CancelFunc
	cancelAt  int64
	ticks     int64
	afterDone int64
	Overrun   int32
}

func (c *m11Ctx) Value(key interface{}) interface{} {
	if s, ok := key.(string); ok && s == "tick" {
		n := atomic.AddInt64(&c.ticks, 1)
		if c.cancelAt > 0 && n == c.cancelAt {
			c.cancel()
		}
		if c.Context.Err() != nil {
			if atomic.AddInt64(&c.afterDone, 1) > c11AfterDoneLimit {
				atomic.StoreInt32(&c.Overrun, 1)
				panic("verif: script still running long after its context was done")
			}
		}
		return n
	}
	return c.Context.Value(key)
}

type m11Case struct {
	Hops     int `json:"hops"`      // 1: the spinner is sent the message directly; 2: through one relay; 3: through two
	CancelAt int `json:"cancel_at"` // the request's context ends at this tick (0: it has ended before the request)
}

func m11Run(dir string, cs m11Case) [][2]string {
	e, err := newSvc(dir)
	if err != nil {
		return [][2]string{{"<harness>", err.Error()}}
	}
	defer e.close()
	e.s.Emitted = make(chan interface{}, 1024)
	e.s.Errors = make(chan interface{}, 1024)
	bg := context.Background()
	for id, spec := range map[string]string{"r1": "relay", "r2": "relay", "sp": "spinner"} {
		if err := e.s.AddMachine(bg, spec, id, "start", match.Bindings{}); err != nil {
			return [][2]string{{"<harness>", "add: " + err.Error()}}
		}
	}
	cc, cancel := context.WithCancel(bg)
	ctx := &m11Ctx{Context: cc, cancel: cancel, cancelAt: int64(cs.CancelAt)}
	if cs.CancelAt == 0 {
		cancel()
	}
	defer cancel()
	var msg map[string]interface{}
	switch cs.Hops {
	case 1:
		msg = map[string]interface{}{"to": "sp", "spin": 1.0}
	case 2:
		msg = map[string]interface{}{"to": "r1", "kick": "sp"}
	default:
		// r1 kicks r2 ... but a relay passes on {spin}; two relays in a row need the second to be kicked: r1 -> sp only.
		// Three hops: the client kicks r1 with r2's kick wrapped - kept simple: r1 -> sp, and the spinner's follow-up of
		// a first (harmless) spin is not generated.  Hops 3 = r1 with a target that is r2, whose start ignores {spin}.
		msg = map[string]interface{}{"to": "r1", "kick": "r2"}
	}
	panicked, pmsg, where := false, "", ""
	x := sched.NewExec(nil, nil)
	x.Go("client", func() {
		panicked, pmsg, where = vh.Trap(func() { e.s.Process(ctx, msg, nil) })
	})
	x.Run()
	x.Finish()
	var out [][2]string
	if panicked {
		return [][2]string{{"panic/" + where, pmsg}}
	}
	if atomic.LoadInt32(&ctx.Overrun) == 1 {
		out = append(out, [2]string{"not-interrupted-after-context-done", fmt.Sprintf("%+v: a script that runs for the request made more than %d ticks after the request's context had ended", cs, c11AfterDoneLimit)})
	}
	if x.HorizonHit || x.Deadlock != "" {
		out = append(out, [2]string{"service-did-not-come-to-rest", fmt.Sprintf("%+v: horizon=%v %s", cs, x.HorizonHit, x.Deadlock)})
	}
	if cs.Hops <= 2 && len(out) == 0 {
		// the spinner was reached (unless the context ended before its turn): it must be at the error node with the
		// timeout error, or still at start if the service never got to it
		e.s.crew.RLock()
		sp := e.s.crew.Machines["sp"]
		node, errText := "", ""
		if sp != nil && sp.State != nil {
			node = sp.State.NodeName
			errText, _ = sp.State.Bs["error"].(string)
		}
		e.s.crew.RUnlock()
		// the relay ticks once; every further tick was the spinner's: its script ran and was stopped
		spinnerRan := atomic.LoadInt64(&ctx.ticks) > int64(cs.Hops-1)
		// the record in the store must be the machine in memory, whatever became of the request
		stored, serr := e.stored()
		if mem := e.memory(); serr == nil && mem != stored {
			out = append(out, [2]string{"memory-differs-from-store-after-a-timeout", fmt.Sprintf("%+v: memory [%s], store [%s]", cs, mem, stored)})
		}
		switch {
		case node == "start" && !spinnerRan:
		case node == "start":
			out = append(out, [2]string{"timeout-not-routed-like-an-action-error", fmt.Sprintf("%+v: the spinning machine's script ran (%d ticks) and was stopped, but the machine is still at its start node: the failure was not routed anywhere", cs, atomic.LoadInt64(&ctx.ticks))})
		case node == "error" && strings.Contains(errText, "timeout"):
		default:
			out = append(out, [2]string{"failure-is-not-the-timeout-error", fmt.Sprintf("%+v: the spinning machine is at %q with error %q", cs, node, errText)})
		}
	}
	return out
}

func C11mcrew(c *vh.Ctx) {
	dir := scratchDir()
	defer os.RemoveAll(dir)
	os.WriteFile(filepath.Join(dir, "specs", "relay.yaml"), []byte(c11Relay), 0o644)
	os.WriteFile(filepath.Join(dir, "specs", "spinner.yaml"), []byte(c11Spinner), 0o644)
	one := func(cs m11Case) {
		c.Eval()
		vs := m11Run(dir, cs)
		if len(vs) == 0 {
			c.Nontrivial()
		}
		for _, v := range vs {
			if v[0] == "<harness>" {
				c.NotExhaustive("C11mcrew: " + v[1])
				continue
			}
			c.Violation(fmt.Sprintf("C11/mcrew/%s/hops-%d", v[0], cs.Hops), v[1], cs)
		}
	}
	if c.Replay != "" {
		var cs m11Case
		if c.LoadReplay(&cs) == nil {
			one(cs)
		}
		return
	}
	c.Rule("(mcrew host) a machine whose action loops forever (ticking the harness through the request's context) is sent a message directly, or by a relay machine that emits it while handling the request's message (the service processes emitted messages on goroutines of its own); the request's context has ended before the request or ends at tick k = 1..6: no script makes more than 3*10^6 ticks after the context has ended, the service comes to rest, and the looping machine - if its script ran at all - ends at the error node with the timeout error, in memory and in the store.")
	var idx uint64
	for hops := 1; hops <= 2; hops++ {
		for k := 0; k <= 6; k++ {
			idx++
			if c.Mine(idx) && !c.Expired() {
				one(m11Case{Hops: hops, CancelAt: k})
			}
		}
	}
}
