package main

import (
	"context"
	"fmt"
	"os"
	"path/filepath"
	"sort"

	"github.com/Comcast/sheens/match"
	"github.com/Comcast/sheens/verifrt/vh"
)

// C09mcrew: state is plain data also as the mcrew host persists it.  A crew of machines with different
// bindings is driven through a history; at every subset of message boundaries the crew is rebuilt from what
// the store holds (Storage.GetCrew on the bolt file the service writes; a fresh service gets the machines
// through AddMachine) - the rebuilt crew must look and behave like the one that stayed in memory.

const valuesSpec = `name: values
nodes:
  start:
    branching:
      type: message
      branches:
      - pattern:
          inc: "?n"
        target: bump
      - pattern:
          probe: "?p"
        target: probe
  bump:
    action:
      interpreter: ecmascript
      source: |-
        var bs = _.bindings;
        delete bs["?n"];
        bs.count = (bs.count || 0) + 1;
        if (!bs.hist) { bs.hist = []; }
        bs.hist.push({at: bs.count, who: _.props.mid || "?"});
        return bs;
    branching:
      branches:
      - target: start
  probe:
    action:
      interpreter: ecmascript
      source: |-
        var bs = _.bindings;
        delete bs["?p"];
        _.out({count: bs.count || 0, tag: bs.tag || "", code: bs.code || 0, keys: Object.keys(bs).sort().join(","), hist: (bs.hist || []).length});
        return bs;
    branching:
      type: bindings
      branches:
      - pattern:
          code: "?c"
          count: 2
        target: start
      - target: start
`

type c09mCase struct {
	History []string `json:"history"`
	Reloads []bool   `json:"reloads"`
}

type c09mRun struct {
	e *svcEnv
}

func c09mStart(dir string) (*svcEnv, error) {
	e, err := newSvc(dir)
	if err != nil {
		return nil, err
	}
	ctx := context.Background()
	// machines whose bindings differ in names, types and structure
	if err := e.s.AddMachine(ctx, "values", "m1", "start", match.Bindings{"code": 7.0, "tag": "one", "nested": map[string]interface{}{"l": []interface{}{1.0, map[string]interface{}{"k": nil}}}}); err != nil {
		return nil, err
	}
	if err := e.s.AddMachine(ctx, "values", "m2", "start", match.Bindings{}); err != nil {
		return nil, err
	}
	if err := e.s.AddMachine(ctx, "values", "m3", "start", match.Bindings{"tag": "three", "flags": []interface{}{true, false}, "empty": map[string]interface{}{}}); err != nil {
		return nil, err
	}
	return e, nil
}

func c09mMsg(name string) map[string]interface{} {
	switch name {
	case "inc-m1":
		return map[string]interface{}{"to": "m1", "inc": 1.0}
	case "inc-m2":
		return map[string]interface{}{"to": "m2", "inc": 1.0}
	case "inc-all":
		return map[string]interface{}{"inc": 1.0}
	}
	return map[string]interface{}{"probe": 1.0}
}

// reload builds a fresh service from the stored records of e's crew.
func c09mReload(dir string, e *svcEnv) (*svcEnv, error) {
	ctx := context.Background()
	mss, err := e.s.store.GetCrew(ctx, e.s.crewName)
	if err != nil {
		return nil, err
	}
	e2, err := newSvc(dir)
	if err != nil {
		return nil, err
	}
	sort.Slice(mss, func(i, j int) bool { return mss[i].Mid < mss[j].Mid })
	for _, ms := range mss {
		spec := "values"
		if ms.SpecSource != nil && ms.SpecSource.Name != "" {
			spec = ms.SpecSource.Name
		}
		if err := e2.s.AddMachine(ctx, spec, ms.Mid, ms.NodeName, ms.Bs); err != nil {
			e2.close()
			return nil, err
		}
	}
	return e2, nil
}

func c09mRunHistory(dir string, cs c09mCase, reload bool) ([]string, string) {
	e, err := c09mStart(dir)
	if err != nil {
		return nil, "setup: " + err.Error()
	}
	defer func() { e.close() }()
	var out []string
	for i, name := range cs.History {
		var obs string
		if p, pm, where := vh.Trap(func() {
			ws, err := e.s.Process(context.Background(), c09mMsg(name), nil)
			if err != nil {
				obs = "ERR " + err.Error()
				return
			}
			var em []string
			var mids []string
			for mid := range ws {
				mids = append(mids, mid)
			}
			sort.Strings(mids)
			for _, mid := range mids {
				ws[mid].DoEmitted(func(x interface{}) error { em = append(em, mid+":"+fmt.Sprint(x)); return nil })
			}
			obs = fmt.Sprint(em)
		}); p {
			return out, "panic: " + pm + " @" + where
		}
		out = append(out, obs+" | "+e.memory())
		if reload && cs.Reloads[i] {
			e2, err := c09mReload(dir, e)
			if err != nil {
				return out, "reload after message #" + fmt.Sprint(i) + " failed: " + err.Error()
			}
			e.close()
			e = e2
			if mem := e.memory(); out[len(out)-1] != obs+" | "+mem {
				return out, fmt.Sprintf("the crew rebuilt from the store after message #%d (%s) is [%s]; in memory it was [%s]", i, name, mem, out[len(out)-1])
			}
		}
	}
	return out, ""
}

func C09mcrew(c *vh.Ctx) {
	dir := scratchDir()
	defer os.RemoveAll(dir)
	os.WriteFile(filepath.Join(dir, "specs", "values.yaml"), []byte(valuesSpec), 0o644)
	one := func(cs c09mCase) {
		c.Eval()
		c.Nontrivial()
		a, ea := c09mRunHistory(dir, cs, false)
		b, eb := c09mRunHistory(dir, cs, true)
		if ea != "" || eb != "" {
			c.Violation("C09/mcrew-store/"+firstWordM(ea+eb), fmt.Sprintf("history %v reloads %v: %s %s", cs.History, cs.Reloads, ea, eb), cs)
			return
		}
		for i := range a {
			if i < len(b) && a[i] != b[i] {
				c.Violation("C09/mcrew-store/rebuilt-crew-behaves-differently", fmt.Sprintf("history %v, crew rebuilt from the store at %v: at message #%d (%s) in memory -> %s; rebuilt -> %s", cs.History, cs.Reloads, i, cs.History[i], a[i], b[i]), cs)
				return
			}
		}
	}
	if c.Replay != "" {
		var cs c09mCase
		if c.LoadReplay(&cs) == nil && len(cs.History) > 0 {
			one(cs)
		}
		return
	}
	maxLen := c.Pick(3, 4)
	c.Rule("(mcrew persistence) a crew of three machines whose bindings differ in names, types and structure, driven through every history up to the bound over {message to m1, to m2, to all, a probe that reports and branches on the bindings}; at every subset of message boundaries the crew is rebuilt from the records Storage.GetCrew returns (fresh service, AddMachine); oracle: the rebuilt crew equals the in-memory one at the boundary and gives the same emissions and states on every later message.")
	names := []string{"inc-m1", "inc-m2", "inc-all", "probe"}
	var idx uint64
	var rec func(h []string)
	rec = func(h []string) {
		if len(h) > 0 {
			for mask := 1; mask < 1<<uint(len(h)); mask++ {
				idx++
				if !c.Mine(idx) || c.Expired() {
					continue
				}
				rl := make([]bool, len(h))
				for i := range h {
					rl[i] = mask&(1<<uint(i)) != 0
				}
				one(c09mCase{History: append([]string{}, h...), Reloads: rl})
			}
		}
		if len(h) == maxLen {
			return
		}
		for _, n := range names {
			rec(append(h, n))
		}
	}
	rec(nil)
}

func firstWordM(s string) string {
	for i, r := range s {
		if r == ':' || r == ' ' {
			return s[:i]
		}
	}
	return s
}
