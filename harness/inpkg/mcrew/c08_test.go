package main

import (
	"context"
	"fmt"
	"os"
	"path/filepath"
	"sort"
	"strings"

	"github.com/Comcast/sheens/core"
	"github.com/Comcast/sheens/verifrt/ref/rstep"
	"github.com/Comcast/sheens/verifrt/vh"
)

// C08mcrew: what the mcrew host reports.  A chain of emitting actions (one of them failing after it emitted,
// one emitting from a guard) is processed with every step limit; the messages the host publishes on
// Service.Emitted must be exactly the emissions of the successfully completed actions of the strides that
// were taken - what the returned Walkeds say - whether the walk ended Done or Limited.

const chainSpec = `name: chain
nodes:
  start:
    branching:
      type: message
      branches:
      - pattern:
          go: "?g"
        target: a
  a:
    action:
      interpreter: ecmascript
      source: |-
        _.out({to: "sink", at: "a", mid: _.props.mid || ""});
        return _.bindings;
    branching:
      branches:
      - target: b
  b:
    action:
      interpreter: ecmascript
      source: |-
        _.out({to: "sink", at: "b1"});
        _.out({to: "sink", at: "b2"});
        return _.bindings;
    branching:
      branches:
      - guard:
          interpreter: ecmascript
          source: |-
            _.out({to: "sink", at: "guard-of-b"});
            return _.bindings;
        target: c
  c:
    action:
      interpreter: ecmascript
      source: |-
        _.out({to: "sink", at: "c"});
        if (_.bindings.failing) { throw "boom"; }
        return _.bindings;
    branching:
      branches:
      - target: d
  d:
    action:
      interpreter: ecmascript
      source: |-
        _.out({to: "sink", at: "d"});
        return _.bindings;
    branching:
      branches:
      - target: start
`

type c08mCase struct {
	Limit    int  `json:"limit"`
	Failing  bool `json:"failing"`
	Machines int  `json:"machines"`
}

func c08mRun(dir string, cs c08mCase) (host []string, walked []string, bad string) {
	e, err := newSvc(dir)
	if err != nil {
		return nil, nil, "setup: " + err.Error()
	}
	defer e.close()
	ctx := context.Background()
	e.s.Emitted = make(chan interface{}, 1024)
	for i := 0; i < cs.Machines; i++ {
		bs := map[string]interface{}{}
		if cs.Failing && i == 0 {
			bs["failing"] = true
		}
		if err := e.s.AddMachine(ctx, "chain", fmt.Sprintf("m%d", i+1), "start", bs); err != nil {
			return nil, nil, "add: " + err.Error()
		}
	}
	var ws map[string]*core.Walked
	if p, pm, where := vh.Trap(func() {
		ws, err = e.s.Process(ctx, map[string]interface{}{"go": 1.0}, &core.Control{Limit: cs.Limit})
	}); p {
		return nil, nil, "panic: " + pm + " @" + where
	}
	if err != nil {
		return nil, nil, "process: " + err.Error()
	}
	for mid, w := range ws {
		w.DoEmitted(func(x interface{}) error { walked = append(walked, mid+":"+rstep.Canon(x)); return nil })
	}
	// the emitted messages are addressed to a machine that does not exist, so nothing is emitted in turn; the
	// re-injected Process calls only route (they run in goroutines of their own: wait for the channel to settle)
	for more := true; more; {
		select {
		case x := <-e.s.Emitted:
			host = append(host, rstep.Canon(x))
		default:
			more = false
		}
	}
	sort.Strings(walked)
	return
}

func C08mcrew(c *vh.Ctx) {
	dir := scratchDir()
	defer os.RemoveAll(dir)
	os.WriteFile(filepath.Join(dir, "specs", "chain.yaml"), []byte(chainSpec), 0o644)
	one := func(cs c08mCase) {
		c.Eval()
		c.Nontrivial()
		host, walked, bad := c08mRun(dir, cs)
		if bad != "" {
			c.Violation("C08/mcrew/"+strings.SplitN(bad, ":", 2)[0], fmt.Sprintf("%+v: %s", cs, bad), cs)
			return
		}
		// what the Walkeds say, without the machine ids, as a multiset
		var want []string
		for _, w := range walked {
			want = append(want, w[strings.Index(w, ":")+1:])
		}
		sort.Strings(want)
		got := append([]string{}, host...)
		sort.Strings(got)
		if strings.Join(got, ",") != strings.Join(want, ",") {
			c.Violation("C08/mcrew/host-reports-differ-from-the-walks", fmt.Sprintf("%+v: the host published %v; the strides that were taken emitted %v", cs, got, want), cs)
			return
		}
		for _, g := range got {
			if strings.Contains(g, "guard-of-b") {
				c.Violation("C08/mcrew/guard-output-reported", fmt.Sprintf("%+v: a guard's output was published: %v", cs, got), cs)
				return
			}
		}
		// and the walks themselves: a failing action contributes nothing, completed ones everything, in order
		for _, w := range walked {
			if cs.Failing && strings.HasPrefix(w, "m1:") && strings.Contains(w, `"at":"c"`) {
				c.Violation("C08/mcrew/failed-action-output-reported", fmt.Sprintf("%+v: the failing action's output is in the walk: %v", cs, walked), cs)
				return
			}
		}
	}
	if c.Replay != "" {
		var cs c08mCase
		if c.LoadReplay(&cs) == nil && cs.Machines > 0 {
			one(cs)
		}
		return
	}
	c.Rule("(mcrew host) a chain of five nodes whose actions emit (one action emits twice, one guard emits, one action emits and then fails for the first machine) processed by Service.Process with every step limit 0..8 and 100, for one and two machines: the messages published on Service.Emitted must be, as a multiset, exactly what the returned Walkeds hold - for walks that end Done and for walks that end Limited alike -, no guard output, nothing from the failed action.")
	var idx uint64
	for _, machines := range []int{1, 2} {
		for _, failing := range []bool{false, true} {
			for _, limit := range []int{0, 1, 2, 3, 4, 5, 6, 7, 8, 100} {
				idx++
				if c.Mine(idx) && !c.Expired() {
					one(c08mCase{Limit: limit, Failing: failing, Machines: machines})
				}
			}
		}
	}
}
