package main

import (
	"bufio"
	"bytes"
	"context"
	"encoding/json"
	"fmt"
	"os"
	"path/filepath"
	"sort"
	"strings"

	"github.com/Comcast/sheens/match"
	"github.com/Comcast/sheens/verifrt/sched"
	"github.com/Comcast/sheens/verifrt/vh"
)

const mcrewRecorder = `name: recorder
nodes:
  start:
    branching:
      type: message
      branches:
      - pattern: "?m"
        target: rec
  rec:
    action:
      interpreter: ecmascript
      source: |-
        var m = _.bindings["?m"];
        var log = _.bindings.log || [];
        var trail = (m && m.trail) ? m.trail : "?";
        log.push(trail);
        var mode = _.bindings.mode, target = _.bindings.target, id = _.props.mid;
        var n = (m && m.n) ? m.n : 0;
        if (n > 0) {
          var t = trail + ">" + id;
          if (mode == "routed") { _.out({to: target, trail: t + "r", n: n - 1}); }
          else if (mode == "unrouted") { _.out({trail: t + "u", n: n - 1}); }
          else if (mode == "refwd") { var p = m; p.n = n - 1; p.to = target; p.trail = t + "f"; _.out(p); p.to = id; p.trail = t + "g"; _.out(p); }
          else if (mode == "two") { _.out({to: target, trail: t + "1", n: n - 1}); _.out({trail: t + "2", n: n - 1}); }
        }
        return {log: log, mode: mode, target: target};
    branching:
      branches:
      - target: start
`

type mrec struct {
	Id     string `json:"id"`
	Mode   string `json:"mode"`
	Target string `json:"target,omitempty"`
}

type m14Scenario struct {
	Crew []mrec      `json:"crew"`
	To   interface{} `json:"to"`
	N    int         `json:"n"`
	// Via: "" - the Service's Go API; "listener" - the text protocol of Service.Listener (what the TCP front end
	// speaks): machines are added and the message is submitted as lines of text, dressed as Dress says
	Via   string `json:"via,omitempty"`
	Dress string `json:"dress,omitempty"`
}

// listenerSay runs the given lines through Service.Listener and returns the response lines.
func listenerSay(s *Service, text string) ([]string, error) {
	var out bytes.Buffer
	err := s.Listener(context.Background(), bufio.NewReader(strings.NewReader(text)), &out, make(chan bool, 1))
	var resp []string
	for _, l := range strings.Split(out.String(), "\n") {
		if strings.TrimSpace(l) != "" {
			resp = append(resp, l)
		}
	}
	return resp, err
}

// dressLine surrounds the line that carries the judged message with what a client may send around it.
func dressLine(js []byte, dress string) string {
	line := string(js)
	switch dress {
	case "comments":
		return "# a comment\n\n   \n" + line + "\n# " + line + "\n"
	case "crlf":
		return "json\r\n" + line + "\r\n"
	case "indent":
		return " \t" + line + "  \n"
	case "junk":
		return "{\"cop\":{\"process\":\n" + line + "\nnot json at all\n"
	case "after-unknown":
		return `{"cop":{"process":{"message":{"to":"zz","trail":"stray","n":1}}}}` + "\n" + line + "\n"
	}
	return line + "\n"
}

type m14Case struct {
	Scenario m14Scenario `json:"scenario"`
	Choices  []int       `json:"choices"`
	Sizes    []int       `json:"sizes"`
	Trace    []string    `json:"trace,omitempty"`
}

func reserved(id string) bool { return id == "ws" || id == "http" || id == "timers" }

// m14Ref: every message is processed exactly once (in any order); mcrew's rule: a string names a service or one machine, anything else means all machines.
func m14Ref(sc m14Scenario) (logs map[string]string, emitted string) {
	type msg struct {
		to    interface{}
		hasTo bool
		trail string
		n     int
	}
	by := map[string]mrec{}
	for _, m := range sc.Crew {
		by[m.Id] = m
	}
	first := msg{trail: "0", n: sc.N}
	if s, ok := sc.To.(string); !ok || s != "<absent>" {
		first.to, first.hasTo = sc.To, true
	}
	got := map[string][]string{}
	var em []string
	queue := []msg{first}
	for len(queue) > 0 {
		m := queue[0]
		queue = queue[1:]
		var rcpt []string
		if s, ok := m.to.(string); m.hasTo && ok {
			if !reserved(s) {
				if _, have := by[s]; have {
					rcpt = []string{s}
				}
			}
		} else {
			for id := range by {
				rcpt = append(rcpt, id)
			}
		}
		for _, id := range rcpt {
			got[id] = append(got[id], m.trail)
			if m.n > 0 {
				t := m.trail + ">" + id
				switch by[id].Mode {
				case "routed":
					queue = append(queue, msg{to: by[id].Target, hasTo: true, trail: t + "r", n: m.n - 1})
					em = append(em, t+"r")
				case "unrouted":
					queue = append(queue, msg{trail: t + "u", n: m.n - 1})
					em = append(em, t+"u")
				case "two":
					queue = append(queue, msg{to: by[id].Target, hasTo: true, trail: t + "1", n: m.n - 1}, msg{trail: t + "2", n: m.n - 1})
					em = append(em, t+"1", t+"2")
				case "refwd":
					queue = append(queue, msg{to: by[id].Target, hasTo: true, trail: t + "f", n: m.n - 1}, msg{to: id, hasTo: true, trail: t + "g", n: m.n - 1})
					em = append(em, t+"f", t+"g")
				}
			}
		}
	}
	logs = map[string]string{}
	for id, l := range got {
		sort.Strings(l)
		logs[id] = strings.Join(l, ",")
	}
	sort.Strings(em)
	return logs, strings.Join(em, ",")
}

type m14Run struct {
	logs    map[string]string
	emitted string
	err     string
	resp    []string
	lerr    error
}

//go:norace
func (r *m14Run) setResp(resp []string, err error) { r.resp, r.lerr = resp, err }

func runM14(dir string, sc m14Scenario, prefix, prefixN []int) (*sched.Exec, *m14Run) {
	r := &m14Run{logs: map[string]string{}}
	e, err := newSvc(dir)
	if err != nil {
		r.err = err.Error()
		x := sched.NewExec(prefix, prefixN)
		x.Finish()
		return x, r
	}
	defer e.close()
	e.s.Emitted = make(chan interface{}, 1024)
	e.s.wsClientC = make(chan interface{}, 64)
	bg := context.Background()
	for _, m := range sc.Crew {
		if sc.Via == "listener" {
			js, _ := json.Marshal(map[string]interface{}{"cop": map[string]interface{}{"add": map[string]interface{}{"m": map[string]interface{}{
				"id": m.Id, "spec": map[string]interface{}{"name": "recorder"},
				"state": map[string]interface{}{"node": "start", "bs": map[string]interface{}{"mode": m.Mode, "target": m.Target}}}}}})
			resp, err := listenerSay(e.s, string(js)+"\n")
			if err != nil || len(resp) != 1 || strings.Contains(resp[0], `"err"`) || strings.Contains(resp[0], `"error"`) {
				r.err = fmt.Sprintf("add through the listener: %v %v", resp, err)
			}
			continue
		}
		if err := e.s.AddMachine(bg, "recorder", m.Id, "start", match.Bindings{"mode": m.Mode, "target": m.Target}); err != nil {
			r.err = "add: " + err.Error()
		}
	}
	x := sched.NewExec(prefix, prefixN)
	x.Go("client", func() {
		msg := map[string]interface{}{"trail": "0", "n": float64(sc.N)}
		if s, ok := sc.To.(string); !ok || s != "<absent>" {
			msg["to"] = sc.To
		}
		if sc.Via == "listener" {
			if sc.Dress == "big" {
				msg["pad"] = strings.Repeat("x", 70000)
			}
			js, _ := json.Marshal(map[string]interface{}{"cop": map[string]interface{}{"process": map[string]interface{}{"message": msg}}})
			resp, err := listenerSay(e.s, dressLine(js, sc.Dress))
			r.setResp(resp, err)
			return
		}
		e.s.Process(bg, msg, nil)
	})
	x.Run()
	x.Finish()
	for _, m := range sc.Crew {
		if mm := e.s.crew.Machines[m.Id]; mm != nil && mm.State != nil {
			if l, ok := mm.State.Bs["log"].([]interface{}); ok {
				var ls []string
				for _, v := range l {
					ls = append(ls, fmt.Sprint(v))
				}
				sort.Strings(ls)
				r.logs[m.Id] = strings.Join(ls, ",")
			}
		}
	}
	var em []string
	for more := true; more; {
		select {
		case v := <-e.s.Emitted:
			if mm, ok := v.(map[string]interface{}); ok {
				em = append(em, fmt.Sprint(mm["trail"]))
			}
		default:
			more = false
		}
	}
	sort.Strings(em)
	r.emitted = strings.Join(em, ",")
	return x, r
}

func m14Check(sc m14Scenario, x *sched.Exec, r *m14Run) [][2]string {
	var out [][2]string
	if r.err != "" {
		return [][2]string{{"setup-error", r.err}}
	}
	if x.Deadlock != "" {
		out = append(out, [2]string{"deadlock", x.Deadlock})
	}
	wantLogs, wantEm := m14Ref(sc)
	for _, m := range sc.Crew {
		if r.logs[m.Id] != wantLogs[m.Id] {
			kind := "wrong-deliveries"
			if len(r.logs[m.Id]) > len(wantLogs[m.Id]) {
				kind = "duplicate-or-stray-delivery"
			} else if len(r.logs[m.Id]) < len(wantLogs[m.Id]) {
				kind = "lost-delivery"
			}
			out = append(out, [2]string{kind, fmt.Sprintf("machine %q received {%s}; addressed to it exactly once each: {%s}", m.Id, r.logs[m.Id], wantLogs[m.Id])})
		}
	}
	if sc.Via == "listener" {
		// the listener answers every operation with one line; the answer to the judged message names the
		// machines that walked: exactly the machines the first message addresses
		if r.lerr != nil {
			out = append(out, [2]string{"listener-gave-up", fmt.Sprintf("Service.Listener returned %v before the end of the input", r.lerr)})
		}
		var walked []string
		answers := 0
		for _, l := range r.resp {
			var op struct {
				COp struct {
					Process *struct {
						Message map[string]interface{}            `json:"message"`
						Walked  map[string]map[string]interface{} `json:"walked"`
					} `json:"process"`
				} `json:"cop"`
			}
			if json.Unmarshal([]byte(l), &op) == nil && op.COp.Process != nil && op.COp.Process.Message["trail"] == "0" {
				answers++
				for mid := range op.COp.Process.Walked {
					walked = append(walked, mid)
				}
			}
		}
		sort.Strings(walked)
		var want []string
		for id, l := range wantLogs {
			for _, t := range strings.Split(l, ",") {
				if t == "0" {
					want = append(want, id)
				}
			}
		}
		sort.Strings(want)
		if answers != 1 {
			out = append(out, [2]string{"message-not-processed-exactly-once", fmt.Sprintf("the listener answered the line that carries the message %d times (responses: %d lines)", answers, len(r.resp))})
		} else if fmt.Sprint(walked) != fmt.Sprint(want) {
			out = append(out, [2]string{"answer-names-wrong-machines", fmt.Sprintf("the listener's answer says %v walked; the message addresses %v", walked, want)})
		}
	}
	if r.emitted != wantEm {
		out = append(out, [2]string{"emitted-not-reported-exactly-once", fmt.Sprintf("the host saw {%s}; the machines emitted {%s}", r.emitted, wantEm)})
	}
	return out
}

// m14Vias: every scenario through the Go API and through the listener's text protocol; the dressings of the line
// take turns (all of them at depth 1, one per scenario beyond)
func m14Vias(idx uint64, n int) [][2]string {
	dresses := []string{"", "comments", "crlf", "indent", "junk", "after-unknown", "big"}
	out := [][2]string{{"", ""}}
	if n == 1 {
		for _, d := range dresses {
			out = append(out, [2]string{"listener", d})
		}
		return out
	}
	return append(out, [2]string{"listener", dresses[int(idx)%len(dresses)]})
}

// C14mcrew: routing and asynchronous re-injection in the mcrew service.
func C14mcrew(c *vh.Ctx) {
	dir := scratchDir()
	defer os.RemoveAll(dir)
	os.WriteFile(filepath.Join(dir, "specs", "recorder.yaml"), []byte(mcrewRecorder), 0o644)
	bound := c.Pick(1, 2)
	if c.Replay != "" {
		var cs m14Case
		if c.LoadReplay(&cs) == nil {
			x, r := runM14(dir, cs.Scenario, cs.Choices, cs.Sizes)
			c.Eval()
			for _, v := range m14Check(cs.Scenario, x, r) {
				c.Violation("C14/mcrew/"+v[0], v[1], cs)
			}
		}
		return
	}
	modes := []mrec{{Mode: "none"}, {Mode: "routed", Target: "a"}, {Mode: "routed", Target: "b"}, {Mode: "unrouted"}, {Mode: "two", Target: "b"}, {Mode: "routed", Target: "timers"}, {Mode: "routed", Target: "ws"}, {Mode: "refwd", Target: "b"}}
	targets := []interface{}{"<absent>", "a", "b", "zz", "*", []interface{}{"a", "b"}, 7.0, "ws", "timers", "", "http", nil, true}
	depth := c.Pick(2, 3)
	c.Bound("mcrew_counter_depth", depth)
	c.Bound("mcrew_deviations_max", bound)
	c.Rule("mcrew: crews of 1-2 recorder machines (YAML spec file, bolt store) x emission modes {none, routed to a / b / timers / ws, unrouted, two} x first-message target {absent, a, b, unknown, \"*\", list, number, ws, timers} x counter depth; emitted messages are re-processed asynchronously (go s.Process), so every schedule of those goroutines within the deviation bound is explored under the controlled scheduler and the counting oracle is evaluated at quiescence: per machine the multiset of received messages equals the reference (mcrew's rule: a string names a service or one machine, anything else means all), reserved names never reach machines, and the host's Emitted channel saw every emitted message exactly once.")
	var idx uint64
	for _, ma := range modes {
		for _, mb := range append([]mrec{{Mode: "<nomachine>"}}, modes...) {
			crew := []mrec{{Id: "a", Mode: ma.Mode, Target: ma.Target}}
			if mb.Mode != "<nomachine>" {
				crew = append(crew, mrec{Id: "b", Mode: mb.Mode, Target: mb.Target})
			}
			for _, to := range targets {
				for n := 1; n <= depth; n++ {
					idx++
					if !c.Mine(idx) || c.Expired() {
						continue
					}
					if c.Quick() && n == depth && len(crew) == 2 && idx%3 != 0 {
						continue
					}
					for _, via := range m14Vias(idx, n) {
						sc := m14Scenario{Crew: crew, To: to, N: n, Via: via[0], Dress: via[1]}
						c.R.States++
						seen := map[string]bool{}
						st := sched.Explore(bound, 3000, func(uint64) bool { return true }, true,
							func(p, pn []int) *sched.Exec {
								x, r := runM14(dir, sc, p, pn)
								x.UserData = r
								return x
							},
							func(x *sched.Exec, devs int) {
								c.Eval()
								if devs > 0 {
									c.Nontrivial()
								}
								r := x.UserData.(*m14Run)
								c.Outcome("m14", fmt.Sprint(r.logs, r.emitted))
								for _, v := range m14Check(sc, x, r) {
									key := "C14/mcrew/" + v[0]
									if seen[key] {
										c.R.ViolationKeys[key]++
										continue
									}
									seen[key] = true
									cs, ns := sched.Choices(x.Trace)
									c.Violation(key, fmt.Sprintf("crew %v to=%v n=%d: %s", sc.Crew, sc.To, sc.N, v[1]), m14Case{Scenario: sc, Choices: cs, Sizes: ns, Trace: sched.FormatTrace(x.Trace)})
								}
							})
						c.R.Traces += int64(st.Schedules)
						c.R.Transitions += int64(st.Transitions)
						c.Count("nondeterministic_subtrees", int64(st.Nondet))
						for _, nn := range st.NondetNotes {
							c.Note("NONDET: " + nn)
						}
						if st.Nondet > 0 || st.Stuck > 0 {
							c.NotExhaustive(fmt.Sprintf("exploration gaps: %d nondeterministic subtrees, %d stuck", st.Nondet, st.Stuck))
						}
						if st.Capped {
							c.Count("scenarios_capped_at_3000_schedules", 1)
						}
						if c.WantSample() && n == depth {
							c.Sample(map[string]interface{}{"scenario": sc, "schedules": st.Schedules})
						}
					}
				}
			}
		}
	}
}
