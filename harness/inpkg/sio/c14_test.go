package sio

import (
	"context"
	"encoding/json"
	"fmt"
	"sort"
	"strings"

	"github.com/Comcast/sheens/core"
	"github.com/Comcast/sheens/crew"
	"github.com/Comcast/sheens/verifrt/ref/rstep"
	"github.com/Comcast/sheens/verifrt/vexplore"
	"github.com/Comcast/sheens/verifrt/vh"
)

// recorder: appends the trail of every message it receives to a log in its bindings and emits
// according to its mode while the message's counter is positive.
const recorderJS = `
var m = _.bindings["?m"];
var log = _.bindings.log || [];
var trail = (m && m.trail) ? m.trail : "?";
log.push(trail);
var mode = _.bindings.mode, target = _.bindings.target, id = _.props.mid;
var n = (m && m.n) ? m.n : 0;
if (n > 0) {
  var t = trail + ">" + id;
  if (mode == "routed") { _.out({to: target, trail: t + "r", n: n - 1}); }
  else if (mode == "unrouted") { _.out({trail: t + "u", n: n - 1}); }
  else if (mode == "two") { _.out({to: target, trail: t + "1", n: n - 1}); _.out({trail: t + "2", n: n - 1}); }
  else if (mode == "refwd") {
    // forward what was received: the very object the message arrived as, re-addressed and emitted twice
    var p = m; p.n = n - 1; p.to = target; p.trail = t + "f"; _.out(p); p.to = id; p.trail = t + "g"; _.out(p);
  }
  else if (mode == "list") { _.out({to: [target, id, target], trail: t + "l", n: n - 1}); }
  else if (mode == "spawn") {
    // create machine "x" (a plain recorder) through the captain, then greet it - both within this cascade
    if (!_.bindings.spawned) { _.out({to: "captain", update: {x: {spec: {inline: SPEC}, state: {node: "start", bs: {mode: "none"}}}}}); }
    _.out({to: "x", trail: t + "x", n: n - 1});
  }
}
if (mode == "spawn") { return {log: log, mode: mode, target: target, spawned: true}; }
return {log: log, mode: mode, target: target};
`

func recorderSource() string {
	// the recorder's own spec as a JSON literal inside its script (for the spawn mode)
	inner := &core.Spec{Name: "recorder", Nodes: map[string]*core.Node{
		"start": {Branches: &core.Branches{Type: "message", Branches: []*core.Branch{{Pattern: "?m", Target: "rec"}}}},
		"rec": {ActionSource: &core.ActionSource{Interpreter: "ecmascript", Source: strings.Replace(recorderJS, "SPEC", "null", -1)},
			Branches: &core.Branches{Branches: []*core.Branch{{Target: "start"}}}},
	}}
	js, _ := json.Marshal(inner)
	return strings.Replace(recorderJS, "SPEC", string(js), -1)
}

func recorderSpec() *core.Spec {
	return &core.Spec{Name: "recorder", Nodes: map[string]*core.Node{
		"start": {Branches: &core.Branches{Type: "message", Branches: []*core.Branch{{Pattern: "?m", Target: "rec"}}}},
		"rec": {ActionSource: &core.ActionSource{Interpreter: "ecmascript", Source: recorderSource()},
			Branches: &core.Branches{Branches: []*core.Branch{{Target: "start"}}}},
	}}
}

type recMachine struct {
	Id     string `json:"id"`
	Mode   string `json:"mode"`
	Target string `json:"target,omitempty"`
}

type c14Case struct {
	Crew    []recMachine `json:"crew"`
	To      interface{}  `json:"to"`     // routing target of the first message; "<absent>" for none
	N       int          `json:"n"`      // counter depth
	NonMap  bool         `json:"nonmap"` // the first message is not a map
	Choices []int        `json:"choices,omitempty"`
	// Prelude: what happened to the crew before the judged message.  "" nothing; otherwise the crew starts with
	// an extra recorder "tmp", everybody receives a warm-up broadcast, and then the captain deletes "tmp" and
	// creates the recorder "new": swap (one captain message), swap2 (delete, then create), grow (create, then delete)
	Prelude string `json:"prelude,omitempty"`
}

func (cs c14Case) members() []recMachine {
	ms := append([]recMachine{}, cs.Crew...)
	if cs.Prelude != "" {
		ms = append(ms, recMachine{Id: "new", Mode: "none"})
	}
	return ms
}

func newTestCrew() (*Crew, error) {
	io := &sioCouplings{in: make(chan interface{}, 64), out: make(chan *Result, 64)}
	return NewCrew(context.Background(), &CrewConf{Id: "t", Ctl: &core.Control{Limit: 100}}, io)
}

func (cs c14Case) firstMsg() interface{} {
	if cs.NonMap {
		return 7.0
	}
	m := map[string]interface{}{"trail": "0", "n": float64(cs.N)}
	if s, ok := cs.To.(string); !ok || s != "<absent>" {
		m["to"] = cs.To
	}
	return m
}

// ---- reference router ------------------------------------------------------------

type refMsg struct {
	to    interface{}
	hasTo bool
	trail string
	n     int
	from  string // emitter ("" for the first message)
	batch int
}

// refRoute: breadth-first queue and the documented recipient rule.
func refRoute(cs c14Case) (logs map[string][]string, emitted []string) {
	byId := map[string]recMachine{}
	var ids []string
	for _, m := range cs.members() {
		byId[m.Id] = m
		ids = append(ids, m.Id)
	}
	sort.Strings(ids)
	logs = map[string][]string{}
	if cs.Prelude != "" {
		for _, m := range cs.Crew {
			if m.Mode != "ghost" {
				logs[m.Id] = append(logs[m.Id], "w") // the warm-up broadcast of the prelude
			}
		}
	}
	first := refMsg{trail: "0", n: cs.N}
	if cs.NonMap {
		first = refMsg{trail: "?", n: 0}
	} else if s, ok := cs.To.(string); !ok || s != "<absent>" {
		first.to, first.hasTo = cs.To, true
	}
	queue := []refMsg{first}
	spawned := map[string]bool{}
	for len(queue) > 0 {
		m := queue[0]
		queue = queue[1:]
		if m.trail == "<create-x>" {
			// the captain creates x when this message's turn comes
			if _, have := byId["x"]; !have {
				byId["x"] = recMachine{Id: "x", Mode: "none"}
				ids = append(ids, "x")
				sort.Strings(ids)
			}
			continue
		}
		var rcpt []string
		seen := map[string]bool{}
		add := func(id string) {
			if _, ok := byId[id]; ok && !seen[id] {
				seen[id] = true
				rcpt = append(rcpt, id)
			}
		}
		if !m.hasTo {
			rcpt = ids
		} else {
			switch t := m.to.(type) {
			case string:
				if t == "*" {
					rcpt = ids
				} else {
					add(t)
				}
			case []interface{}:
				for _, x := range t {
					if s, ok := x.(string); ok {
						add(s)
					}
				}
			default:
				rcpt = ids // a "to" that is neither a string nor a list addresses nobody in particular
			}
		}
		for _, id := range rcpt {
			rm := byId[id]
			if rm.Mode == "ghost" {
				continue // a machine without a specification can be shown nothing; the others still must be
			}
			logs[id] = append(logs[id], m.trail)
			if m.n > 0 {
				t := m.trail + ">" + id
				switch rm.Mode {
				case "routed":
					queue = append(queue, refMsg{to: rm.Target, hasTo: true, trail: t + "r", n: m.n - 1})
					emitted = append(emitted, t+"r")
				case "unrouted":
					queue = append(queue, refMsg{trail: t + "u", n: m.n - 1})
					emitted = append(emitted, t+"u")
				case "two":
					queue = append(queue, refMsg{to: rm.Target, hasTo: true, trail: t + "1", n: m.n - 1}, refMsg{trail: t + "2", n: m.n - 1})
					emitted = append(emitted, t+"1", t+"2")
				case "refwd":
					queue = append(queue, refMsg{to: rm.Target, hasTo: true, trail: t + "f", n: m.n - 1}, refMsg{to: id, hasTo: true, trail: t + "g", n: m.n - 1})
					emitted = append(emitted, t+"f", t+"g")
				case "list":
					queue = append(queue, refMsg{to: []interface{}{rm.Target, id, rm.Target}, hasTo: true, trail: t + "l", n: m.n - 1})
					emitted = append(emitted, t+"l")
				case "spawn":
					if !spawned[id] {
						spawned[id] = true
						queue = append(queue, refMsg{to: "captain", hasTo: true, trail: "<create-x>"})
						emitted = append(emitted, "<nil>")
					}
					queue = append(queue, refMsg{to: "x", hasTo: true, trail: t + "x", n: m.n - 1})
					emitted = append(emitted, t+"x")
				}
			}
		}
	}
	return
}

type c14Obs struct {
	logs    map[string][]string
	emitted [][]string
	err     string
}

func c14Exec(cs c14Case) c14Obs {
	var o c14Obs
	c, err := newTestCrew()
	if err != nil {
		o.err = err.Error()
		return o
	}
	ctx := context.Background()
	for _, m := range cs.Crew {
		st := &core.State{NodeName: "start", Bs: map[string]interface{}{"mode": m.Mode, "target": m.Target}}
		src := &crew.SpecSource{Inline: recorderSpec()}
		if m.Mode == "ghost" {
			src = nil // a machine that has a state but (not yet) a specification
		}
		if err := c.SetMachine(ctx, m.Id, src, st); err != nil {
			o.err = err.Error()
			return o
		}
	}
	if cs.Prelude != "" {
		if err := c.SetMachine(ctx, "tmp", &crew.SpecSource{Inline: recorderSpec()}, &core.State{NodeName: "start", Bs: map[string]interface{}{"mode": "none"}}); err != nil {
			o.err = err.Error()
			return o
		}
		var spec interface{}
		js, _ := json.Marshal(recorderSpec())
		json.Unmarshal(js, &spec)
		create := map[string]interface{}{"new": map[string]interface{}{"spec": map[string]interface{}{"inline": spec}, "state": map[string]interface{}{"node": "start", "bs": map[string]interface{}{"mode": "none"}}}}
		del := []interface{}{"tmp"}
		pre := []interface{}{map[string]interface{}{"trail": "w", "n": 0.0}}
		switch cs.Prelude {
		case "swap":
			pre = append(pre, map[string]interface{}{"to": "captain", "update": create, "delete": del})
		case "swap2":
			pre = append(pre, map[string]interface{}{"to": "captain", "delete": del}, map[string]interface{}{"to": "captain", "update": create})
		default:
			pre = append(pre, map[string]interface{}{"to": "captain", "update": create}, map[string]interface{}{"to": "captain", "delete": del})
		}
		for _, m := range pre {
			var perr error
			if p, pm, where := vh.Trap(func() { _, perr = c.ProcessMsg(ctx, m) }); p {
				o.err = "panic in the prelude: " + pm + " @" + where
				return o
			}
			if perr != nil {
				o.err = "prelude: " + perr.Error()
				return o
			}
		}
		if c.Machines["tmp"] != nil || c.Machines["new"] == nil {
			o.err = "prelude: the captain did not replace tmp by new"
			return o
		}
	}
	var r *Result
	if p, pm, where := vh.Trap(func() { r, err = c.ProcessMsg(ctx, cs.firstMsg()) }); p {
		o.err = "panic: " + pm + " @" + where
		return o
	}
	if err != nil {
		o.err = err.Error()
		return o
	}
	o.logs = map[string][]string{}
	for _, m := range append(cs.members(), recMachine{Id: "x"}) {
		if mm := c.Machines[m.Id]; mm != nil && mm.State != nil {
			if l, ok := mm.State.Bs["log"].([]interface{}); ok {
				for _, x := range l {
					o.logs[m.Id] = append(o.logs[m.Id], fmt.Sprint(x))
				}
			}
		}
	}
	for _, batch := range r.Emitted {
		var b []string
		for _, m := range batch {
			if mm, ok := m.(map[string]interface{}); ok {
				b = append(b, fmt.Sprint(mm["trail"]))
			} else {
				b = append(b, rstep.Canon(m))
			}
		}
		o.emitted = append(o.emitted, b)
	}
	return o
}

func onlyGreetings(xs []string) []string {
	var out []string
	for _, x := range xs {
		if strings.HasSuffix(x, "x") {
			out = append(out, x)
		}
	}
	return out
}

func multiset(xs []string) string {
	ys := append([]string{}, xs...)
	sort.Strings(ys)
	return strings.Join(ys, ",")
}

// c14Judge compares one observation with the reference.
func c14Judge(cs c14Case, o c14Obs) [][2]string {
	var out [][2]string
	if o.err != "" {
		return [][2]string{{"error", o.err}}
	}
	wantLogs, wantEmitted := refRoute(cs)
	for _, m := range append(cs.members(), recMachine{Id: "x"}) {
		got, want := o.logs[m.Id], wantLogs[m.Id]
		if m.Id == "x" {
			// x is created in mid-cascade: whether a broadcast of the same round reaches it depends on the
			// (unspecified) order in which that round's machines were served, so only what is addressed
			// to x by name is compared
			got, want = onlyGreetings(got), onlyGreetings(want)
		}
		if multiset(got) != multiset(want) {
			kind := "wrong-deliveries"
			if len(got) > len(want) {
				kind = "duplicate-or-stray-delivery"
			} else if len(got) < len(want) {
				kind = "lost-delivery"
			}
			out = append(out, [2]string{kind, fmt.Sprintf("machine %q received %v; addressed to it exactly once each: %v", m.Id, got, want)})
			continue
		}
		// breadth-first: generations (trail length in hops) never decrease
		gen := -1
		for _, t := range got {
			g := strings.Count(t, ">")
			if g < gen {
				out = append(out, [2]string{"not-breadth-first", fmt.Sprintf("machine %q received %v: a message of generation %d after one of generation %d", m.Id, got, g, gen)})
				break
			}
			gen = g
		}
	}
	var flat []string
	for _, b := range o.emitted {
		flat = append(flat, b...)
	}
	if multiset(flat) != multiset(wantEmitted) {
		kind := "emitted-not-reported-exactly-once"
		out = append(out, [2]string{kind, fmt.Sprintf("Result.Emitted holds %v; the machines emitted %v", o.emitted, wantEmitted)})
	}
	// a machine's "two" emission keeps its order inside its batch
	for _, b := range o.emitted {
		for i := 0; i+1 < len(b); i++ {
			if strings.HasSuffix(b[i], "2") && strings.HasSuffix(b[i+1], "1") && b[i][:len(b[i])-1] == b[i+1][:len(b[i+1])-1] {
				out = append(out, [2]string{"emission-order-not-kept", fmt.Sprintf("batch %v", b)})
			}
		}
	}
	return out
}

func toSig(x interface{}) string {
	switch t := x.(type) {
	case string:
		switch t {
		case "<absent>", "*", "timers", "captain":
			return t
		}
		return "id"
	case []interface{}:
		var parts []string
		for _, e := range t {
			if s, ok := e.(string); ok {
				parts = append(parts, s)
			} else {
				parts = append(parts, "nonstring")
			}
		}
		return "list[" + strings.Join(parts, ",") + "]"
	}
	return "nonstring"
}

func c14Crews(thorough bool) [][]recMachine {
	modes := []recMachine{{Mode: "none"}, {Mode: "routed", Target: "a"}, {Mode: "routed", Target: "b"}, {Mode: "unrouted"}, {Mode: "two", Target: "b"}, {Mode: "list", Target: "a"}, {Mode: "routed", Target: "*"}, {Mode: "routed", Target: "zz"}, {Mode: "spawn"}, {Mode: "refwd", Target: "b"}}
	var out [][]recMachine
	ids := []string{"a", "b", ""}
	for _, ma := range modes {
		a := ma
		a.Id = ids[0]
		out = append(out, []recMachine{a})
		for _, mb := range append(append([]recMachine{}, modes...), recMachine{Mode: "ghost"}) {
			b := mb
			b.Id = ids[1]
			out = append(out, []recMachine{a, b})
			if !thorough && (ma.Mode == "none" || mb.Mode == "none") {
				continue
			}
			for _, mc := range []recMachine{{Mode: "none"}, {Mode: "unrouted"}, {Mode: "routed", Target: "a"}, {Mode: "ghost"}} {
				cc := mc
				cc.Id = ids[2]
				out = append(out, []recMachine{a, b, cc})
			}
		}
	}
	return out
}

var c14Targets = []interface{}{"<absent>", "a", "b", "zz", "*", []interface{}{"a", "zz"}, []interface{}{"a", "a"}, []interface{}{"b", 7.0, "a"}, []interface{}{}, "timers", "captain", 7.0, ""}

// C14sio: routing in the single-loop crew.
func C14sio(c *vh.Ctx) {
	bound := c.Pick(1, 2)
	one := func(cs c14Case) {
		c.Eval()
		var first string
		haveFirst := false
		reported := map[string]bool{}
		var obs c14Obs
		runs, capped := vexplore.Orders(bound, 5000, func() { obs = c14Exec(cs) }, func(choices []int) {
			c.R.Transitions++
			key := fmt.Sprint(obs.logs, obs.emitted, obs.err)
			if !haveFirst {
				first, haveFirst = key, true
			}
			_ = first
			for _, v := range c14Judge(cs, obs) {
				if reported[v[0]] {
					continue
				}
				reported[v[0]] = true
				cs2 := cs
				cs2.Choices = append([]int{}, choices...)
				c.Violation("C14/sio/"+v[0]+"/to="+toSig(cs.To), fmt.Sprintf("crew %v, first message %s: %s", cs.Crew, rstep.Canon(cs.firstMsg()), v[1]), cs2)
			}
			c.Outcome("routing", key)
		})
		if runs > 1 {
			c.Nontrivial()
		}
		c.R.Traces += int64(runs)
		if capped {
			c.NotExhaustive("order exploration capped at 5000 executions for one case")
		}
		if vexplore.Diverged != "" {
			c.Count("order_replay_divergences", 1)
			c.NotExhaustive("replaying a recorded prefix of map-iteration choices diverged (" + vexplore.Diverged + "): that case's orders are not fully explored")
		}
	}
	if c.Replay != "" {
		var fc fussyCase
		if c.LoadReplay(&fc) == nil && fc.Kind != "" {
			c14Fussy(c, nil)
			return
		}
		var cs c14Case
		if c.LoadReplay(&cs) == nil {
			// JSON turned the crew's target list into []interface{} already; run all orders again
			one(cs)
		}
		return
	}
	depth := c.Pick(2, 3)
	c.Bound("sio_counter_depth", depth)
	c.Bound("sio_map_order_deviations", bound)
	c.Rule("sio: crews of 1-3 recorder machines (ids a, b, \"\"; each appends every message it receives to a log in its bindings and emits according to its mode {nothing, one routed to X, one unrouted, two (routed+unrouted), one routed to a list with a repeated id, the received object itself re-addressed and emitted twice}, optionally one machine that has a state but no specification, which can be shown nothing) plus the built-in timers and captain; first message with every routing target {absent, a, b, unknown id, \"*\", lists with unknown / repeated / non-string members, empty list, \"timers\", \"captain\", a number, \"\"} and a non-map message; also after a change of membership (a warm-up broadcast, then the captain replaces one machine by another - in one message, delete-then-create, create-then-delete - so that the crew has the same size but other members); counter depth up to the bound; every machine-iteration order with at most k deviating map ranges (vrange); oracle: a breadth-first reference router with the documented recipient rule - per machine the multiset of received messages, breadth-first order, every emitted message reported exactly once, emission order kept. states = (crew, target) cases, traces = executions. Fussy recorders: two recorders whose receiving branch has a guard that throws for a message carrying boom, with an error node that listens and records itself / the default error node / an error node without branches; every sequence of up to 3 messages over {normal to all, boom to all, boom to r1, normal to r1}: each machine's record equals that of a reference in which a message whose guard throws has been presented once (at the start node) and only later messages are heard at the error node; and two recorders whose receiving pattern has an optional variable for a property the messages do not carry - every message is heard; and a machine whose native action emits a request to the timers machine carrying a message (with the request's own target for it) and then that very message unrouted: every ordinary machine hears it, and the host is told what was emitted.")
	var idx uint64
	c14Fussy(c, &idx)
	for _, cr := range c14Crews(!c.Quick()) {
		spawners := 0
		for _, m := range cr {
			if m.Mode == "spawn" {
				spawners++
			}
		}
		if spawners > 1 {
			continue // a second creation of x replaces its state (and with it the receive log): not a routing question
		}
		for _, to := range c14Targets {
			for n := 0; n <= depth; n++ {
				idx++
				if !c.Mine(idx) || c.Expired() {
					continue
				}
				c.R.States++
				cs := c14Case{Crew: cr, To: to, N: n}
				one(cs)
				if c.WantSample() && n == depth && len(cr) == 3 {
					c.Sample(cs)
				}
			}
		}
		idx++
		if c.Mine(idx) {
			one(c14Case{Crew: cr, To: "<absent>", NonMap: true})
		}
		// the crew's membership changed before the judged message (same size, other members)
		for _, pre := range []string{"swap", "swap2", "grow"} {
			if spawners > 0 {
				break // the spawner's script remembers having spawned from the warm-up on: not a routing question
			}
			for _, to := range []interface{}{"<absent>", []interface{}{"new", "a"}} {
				idx++
				if !c.Mine(idx) || c.Expired() {
					continue
				}
				c.R.States++
				one(c14Case{Crew: cr, To: to, N: 1, Prelude: pre})
			}
		}
	}
}
