package sio

import (
	"context"
	"fmt"
	"strings"

	"github.com/Comcast/sheens/core"
	"github.com/Comcast/sheens/crew"
	"github.com/Comcast/sheens/match"
	"github.com/Comcast/sheens/verifrt/vh"
)

// ---- C14sio, fussy recorders: a presentation that fails is still one presentation ---------------------------
//
// The recorders here have a guard on the branch that receives messages, and the guard throws for a message
// that carries "boom".  The machine then goes to its error node - which, in one variant, listens for messages
// itself and records them like the start node does.  A message is presented once: the one that made the guard
// throw was presented at the start node and is not heard again at the error node.

type fussyCase struct {
	Kind    string   `json:"fussy_kind"` // listening | default | branchless : the error node; optional-var: no guard, a pattern with an optional variable
	Seq     []string `json:"seq"`        // n (normal, to all) | B (boom, to all) | b1 (boom to r1) | n1 (normal to r1)
	ViaLoop bool     `json:"via_loop,omitempty"`
}

const fussyGuard = `var m = _.bindings["?m"]; if (m && m.boom) { throw "boom"; } return _.bindings;`

func fussySpec(kind string) *core.Spec {
	s := &core.Spec{Name: "fussy", Nodes: map[string]*core.Node{
		"start": {Branches: &core.Branches{Type: "message", Branches: []*core.Branch{{Pattern: "?m", Target: "rec",
			GuardSource: &core.ActionSource{Interpreter: "ecmascript", Source: fussyGuard}}}}},
		"rec": {ActionSource: &core.ActionSource{Interpreter: "ecmascript", Source: strings.Replace(recorderJS, "SPEC", "null", -1)},
			Branches: &core.Branches{Branches: []*core.Branch{{Target: "start"}}}},
	}}
	switch kind {
	case "optional-var":
		// the receiving branch asks for the trail and, optionally, a note (an optional pattern variable): a message
		// without a note matches as well
		s.Nodes["start"] = &core.Node{Branches: &core.Branches{Type: "message", Branches: []*core.Branch{{Pattern: map[string]interface{}{"trail": "?tr", "note": "??n"}, Target: "rec"}}}}
		s.Nodes["rec"] = &core.Node{ActionSource: &core.ActionSource{Interpreter: "ecmascript", Source: `var log = _.bindings.log || []; log.push(_.bindings["?tr"]); return {log: log, mode: "none"};`},
			Branches: &core.Branches{Branches: []*core.Branch{{Target: "start"}}}}
	case "listening":
		s.Nodes["error"] = &core.Node{Branches: &core.Branches{Type: "message", Branches: []*core.Branch{{Pattern: "?m", Target: "rec"}}}}
	case "branchless":
		s.Nodes["error"] = &core.Node{}
	}
	return s
}

func fussyRun(cs fussyCase) (vs [][2]string) {
	c, err := newTestCrew()
	if err != nil {
		return [][2]string{{"<harness>", err.Error()}}
	}
	ctx := context.Background()
	ids := []string{"r1", "r2"}
	for _, id := range ids {
		if err := c.SetMachine(ctx, id, &crew.SpecSource{Inline: fussySpec(cs.Kind)}, &core.State{NodeName: "start", Bs: map[string]interface{}{"mode": "none"}}); err != nil {
			return [][2]string{{"<harness>", err.Error()}}
		}
	}
	at := map[string]string{"r1": "start", "r2": "start"}
	want := map[string][]string{}
	for i, k := range cs.Seq {
		trail := fmt.Sprintf("%s%d", k, i)
		m := map[string]interface{}{"trail": trail, "n": 0.0}
		rcpt := ids
		if strings.HasSuffix(k, "1") {
			m["to"] = "r1"
			rcpt = ids[:1]
		}
		boom := strings.HasPrefix(strings.ToLower(k), "b")
		if boom {
			m["boom"] = true
		}
		for _, id := range rcpt {
			switch at[id] {
			case "start":
				if cs.Kind == "optional-var" {
					want[id] = append(want[id], trail) // no guard: every message is heard
				} else if boom {
					at[id] = "error"
				} else {
					want[id] = append(want[id], trail)
				}
			case "error":
				if cs.Kind == "listening" {
					want[id] = append(want[id], trail)
					at[id] = "start"
				}
			}
		}
		var perr error
		if p, pm, where := vh.Trap(func() { _, perr = c.ProcessMsg(ctx, m) }); p {
			return [][2]string{{"panic", pm + " @" + where}}
		}
		if perr != nil {
			return [][2]string{{"processing-failed", fmt.Sprintf("message %d (%s): %v", i, trail, perr)}}
		}
	}
	for _, id := range ids {
		var got []string
		node := "?"
		if mm := c.Machines[id]; mm != nil && mm.State != nil {
			node = mm.State.NodeName
			if l, ok := mm.State.Bs["log"].([]interface{}); ok {
				for _, x := range l {
					got = append(got, fmt.Sprint(x))
				}
			}
		}
		if fmt.Sprint(got) != fmt.Sprint(want[id]) {
			what := "presented-differently"
			if len(got) > len(want[id]) {
				what = "presented-more-than-once"
			} else if len(got) < len(want[id]) {
				what = "not-presented"
			}
			vs = append(vs, [2]string{what, fmt.Sprintf("error node %s, messages %v: machine %s recorded %v, expected %v (a message whose guard throws has been presented; the error node hears the later ones only)", cs.Kind, cs.Seq, id, got, want[id])})
			continue
		}
		if node != at[id] {
			vs = append(vs, [2]string{"machine-at-another-node", fmt.Sprintf("error node %s, messages %v: machine %s is at %q, expected %q", cs.Kind, cs.Seq, id, node, at[id])})
		}
	}
	return
}

func c14Fussy(c *vh.Ctx, idx *uint64) {
	one := func(cs fussyCase) {
		c.Eval()
		c.R.States++
		vs := fussyRun(cs)
		if len(vs) == 0 {
			c.Nontrivial()
		}
		for _, v := range vs {
			if v[0] == "<harness>" {
				c.NotExhaustive("C14sio fussy: " + v[1])
				continue
			}
			c.Violation("C14/sio/fussy/"+v[0]+"/error-node-"+cs.Kind, v[1], cs)
		}
	}
	if c.Replay != "" {
		var cs fussyCase
		if c.LoadReplay(&cs) == nil && cs.Kind == "native-reemit" {
			c.Eval()
			for _, v := range nativeReemitRun() {
				if v[0] != "<harness>" {
					c.Violation("C14/sio/native-reemit/"+v[0], v[1], cs)
				}
			}
			return
		}
		if c.LoadReplay(&cs) == nil && cs.Kind != "" {
			one(cs)
		}
		return
	}
	*idx++
	if c.Mine(*idx) && !c.Expired() {
		c.Eval()
		c.R.States++
		vs := nativeReemitRun()
		if len(vs) == 0 {
			c.Nontrivial()
		}
		for _, v := range vs {
			if v[0] == "<harness>" {
				c.NotExhaustive("C14sio native re-emit: " + v[1])
				continue
			}
			c.Violation("C14/sio/native-reemit/"+v[0], v[1], fussyCase{Kind: "native-reemit"})
		}
	}
	alpha := []string{"n", "B", "b1", "n1"}
	var rec func(seq []string, kind string)
	rec = func(seq []string, kind string) {
		if len(seq) > 0 {
			*idx++
			if c.Mine(*idx) && !c.Expired() {
				one(fussyCase{Kind: kind, Seq: append([]string{}, seq...)})
			}
		}
		if len(seq) == 3 {
			return
		}
		for _, a := range alpha {
			rec(append(seq, a), kind)
		}
	}
	for _, kind := range []string{"listening", "default", "branchless", "optional-var"} {
		rec(nil, kind)
	}
}

// ---- a native action that emits a request to the timers machine carrying a message, and then that very message (the
// same Go map) unrouted: what one recipient does with a message it was sent is not seen by the others --------------

func nativeReemitRun() (vs [][2]string) {
	c, err := newTestCrew()
	if err != nil {
		return [][2]string{{"<harness>", err.Error()}}
	}
	ctx := context.Background()
	emitter := &core.Spec{Name: "emitter", Nodes: map[string]*core.Node{
		"start": {Branches: &core.Branches{Type: "message", Branches: []*core.Branch{{Pattern: map[string]interface{}{"go": "?g"}, Target: "act"}}}},
		"act": {Action: &core.FuncAction{F: func(ctx context.Context, bs match.Bindings, props core.StepProps) (*core.Execution, error) {
			exe := core.NewExecution(match.NewBindings())
			m := map[string]interface{}{"trail": "tea", "n": 0.0}
			exe.AddEmitted(map[string]interface{}{"to": "timers", "makeTimer": map[string]interface{}{"id": "later", "in": "1h", "to": "r2", "msg": m}})
			exe.AddEmitted(m)
			return exe, nil
		}}, Branches: &core.Branches{Branches: []*core.Branch{{Target: "start"}}}},
	}}
	if err := emitter.Compile(ctx, nil, true); err != nil {
		return [][2]string{{"<harness>", err.Error()}}
	}
	// (a machine with a native action cannot come from a specification source - sources travel as JSON; a Go host
	// that embeds the crew puts it there itself)
	c.Machines["e"] = &crew.Machine{Id: "e", State: &core.State{NodeName: "start", Bs: match.NewBindings()}, Specter: emitter}
	for _, id := range []string{"r2", "r3"} {
		if err := c.SetMachine(ctx, id, &crew.SpecSource{Inline: fussySpec("default")}, &core.State{NodeName: "start", Bs: map[string]interface{}{"mode": "none"}}); err != nil {
			return [][2]string{{"<harness>", err.Error()}}
		}
	}
	var r *Result
	var perr error
	if p, pm, where := vh.Trap(func() { r, perr = c.ProcessMsg(ctx, map[string]interface{}{"to": "e", "go": 1.0}) }); p {
		return [][2]string{{"panic", pm + " @" + where}}
	}
	defer vh.Trap(func() { c.ProcessMsg(ctx, map[string]interface{}{"to": "timers", "cancelTimer": "later"}) })
	if perr != nil {
		return [][2]string{{"processing-failed", perr.Error()}}
	}
	for _, id := range []string{"r2", "r3"} {
		var got []string
		if mm := c.Machines[id]; mm != nil && mm.State != nil {
			if l, ok := mm.State.Bs["log"].([]interface{}); ok {
				for _, x := range l {
					got = append(got, fmt.Sprint(x))
				}
			}
		}
		if fmt.Sprint(got) != "[tea]" {
			vs = append(vs, [2]string{"unrouted-message-not-presented-to-everybody", fmt.Sprintf("a native action emitted a timer request carrying the message {trail: tea} and then that message itself, unrouted: machine %s recorded %v, expected [tea]", id, got)})
		}
	}
	// reported as emitted: the request and the unrouted message, as they were emitted
	var unrouted int
	for _, b := range r.Emitted {
		for _, m := range b {
			if mm, ok := m.(map[string]interface{}); ok && mm["trail"] == "tea" {
				if _, has := mm["to"]; !has {
					unrouted++
				}
			}
		}
	}
	if unrouted != 1 {
		vs = append(vs, [2]string{"reported-emission-differs-from-what-was-emitted", fmt.Sprintf("the machine emitted {trail: tea} without a target once; the host is told of %d such messages", unrouted)})
	}
	return
}
