package sio

import (
	"context"
	"fmt"
	"strings"

	"github.com/Comcast/sheens/core"
	"github.com/Comcast/sheens/crew"
	"github.com/Comcast/sheens/verifrt/vh"
)

// ---- C14sio, fussy recorders: a presentation that fails is still one presentation ---------------------------
//
// The recorders here have a guard on the branch that receives messages, and the guard throws for a message
// that carries "boom".  The machine then goes to its error node - which, in one variant, listens for messages
// itself and records them like the start node does.  A message is presented once: the one that made the guard
// throw was presented at the start node and is not heard again at the error node.

type fussyCase struct {
	Kind    string   `json:"fussy_kind"` // listening | default | branchless : the error node; optional-var: no guard, a pattern with an optional variable
	Seq     []string `json:"seq"`        // n (normal, to all) | B (boom, to all) | b1 (boom to r1) | n1 (normal to r1)
	ViaLoop bool     `json:"via_loop,omitempty"`
}

const fussyGuard = `var m = _.bindings["?m"]; if (m && m.boom) { throw "boom"; } return _.bindings;`

func fussySpec(kind string) *core.Spec {
	s := &core.Spec{Name: "fussy", Nodes: map[string]*core.Node{
		"start": {Branches: &core.Branches{Type: "message", Branches: []*core.Branch{{Pattern: "?m", Target: "rec",
			GuardSource: &core.ActionSource{Interpreter: "ecmascript", Source: fussyGuard}}}}},
		"rec": {ActionSource: &core.ActionSource{Interpreter: "ecmascript", Source: strings.Replace(recorderJS, "SPEC", "null", -1)},
			Branches: &core.Branches{Branches: []*core.Branch{{Target: "start"}}}},
	}}
	switch kind {
	case "optional-var":
		// the receiving branch asks for the trail and, optionally, a note (an optional pattern variable): a message
		// without a note matches as well
		s.Nodes["start"] = &core.Node{Branches: &core.Branches{Type: "message", Branches: []*core.Branch{{Pattern: map[string]interface{}{"trail": "?tr", "note": "??n"}, Target: "rec"}}}}
		s.Nodes["rec"] = &core.Node{ActionSource: &core.ActionSource{Interpreter: "ecmascript", Source: `var log = _.bindings.log || []; log.push(_.bindings["?tr"]); return {log: log, mode: "none"};`},
			Branches: &core.Branches{Branches: []*core.Branch{{Target: "start"}}}}
	case "listening":
		s.Nodes["error"] = &core.Node{Branches: &core.Branches{Type: "message", Branches: []*core.Branch{{Pattern: "?m", Target: "rec"}}}}
	case "branchless":
		s.Nodes["error"] = &core.Node{}
	}
	return s
}

func fussyRun(cs fussyCase) (vs [][2]string) {
	c, err := newTestCrew()
	if err != nil {
		return [][2]string{{"<harness>", err.Error()}}
	}
	ctx := context.Background()
	ids := []string{"r1", "r2"}
	for _, id := range ids {
		if err := c.SetMachine(ctx, id, &crew.SpecSource{Inline: fussySpec(cs.Kind)}, &core.State{NodeName: "start", Bs: map[string]interface{}{"mode": "none"}}); err != nil {
			return [][2]string{{"<harness>", err.Error()}}
		}
	}
	at := map[string]string{"r1": "start", "r2": "start"}
	want := map[string][]string{}
	for i, k := range cs.Seq {
		trail := fmt.Sprintf("%s%d", k, i)
		m := map[string]interface{}{"trail": trail, "n": 0.0}
		rcpt := ids
		if strings.HasSuffix(k, "1") {
			m["to"] = "r1"
			rcpt = ids[:1]
		}
		boom := strings.HasPrefix(strings.ToLower(k), "b")
		if boom {
			m["boom"] = true
		}
		for _, id := range rcpt {
			switch at[id] {
			case "start":
				if cs.Kind == "optional-var" {
					want[id] = append(want[id], trail) // no guard: every message is heard
				} else if boom {
					at[id] = "error"
				} else {
					want[id] = append(want[id], trail)
				}
			case "error":
				if cs.Kind == "listening" {
					want[id] = append(want[id], trail)
					at[id] = "start"
				}
			}
		}
		var perr error
		if p, pm, where := vh.Trap(func() { _, perr = c.ProcessMsg(ctx, m) }); p {
			return [][2]string{{"panic", pm + " @" + where}}
		}
		if perr != nil {
			return [][2]string{{"processing-failed", fmt.Sprintf("message %d (%s): %v", i, trail, perr)}}
		}
	}
	for _, id := range ids {
		var got []string
		node := "?"
		if mm := c.Machines[id]; mm != nil && mm.State != nil {
			node = mm.State.NodeName
			if l, ok := mm.State.Bs["log"].([]interface{}); ok {
				for _, x := range l {
					got = append(got, fmt.Sprint(x))
				}
			}
		}
		if fmt.Sprint(got) != fmt.Sprint(want[id]) {
			what := "presented-differently"
			if len(got) > len(want[id]) {
				what = "presented-more-than-once"
			} else if len(got) < len(want[id]) {
				what = "not-presented"
			}
			vs = append(vs, [2]string{what, fmt.Sprintf("error node %s, messages %v: machine %s recorded %v, expected %v (a message whose guard throws has been presented; the error node hears the later ones only)", cs.Kind, cs.Seq, id, got, want[id])})
			continue
		}
		if node != at[id] {
			vs = append(vs, [2]string{"machine-at-another-node", fmt.Sprintf("error node %s, messages %v: machine %s is at %q, expected %q", cs.Kind, cs.Seq, id, node, at[id])})
		}
	}
	return
}

func c14Fussy(c *vh.Ctx, idx *uint64) {
	one := func(cs fussyCase) {
		c.Eval()
		c.R.States++
		vs := fussyRun(cs)
		if len(vs) == 0 {
			c.Nontrivial()
		}
		for _, v := range vs {
			if v[0] == "<harness>" {
				c.NotExhaustive("C14sio fussy: " + v[1])
				continue
			}
			c.Violation("C14/sio/fussy/"+v[0]+"/error-node-"+cs.Kind, v[1], cs)
		}
	}
	if c.Replay != "" {
		var cs fussyCase
		if c.LoadReplay(&cs) == nil && cs.Kind != "" {
			one(cs)
		}
		return
	}
	alpha := []string{"n", "B", "b1", "n1"}
	var rec func(seq []string, kind string)
	rec = func(seq []string, kind string) {
		if len(seq) > 0 {
			*idx++
			if c.Mine(*idx) && !c.Expired() {
				one(fussyCase{Kind: kind, Seq: append([]string{}, seq...)})
			}
		}
		if len(seq) == 3 {
			return
		}
		for _, a := range alpha {
			rec(append(seq, a), kind)
		}
	}
	for _, kind := range []string{"listening", "default", "branchless", "optional-var"} {
		rec(nil, kind)
	}
}
