package sio

import (
	"context"
	"encoding/json"
	"fmt"
	"sort"
	"strings"

	"github.com/Comcast/sheens/verifrt/vh"
)

// ---- C15, the timers machine: its reported state is part of what a host persists ------------------------------
//
// The pending timers live in the timers machine's bindings.  After every message the store that folded the
// reported changes must list exactly the timers that are pending in the live crew, and a crew rebuilt from the
// store must have exactly those pending - whatever number of timers were pending before.

type c15TimersCase struct {
	Family string `json:"timers_family"` // burst
	Burst  int    `json:"burst"`         // timers made first (all far in the future)
	Cancel string `json:"cancel"`        // all | all-but-one | none : what is cancelled then
	Late   int    `json:"late"`          // timers made after that
}

func timerIDsOfStore(s shadow) ([]string, string) {
	m, have := s[TimersMachine]
	if !have || m.State == nil {
		return nil, ""
	}
	js, err := json.Marshal(m.State)
	if err != nil {
		return nil, "stored timers state does not serialise: " + err.Error()
	}
	var st struct {
		Bs map[string]interface{} `json:"bs"`
	}
	if err := json.Unmarshal(js, &st); err != nil {
		return nil, "stored timers state does not reload: " + err.Error()
	}
	var ids []string
	if tm, ok := st.Bs["timers"].(map[string]interface{}); ok {
		for id := range tm {
			ids = append(ids, id)
		}
	}
	sort.Strings(ids)
	return ids, ""
}

func timerIDsOfCrew(c *Crew) []string {
	c.timers.Lock()
	defer c.timers.Unlock()
	var ids []string
	for id := range c.timers.Map {
		ids = append(ids, id)
	}
	sort.Strings(ids)
	return ids
}

func c15TimersRun(cs c15TimersCase) (vs [][2]string) {
	c, err := newTestCrew()
	if err != nil {
		return [][2]string{{"<harness>", err.Error()}}
	}
	ctx := context.Background()
	s := shadow{}
	want := map[string]bool{}
	wantIDs := func() []string {
		var ids []string
		for id := range want {
			ids = append(ids, id)
		}
		sort.Strings(ids)
		return ids
	}
	var done []string
	step := func(what string, msg interface{}) bool {
		var r *Result
		var perr error
		if p, pm, where := vh.Trap(func() { r, perr = c.ProcessMsg(ctx, msg) }); p {
			vs = append(vs, [2]string{"timers/panic", pm + " @" + where})
			return false
		}
		if perr != nil {
			vs = append(vs, [2]string{"timers/processing-failed", what + ": " + perr.Error()})
			return false
		}
		s.fold(r)
		done = append(done, what)
		live := timerIDsOfCrew(c)
		if fmt.Sprint(live) != fmt.Sprint(wantIDs()) {
			vs = append(vs, [2]string{"timers/live-crew-has-other-timers", fmt.Sprintf("after %s the live crew has the timers %v pending, expected %v", strings.Join(done, ", "), live, wantIDs())})
			return false
		}
		stored, bad := timerIDsOfStore(s)
		if bad != "" {
			vs = append(vs, [2]string{"timers/store-unusable", bad})
			return false
		}
		if fmt.Sprint(stored) != fmt.Sprint(live) {
			vs = append(vs, [2]string{"timers/store-differs-from-live-crew", fmt.Sprintf("after %s the store that folded every reported change lists the timers %v; pending in the live crew: %v", strings.Join(done, ", "), stored, live)})
			return false
		}
		return true
	}
	mk := func(id string) interface{} {
		return map[string]interface{}{"to": "timers", "makeTimer": map[string]interface{}{"in": "1h", "id": id, "msg": map[string]interface{}{"to": "nobody", "t": id}}}
	}
	cleanup := func(c *Crew) {
		for _, id := range timerIDsOfCrew(c) {
			vh.Trap(func() { c.ProcessMsg(ctx, map[string]interface{}{"to": "timers", "cancelTimer": id}) })
		}
	}
	defer cleanup(c)
	for i := 1; i <= cs.Burst; i++ {
		id := fmt.Sprintf("b%02d", i)
		want[id] = true
		if !step("make "+id, mk(id)) {
			return
		}
	}
	for i := 1; i <= cs.Burst; i++ {
		if cs.Cancel == "none" || (cs.Cancel == "all-but-one" && i == 1) {
			continue
		}
		id := fmt.Sprintf("b%02d", i)
		delete(want, id)
		if !step("cancel "+id, map[string]interface{}{"to": "timers", "cancelTimer": id}) {
			return
		}
	}
	for i := 1; i <= cs.Late; i++ {
		id := fmt.Sprintf("late%d", i)
		want[id] = true
		if !step("make "+id, mk(id)) {
			return
		}
	}
	// crash and restart here
	c2, bad := reboot(s.copy(), false)
	if bad != "" {
		return append(vs, [2]string{"timers/restart-failed", bad})
	}
	defer cleanup(c2)
	if got := timerIDsOfCrew(c2); fmt.Sprint(got) != fmt.Sprint(wantIDs()) {
		vs = append(vs, [2]string{"timers/restarted-crew-has-other-timers", fmt.Sprintf("after %s: a crew rebuilt from the store has the timers %v pending, the original %v", strings.Join(done, ", "), got, wantIDs())})
	}
	return
}

func c15Timers(c *vh.Ctx) {
	one := func(cs c15TimersCase) {
		c.Eval()
		c.R.States++
		vs := c15TimersRun(cs)
		if len(vs) == 0 {
			c.Nontrivial()
		}
		for _, v := range vs {
			if v[0] == "<harness>" {
				c.NotExhaustive("C15 timers: " + v[1])
				continue
			}
			c.Violation(c15Prefix+"/"+v[0], v[1], cs)
		}
	}
	if c.Replay != "" {
		var cs c15TimersCase
		if c.LoadReplay(&cs) == nil && cs.Family != "" {
			one(cs)
		}
		return
	}
	idx := uint64(1 << 20)
	for _, burst := range []int{0, 1, 2, 8, 9, 17} {
		for _, cancel := range []string{"all", "all-but-one", "none"} {
			for _, late := range []int{0, 1, 2} {
				if burst == 0 && cancel != "none" {
					continue
				}
				idx++
				if c.Mine(idx) && !c.Expired() {
					one(c15TimersCase{Family: "burst", Burst: burst, Cancel: cancel, Late: late})
				}
			}
		}
	}
}
