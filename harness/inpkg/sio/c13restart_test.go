package sio

import (
	"context"
	"encoding/json"
	"fmt"
	"os"
	"path/filepath"

	"github.com/Comcast/sheens/core"
	"github.com/Comcast/sheens/verifrt/ref/rstep"
	"github.com/Comcast/sheens/verifrt/vh"
)

// ---- C13sio, through the state file: an inline specification given to a crew is written out by the host (sio.Stdio,
// the state file) and read back at the next start.  What is written describes the same machine: every setting of the
// specification - pattern syntax, error node, error routing - is honoured after the restart as before. ----

type c13rCase struct {
	Options   string `json:"spec_options"` // plain | json-syntax | error-node | aeb | aen | all
	RestartAt []int  `json:"restart_at"`   // message boundaries at which the host restarts (0 = right after the creation)
}

func c13rSpec(opt string) *core.Spec {
	js := func(s string) *core.ActionSource { return &core.ActionSource{Interpreter: "ecmascript", Source: s} }
	pat := func(m map[string]interface{}) interface{} {
		if opt == "json-syntax" || opt == "all" {
			b, _ := json.Marshal(m)
			return string(b)
		}
		return m
	}
	listen := func() *core.Branches {
		return &core.Branches{Type: "message", Branches: []*core.Branch{
			{Pattern: pat(map[string]interface{}{"ping": "?n"}), Target: "pong"},
			{Pattern: pat(map[string]interface{}{"boom": "?b"}), Target: "bad"},
		}}
	}
	s := &core.Spec{Name: "c13r", Nodes: map[string]*core.Node{
		"start": {Branches: listen()},
		"pong":  {ActionSource: js(`_.out({pong: _.bindings["?n"]}); return {};`), Branches: &core.Branches{Branches: []*core.Branch{{Target: "start"}}}},
		"bad": {ActionSource: js(`throw "bad";`), Branches: &core.Branches{Type: "bindings", Branches: []*core.Branch{
			{Pattern: pat(map[string]interface{}{"actionError": "?e"}), Target: "recover"}, {Target: "start"}}}},
		"recover": {ActionSource: js(`_.out({recovered: true}); return {};`), Branches: &core.Branches{Branches: []*core.Branch{{Target: "start"}}}},
		"handler": {ActionSource: js(`_.out({handled: true}); return {};`), Branches: &core.Branches{Branches: []*core.Branch{{Target: "start"}}}},
		"oops":    {Branches: listen()},
	}}
	switch opt {
	case "json-syntax":
		s.PatternSyntax = "json"
	case "error-node":
		s.ErrorNode = "oops"
	case "aeb":
		s.ActionErrorBranches = true
	case "aen":
		s.ActionErrorNode = "handler"
	case "all":
		s.PatternSyntax, s.ErrorNode, s.ActionErrorBranches = "json", "oops", true
	}
	return s
}

var c13rMsgs = []interface{}{
	map[string]interface{}{"ping": 1.0},
	map[string]interface{}{"boom": 1.0},
	map[string]interface{}{"ping": 2.0},
	map[string]interface{}{"boom": 2.0},
	map[string]interface{}{"ping": 3.0},
}

func c13rCreate(opt string) interface{} {
	js, _ := json.Marshal(c13rSpec(opt))
	var spec interface{}
	json.Unmarshal(js, &spec)
	return map[string]interface{}{"to": "captain", "update": map[string]interface{}{"m": map[string]interface{}{"spec": map[string]interface{}{"inline": spec}}}}
}

func emittedText(r *Result) string {
	var all []interface{}
	if r != nil {
		for _, b := range r.Emitted {
			all = append(all, b...)
		}
	}
	if all == nil {
		all = []interface{}{}
	}
	return rstep.Canon(all)
}

// c13rRun: the emissions per message; with restarts through the state file if file != "".
func c13rRun(cs c13rCase, file string) ([]string, string) {
	restartAt := map[int]bool{}
	for _, i := range cs.RestartAt {
		restartAt[i] = true
	}
	var h *stdioHost
	var plain *Crew
	ctx := context.Background()
	if file == "" {
		c, err := newTestCrew()
		if err != nil {
			return nil, err.Error()
		}
		plain = c
	} else {
		os.Remove(file)
		var bad string
		if h, bad = bootStdio(file, false); bad != "" {
			return nil, "boot: " + bad
		}
		defer func() { h.stop() }()
	}
	do := func(msg interface{}) (string, string) {
		if plain != nil {
			r, err := plain.ProcessMsg(ctx, msg)
			if err != nil {
				return "", err.Error()
			}
			return emittedText(r), ""
		}
		r, err := h.c.ProcessMsg(ctx, msg)
		if err != nil {
			return "", err.Error()
		}
		h.c.out <- r
		h.c.out <- &Result{}
		return emittedText(r), ""
	}
	restart := func() string {
		if h == nil {
			return ""
		}
		h.stop()
		var bad string
		h, bad = bootStdio(file, true)
		if bad != "" {
			h = &stdioHost{cancel: func() {}}
			return "restart from the state file: " + bad
		}
		return ""
	}
	if _, bad := do(c13rCreate(cs.Options)); bad != "" {
		return nil, "creation: " + bad
	}
	var out []string
	for i, m := range c13rMsgs {
		if restartAt[i] {
			if bad := restart(); bad != "" {
				return out, bad
			}
		}
		e, bad := do(m)
		if bad != "" {
			e = "error: " + bad
		}
		out = append(out, e)
	}
	return out, ""
}

func c13sioRestart(c *vh.Ctx, idx *uint64) {
	dir := "/dev/shm"
	if st, err := os.Stat(dir); err != nil || !st.IsDir() {
		dir = os.TempDir()
	}
	file := filepath.Join(dir, fmt.Sprintf("verif-c13r-state-%d.json", os.Getpid()))
	defer os.Remove(file)
	one := func(cs c13rCase) {
		c.Eval()
		var want, got []string
		var bad1, bad2 string
		if p, pm, where := vh.Trap(func() { want, bad1 = c13rRun(cs, ""); got, bad2 = c13rRun(cs, file) }); p {
			c.Violation("C13/sio-restart/panic/"+cs.Options, pm+" @"+where, cs)
			return
		}
		if bad1 != "" {
			c.NotExhaustive("C13sio restart: the crew that never restarts: " + bad1)
			return
		}
		c.Nontrivial()
		if bad2 != "" {
			c.Violation("C13/sio-restart/fails/"+cs.Options, fmt.Sprintf("%+v: %s", cs, bad2), cs)
			return
		}
		if fmt.Sprint(got) != fmt.Sprint(want) {
			c.Violation("C13/sio-restart/behaves-differently/"+cs.Options, fmt.Sprintf("%+v: a crew whose host restarts from its state file emits %v for the messages %s; the crew that never restarts emits %v", cs, got, rstep.Canon(c13rMsgs), want), cs)
		}
	}
	if c.Replay != "" {
		var cs c13rCase
		if c.LoadReplay(&cs) == nil && cs.Options != "" {
			one(cs)
		}
		return
	}
	for _, opt := range []string{"plain", "json-syntax", "error-node", "aeb", "aen", "all"} {
		for _, at := range [][]int{{0}, {1}, {2}, {3}, {0, 2}, {1, 3}, {0, 1, 2, 3, 4}} {
			*idx++
			if c.Mine(*idx) && !c.Expired() {
				one(c13rCase{Options: opt, RestartAt: at})
			}
		}
	}
}
