package sio

import (
	"context"
	"encoding/json"
	"fmt"
	"github.com/Comcast/sheens/verifrt/vtime"
	"os"
	"sort"
	"strings"
	"sync"

	"github.com/Comcast/sheens/core"
	"github.com/Comcast/sheens/crew"
	"github.com/Comcast/sheens/verifrt/ref/rtimers"
	"github.com/Comcast/sheens/verifrt/sched"
	"github.com/Comcast/sheens/verifrt/vh"
)

type sOp struct {
	K  string `json:"k"` // make | cancel | pending
	Id string `json:"id,omitempty"`
	D  int64  `json:"d,omitempty"` // ms
}

func (o sOp) String() string {
	switch o.K {
	case "make":
		return fmt.Sprintf("make(%s,%dms)", o.Id, o.D)
	case "cancel":
		return "cancel(" + o.Id + ")"
	}
	return o.K
}

type sScenario struct {
	Req     []sOp `json:"req"`
	Handler []sOp `json:"handler,omitempty"` // requests injected while the first fired message is being handled
	// Sync: the requester waits for each make / cancel to have been processed before it goes on (a client
	// that acts on responses), and may sleep on the virtual clock
	Sync bool `json:"sync,omitempty"`
}

type s17Case struct {
	Scenario sScenario `json:"scenario"`
	Choices  []int     `json:"choices"`
	Sizes    []int     `json:"sizes"`
	Trace    []string  `json:"trace,omitempty"`
	Log      []string  `json:"log,omitempty"`
}

type sioCouplings struct {
	in  chan interface{}
	out chan *Result
}

func (n *sioCouplings) Start(context.Context) error { return nil }
func (n *sioCouplings) IO(context.Context) (chan interface{}, chan *Result, error) {
	return n.in, n.out, nil
}
func (n *sioCouplings) Read(context.Context) (map[string]*crew.Machine, error) { return nil, nil }
func (n *sioCouplings) Stop(context.Context) error                             { return nil }

type sioRun struct {
	delivered   int // timer messages the loop has finished processing
	slept       int // sleeps of the requester that have ended (virtual timers of the harness itself)
	evs         []rtimers.Ev
	tokens      int
	panics      []string
	handlerDone bool
	cur         *sioEnv
	envMu       sync.Mutex
	busy        bool
	fired       int
	persisted   []byte
}

// takeHandler reports (once) that the handler requests are to be issued now.
//
//go:norace
func (r *sioRun) takeHandler() bool {
	if r.handlerDone {
		return false
	}
	r.handlerDone = true
	return true
}

//go:norace
func (r *sioRun) nextToken() int { r.tokens++; return r.tokens }

//go:norace
func (r *sioRun) addPanic(s string) { r.panics = append(r.panics, s) }

//go:norace
func (r *sioRun) rec(e rtimers.Ev) { e.Now = sched.NowNS(); r.evs = append(r.evs, e) }

// request: a message for the loop plus what to observe after it has been processed.
type request struct {
	op    sOp
	token int
	due   int64
	done  bool // the loop has finished processing this request
}

//go:norace
func (q *request) setDone() { q.done = true }

//go:norace
func (q *request) isDone() bool { return q.done }

// sioEnv: the crew currently in service (replaced by a restart).
type sioEnv struct {
	c      *Crew
	io     *sioCouplings
	ctx    context.Context
	cancel context.CancelFunc
}

// env/setEnv hand the crew in service from the thread that performs a restart to the others; a
// restart is a full barrier in reality (a new process), so a real mutex is the right model here.
func (r *sioRun) env() *sioEnv {
	r.envMu.Lock()
	defer r.envMu.Unlock()
	return r.cur
}

func (r *sioRun) setEnv(e *sioEnv) {
	r.envMu.Lock()
	r.cur = e
	r.envMu.Unlock()
}

//go:norace
func (r *sioRun) setBusy(b bool) { r.busy = b }

//go:norace
func (r *sioRun) isBusy() bool { return r.busy }

//go:norace
func (r *sioRun) noteFired() { r.fired++ }

//go:norace
func (r *sioRun) firedCount() int { return r.fired }

//go:norace
func (r *sioRun) noteDelivered() { r.delivered++ }

//go:norace
func (r *sioRun) noteSlept() { r.slept++ }

// quiet: every timer of the code under test that went off has handed over its message and the loop has
// finished processing it; nothing is queued or being processed
//
//go:norace
func (r *sioRun) timersQuiet() bool {
	return sched.TimersFired()-r.slept == r.fired && r.fired == r.delivered
}

//go:norace
func (r *sioRun) deliveredCount() int { return r.delivered }

func (r *sioRun) persist(js []byte) {
	r.envMu.Lock()
	r.persisted = js
	r.envMu.Unlock()
}

func (r *sioRun) stored() []byte {
	r.envMu.Lock()
	defer r.envMu.Unlock()
	return r.persisted
}

func newSioEnv(r *sioRun, persisted []byte) *sioEnv {
	ctx, cancel := context.WithCancel(context.Background())
	io := &sioCouplings{in: make(chan interface{}, 64), out: make(chan *Result, 64)}
	c, err := NewCrew(ctx, &CrewConf{Id: "t", Ctl: &core.Control{Limit: 100}}, io)
	if err != nil {
		panic(err)
	}
	orig := c.timers.Emitter
	c.timers.Emitter = func(ctx context.Context, te *TimerEntry) {
		tok := 0
		if m, ok := te.Msg.(map[string]interface{}); ok {
			if f, ok := m["token"].(float64); ok {
				tok = int(f)
			}
		}
		r.noteFired()
		r.rec(rtimers.Ev{Kind: "fire-begin", Token: tok})
		sched.Yield("emit")
		orig(ctx, te)
	}
	if persisted != nil {
		// the boot path: the stored timers machine state is handed to SetMachine
		var st core.State
		if err := json.Unmarshal(persisted, &st); err == nil {
			if err := c.SetMachine(ctx, TimersMachine, nil, &st); err != nil {
				r.addPanic("restart: SetMachine(timers) failed: " + err.Error())
			}
		} else {
			r.addPanic("restart: persisted timers state does not load: " + err.Error())
		}
	}
	return &sioEnv{c: c, io: io, ctx: ctx, cancel: cancel}
}

func runSioTimers(sc sScenario, prefix, prefixN []int) (*sched.Exec, *sioRun) {
	x := sched.NewExec(prefix, prefixN)
	r := &sioRun{}
	r.setEnv(newSioEnv(r, nil))
	msgFor := func(q *request) interface{} {
		switch q.op.K {
		case "make":
			return map[string]interface{}{"to": "timers", "makeTimer": map[string]interface{}{
				"in": fmt.Sprintf("%dms", q.op.D), "id": q.op.Id, "msg": map[string]interface{}{"to": "nobody", "token": float64(q.token)}}, "verif": q}
		case "cancel":
			return map[string]interface{}{"to": "timers", "cancelTimer": q.op.Id, "verif": q}
		}
		return nil
	}
	var submit func(op sOp) *request
	submit = func(op sOp) *request {
		e := r.env()
		switch op.K {
		case "make":
			q := &request{op: op, token: r.nextToken()}
			e.io.in <- msgFor(q)
			return q
		case "makebad":
			// a request the timers machine refuses (a duration that does not parse)
			q := &request{op: sOp{K: "cancel", Id: op.Id}}
			e.io.in <- map[string]interface{}{"to": "timers", "makeTimer": map[string]interface{}{"in": "soon", "id": op.Id, "msg": map[string]interface{}{"to": "nobody", "token": -1.0}}, "verif": q}
			return q
		case "cancel":
			q := &request{op: op}
			e.io.in <- msgFor(q)
			return q
		case "sleep":
			vtime.Sleep(vtime.Duration(op.D) * vtime.Millisecond)
			r.noteSlept() // the sleep was a virtual timer too
		case "reported":
			// what the host has been told: the timers machine's state as last reported.  Judged only at a
			// message boundary with nothing in flight (a timer that has gone off but whose message the
			// loop has not yet processed cannot be in any report yet)
			if !r.timersQuiet() || r.isBusy() || len(e.io.in) > 0 {
				return nil
			}
			var st core.State
			var ids []string
			if json.Unmarshal(r.stored(), &st) == nil {
				if tm, ok := st.Bs["timers"].(map[string]interface{}); ok {
					m := tm
					if inner, ok := tm["Map"].(map[string]interface{}); ok {
						m = inner
					}
					for id := range m {
						ids = append(ids, id)
					}
				}
			}
			sort.Strings(ids)
			r.rec(rtimers.Ev{Kind: "pending", IDs: ids})
		case "pending":
			ts := e.c.timers
			ts.Lock()
			var ids []string
			for id := range ts.Map {
				ids = append(ids, id)
			}
			ts.Unlock()
			sort.Strings(ids)
			r.rec(rtimers.Ev{Kind: "pending", IDs: ids})
		case "restart":
			// a restart at a message boundary with nothing in flight: every timer that went off has
			// handed over its message and the loop has finished processing it (so what a host has on
			// disk is up to date); nothing is queued or being processed
			if !r.timersQuiet() || r.isBusy() || len(e.io.in) > 0 {
				r.rec(rtimers.Ev{Kind: "restart-skipped"})
				return nil
			}
			e.cancel()
			sched.StopPendingTimers() // the old process's timers die with it
			r.rec(rtimers.Ev{Kind: "restart"})
			r.setEnv(newSioEnv(r, r.stored()))
		case "down":
			// the host goes down at a quiet message boundary, stays down for D ms (its timers die with it; the
			// clock goes on), and boots from what it had on disk: timers that came due meanwhile are overdue
			if !r.timersQuiet() || r.isBusy() || len(e.io.in) > 0 {
				r.rec(rtimers.Ev{Kind: "restart-skipped"})
				return nil
			}
			e.cancel() // the old process's goroutines see the cancellation and end
			sched.StopPendingTimers()
			vtime.Sleep(vtime.Duration(op.D) * vtime.Millisecond)
			r.noteSlept()
			r.rec(rtimers.Ev{Kind: "restart"})
			r.setEnv(newSioEnv(r, r.stored()))
		}
		return nil
	}
	x.Go("requester", func() {
		for _, op := range sc.Req {
			q := submit(op)
			if sc.Sync && q != nil {
				sched.WaitUntil("request-processed", q.isDone)
			}
			sched.Yield("after-" + op.K)
		}
	})
	x.GoDaemon("loop", func() {
		for {
			sched.WaitUntil("loop-recv", func() bool { return len(r.env().io.in) > 0 })
			if !sched.Active() {
				return // the execution is over (shims are pass-through): do not spin
			}
			e := r.env()
			if len(e.io.in) == 0 {
				continue
			}
			msg := <-e.io.in
			r.setBusy(true)
			c, ts := e.c, e.c.timers
			var q *request
			if m, ok := msg.(map[string]interface{}); ok {
				if v, ok := m["verif"].(*request); ok {
					q = v
					delete(m, "verif")
				}
				if _, fired := m["token"]; fired && r.takeHandler() {
					for _, op := range sc.Handler {
						submit(op)
					}
				}
			}
			if q != nil && q.op.K == "make" {
				q.due = sched.NowNS() + q.op.D*1000000
				r.rec(rtimers.Ev{Kind: "add-begin", Id: q.op.Id, Token: q.token, Due: q.due})
			}
			var res *Result
			var err error
			if p, pm, where := vh.Trap(func() { res, err = c.ProcessMsg(e.ctx, msg) }); p {
				r.addPanic("panic: " + pm + " at " + where)
			}
			_ = err
			isDelivery := false
			if m, ok := msg.(map[string]interface{}); ok && q == nil {
				_, isDelivery = m["token"]
			}
			if res != nil {
				if ch, have := res.Changed[TimersMachine]; have && ch.State != nil {
					if js, err := json.Marshal(ch.State); err == nil {
						r.persist(js) // what a host would have on disk for the timers machine
					}
				}
			}
			if q != nil {
				errText := ""
				if tm := c.Machines[TimersMachine]; tm != nil && tm.State != nil {
					if e, ok := tm.State.Bs["error"].(string); ok {
						errText = e
					}
				}
				switch q.op.K {
				case "make":
					ts.Lock()
					te, have := ts.Map[q.op.Id]
					accepted := false
					if have {
						if m, ok := te.Msg.(map[string]interface{}); ok {
							if f, ok := m["token"].(float64); ok && int(f) == q.token {
								accepted = true
							}
						}
					}
					ts.Unlock()
					if !accepted && q.op.D == 0 && errText == "" {
						// a timer that is due at once may have been retired already (and be on its way to the
						// emitter) when the request's result is looked at; a refusal would have left its text
						accepted = true
					}
					e := ""
					if !accepted {
						e = "not installed"
						if errText != "" {
							e = errText
						}
					}
					r.rec(rtimers.Ev{Kind: "add", Id: q.op.Id, Token: q.token, Err: e, Due: q.due})
				case "cancel":
					r.rec(rtimers.Ev{Kind: "cancel", Id: q.op.Id, Err: errText})
				}
			}
			if isDelivery {
				r.noteDelivered()
			}
			if q != nil {
				q.setDone()
			}
			r.setBusy(false)
			sched.Yield("loop-after")
		}
	})
	x.Run()
	r.env().cancel()
	x.Finish()
	return x, r
}

func sioScenarios(maxReq int, thorough bool) []sScenario {
	base := []sOp{{K: "make", Id: "1", D: 10}, {K: "make", Id: "1", D: 3600000}, {K: "make", Id: "2", D: 10}, {K: "cancel", Id: "1"}, {K: "cancel", Id: "2"}, {K: "pending"}}
	var seqs [][]sOp
	var rec func(cur []sOp)
	rec = func(cur []sOp) {
		if len(cur) > 0 {
			seqs = append(seqs, append([]sOp{}, cur...))
		}
		if len(cur) == maxReq {
			return
		}
		for _, o := range base {
			rec(append(cur, o))
		}
	}
	rec(nil)
	handlers := [][]sOp{nil, {{K: "make", Id: "1", D: 10}}, {{K: "cancel", Id: "1"}, {K: "make", Id: "1", D: 3600000}}, {{K: "pending"}}}
	if thorough {
		handlers = append(handlers, []sOp{{K: "make", Id: "2", D: 10}}, []sOp{{K: "cancel", Id: "2"}})
	}
	var out []sScenario
	for _, s := range seqs {
		if s[0].K != "make" {
			continue
		}
		for _, h := range handlers {
			out = append(out, sScenario{Req: s, Handler: h})
		}
	}
	// a restart between creation and due time: the persisted timers resume in the new crew
	restart := sOp{K: "restart"}
	for _, pre := range [][]sOp{
		{{K: "make", Id: "1", D: 10}},
		{{K: "make", Id: "1", D: 10}, {K: "make", Id: "2", D: 3600000}},
		{{K: "make", Id: "1", D: 10}, {K: "cancel", Id: "1"}},
		{{K: "make", Id: "1", D: 10}, {K: "make", Id: "2", D: 10}, {K: "cancel", Id: "2"}},
		{{K: "make", Id: "1", D: 3600000}, {K: "make", Id: "1", D: 10}},
	} {
		for _, post := range [][]sOp{nil, {{K: "pending"}}, {{K: "cancel", Id: "1"}}, {{K: "make", Id: "1", D: 10}}, {{K: "make", Id: "3", D: 10}, restart}} {
			req := append(append(append([]sOp{}, pre...), restart), post...)
			out = append(out, sScenario{Req: req}, sScenario{Req: req, Handler: []sOp{{K: "make", Id: "1", D: 10}}})
		}
	}
	// a client that waits for responses, timers that have gone off, requests that are refused afterwards, what the
	// host has been told (the reported timers state), and a restart from that
	sl := sOp{K: "sleep", D: 20}
	rep := sOp{K: "reported"}
	// the host is down while timers come due: after the boot they are overdue; requests that meet them
	down := sOp{K: "down", D: 20}
	for _, pre := range [][]sOp{
		{{K: "make", Id: "1", D: 10}},
		{{K: "make", Id: "1", D: 10}, {K: "make", Id: "2", D: 12}},
		{{K: "make", Id: "1", D: 10}, {K: "make", Id: "2", D: 3600000}},
	} {
		for _, post := range [][]sOp{nil, {{K: "cancel", Id: "1"}}, {{K: "cancel", Id: "2"}}, {{K: "make", Id: "1", D: 10}}, {{K: "pending"}}, {{K: "cancel", Id: "1"}, {K: "make", Id: "1", D: 3600000}, {K: "pending"}}} {
			req := append(append(append([]sOp{}, pre...), down), post...)
			out = append(out, sScenario{Req: req}, sScenario{Req: req, Handler: []sOp{{K: "cancel", Id: "2"}}}, sScenario{Req: req, Handler: []sOp{{K: "make", Id: "2", D: 10}}})
		}
	}
	for _, req := range [][]sOp{
		{{K: "make", Id: "1", D: 10}, sl, rep, {K: "cancel", Id: "1"}, rep, restart, sl, {K: "pending"}},
		{{K: "make", Id: "1", D: 10}, sl, {K: "makebad", Id: "3"}, rep, restart, sl, {K: "pending"}},
		{{K: "make", Id: "1", D: 10}, {K: "make", Id: "2", D: 3600000}, sl, {K: "cancel", Id: "1"}, rep, restart, sl, rep, {K: "pending"}},
		{{K: "make", Id: "1", D: 10}, sl, {K: "make", Id: "1", D: 10}, rep, sl, {K: "cancel", Id: "2"}, rep, restart, sl},
		{{K: "make", Id: "1", D: 3600000}, {K: "cancel", Id: "1"}, {K: "makebad", Id: "1"}, rep, restart, rep, {K: "pending"}},
		{{K: "make", Id: "1", D: 10}, {K: "make", Id: "2", D: 10}, sl, {K: "makebad", Id: "2"}, rep, restart, sl, rep},
		// several timers going off between two reports
		{{K: "make", Id: "1", D: 10}, {K: "make", Id: "2", D: 10}, sl, rep, restart, sl, rep, {K: "pending"}},
		{{K: "make", Id: "1", D: 10}, {K: "make", Id: "2", D: 10}, {K: "make", Id: "3", D: 3600000}, sl, rep, restart, sl, rep},
		{{K: "make", Id: "1", D: 10}, {K: "make", Id: "2", D: 12}, {K: "make", Id: "3", D: 14}, sl, rep, {K: "pending"}},
	} {
		out = append(out, sScenario{Req: req, Sync: true})
	}
	// timers that are due at once (a delay of zero), also under an id that has a timer pending
	for _, req := range [][]sOp{
		{{K: "make", Id: "1", D: 0}},
		{{K: "make", Id: "1", D: 0}, {K: "make", Id: "1", D: 0}, {K: "pending"}},
		{{K: "make", Id: "1", D: 3600000}, {K: "make", Id: "1", D: 0}, {K: "pending"}, {K: "cancel", Id: "1"}},
		{{K: "make", Id: "1", D: 10}, {K: "make", Id: "1", D: 0}, sl, {K: "pending"}},
		{{K: "make", Id: "2", D: 3600000}, {K: "make", Id: "1", D: 0}, {K: "pending"}, sl, rep},
		{{K: "make", Id: "1", D: 3600000}, {K: "make", Id: "1", D: 0}, sl, rep, restart, sl, {K: "pending"}},
	} {
		out = append(out, sScenario{Req: req, Sync: true}, sScenario{Req: req})
	}
	return out
}

// C17sio explores the sio Timers through a real Crew whose loop the harness plays.
func C17sio(c *vh.Ctx) {
	bound := c.Pick(2, 3)
	race := os.Getenv("VERIF_RACE") == "1"
	if c.Replay != "" {
		var cs s17Case
		if c.LoadReplay(&cs) != nil {
			return
		}
		x, r := runSioTimers(cs.Scenario, cs.Choices, cs.Sizes)
		c.Eval()
		for _, v := range rtimers.Monitor(r.evs, !x.HorizonHit && x.Deadlock == "") {
			c.Violation("C17/sio/"+v[0], v[1], cs)
		}
		return
	}
	maxReq := c.Pick(2, 3)
	if race {
		maxReq, bound = 2, 2
	}
	scs := sioScenarios(maxReq, !c.Quick())
	c.Bound("sio_requests_max", maxReq)
	c.Bound("sio_deviations_max", bound)
	if c.Shard == 0 {
		c.Count("sio_scenarios", int64(len(scs)))
	}
	c.Rule("sio Timers through a real Crew: requests are messages to the timers machine ({makeTimer}/{cancelTimer}) queued by a requester thread; the harness plays Crew.Loop (receive, ProcessMsg); handler requests are queued while the first fired message is handled; same scenario alphabet, scheduler, virtual time and monitor as for mcrew; 'accepted' is read off the timers map after the request was processed (an add on an existing id that installs nothing counts as refused).")
	for i, sc := range scs {
		if f := os.Getenv("VERIF_DEBUG_SCENARIO"); f != "" {
			if fmt.Sprint(sc.Req, sc.Handler) != f {
				continue
			}
		} else if !c.Mine(uint64(i)) {
			continue
		}
		if c.Expired() {
			return
		}
		c.R.States++
		seen := map[string]bool{}
		st := sched.Explore(bound, 200000, func(uint64) bool { return true }, true,
			func(p, pn []int) *sched.Exec {
				x, r := runSioTimers(sc, p, pn)
				x.UserData = r
				return x
			},
			func(x *sched.Exec, devs int) {
				c.Eval()
				c.Count("sched_fast_steps", int64(x.FastSteps))
				c.Count("sched_full_dumps", int64(x.FullDumps))
				r := x.UserData.(*sioRun)
				fired := false
				var sb strings.Builder
				for _, e := range r.evs {
					if e.Kind == "fire-begin" {
						fired = true
					}
					fmt.Fprintf(&sb, "%s:%s:%d:%s:%v;", e.Kind, e.Id, e.Token, e.Err, e.IDs)
				}
				if fired {
					c.Nontrivial()
				}
				c.Outcome("log", sb.String())
				vs := rtimers.Monitor(r.evs, !x.HorizonHit)
				for _, p := range r.panics {
					vs = append(vs, [2]string{"panic-in-ProcessMsg", p})
				}
				if x.Deadlock != "" {
					vs = append(vs, [2]string{"deadlock", x.Deadlock})
				}
				for _, v := range vs {
					key := "C17/sio/" + v[0]
					if seen[key] {
						c.R.ViolationKeys[key]++
						continue
					}
					cs, ns := sched.Choices(x.Trace)
					x2, r2 := runSioTimers(sc, cs, ns)
					again := false
					if x2.Nondet == "" {
						vs2 := rtimers.Monitor(r2.evs, !x2.HorizonHit)
						for _, p := range r2.panics {
							vs2 = append(vs2, [2]string{"panic-in-ProcessMsg", p})
						}
						if x2.Deadlock != "" {
							vs2 = append(vs2, [2]string{"deadlock", x2.Deadlock})
						}
						for _, v2 := range vs2 {
							if v2[0] == v[0] {
								again = true
							}
						}
					}
					if !again {
						c.Count("unreproduced", 1)
						c.NotExhaustive("a violation did not reproduce on replay; not reported")
						continue
					}
					seen[key] = true
					var log []string
					for _, e := range r.evs {
						log = append(log, e.String())
					}
					c.Violation(key, v[1]+" | scenario "+fmt.Sprint(sc.Req)+" handler "+fmt.Sprint(sc.Handler), s17Case{Scenario: sc, Choices: cs, Sizes: ns, Trace: sched.FormatTrace(x.Trace), Log: log})
				}
			})
		c.R.Traces += int64(st.Schedules)
		c.R.Transitions += int64(st.Transitions)
		c.Count("nondeterministic_subtrees", int64(st.Nondet))
		c.Count("stuck_executions", int64(st.Stuck))
		c.Count("horizons", int64(st.Horizons))
		c.Count("multi_event_steps", int64(st.MultiEvent))
		for _, n := range st.NondetNotes {
			c.Note("NONDET " + fmt.Sprint(sc.Req, sc.Handler) + ": " + n)
		}
		if st.Nondet > 0 || st.Stuck > 0 || st.Capped {
			c.NotExhaustive(fmt.Sprintf("exploration gaps: %d nondeterministic subtrees, %d stuck executions, capped=%v", st.Nondet, st.Stuck, st.Capped))
		}
		if c.WantSample() && i%5 == 2 {
			c.Sample(map[string]interface{}{"scenario": sc, "schedules": st.Schedules})
		}
	}
}
