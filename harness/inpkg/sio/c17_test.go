package sio

import (
	"context"
	"fmt"
	"os"
	"sort"
	"strings"

	"github.com/Comcast/sheens/core"
	"github.com/Comcast/sheens/crew"
	"github.com/Comcast/sheens/verifrt/ref/rtimers"
	"github.com/Comcast/sheens/verifrt/sched"
	"github.com/Comcast/sheens/verifrt/vh"
)

type sOp struct {
	K  string `json:"k"` // make | cancel | pending
	Id string `json:"id,omitempty"`
	D  int64  `json:"d,omitempty"` // ms
}

func (o sOp) String() string {
	switch o.K {
	case "make":
		return fmt.Sprintf("make(%s,%dms)", o.Id, o.D)
	case "cancel":
		return "cancel(" + o.Id + ")"
	}
	return o.K
}

type sScenario struct {
	Req     []sOp `json:"req"`
	Handler []sOp `json:"handler,omitempty"` // requests injected while the first fired message is being handled
}

type s17Case struct {
	Scenario sScenario `json:"scenario"`
	Choices  []int     `json:"choices"`
	Sizes    []int     `json:"sizes"`
	Trace    []string  `json:"trace,omitempty"`
	Log      []string  `json:"log,omitempty"`
}

type sioCouplings struct {
	in  chan interface{}
	out chan *Result
}

func (n *sioCouplings) Start(context.Context) error { return nil }
func (n *sioCouplings) IO(context.Context) (chan interface{}, chan *Result, error) {
	return n.in, n.out, nil
}
func (n *sioCouplings) Read(context.Context) (map[string]*crew.Machine, error) { return nil, nil }
func (n *sioCouplings) Stop(context.Context) error                             { return nil }

type sioRun struct {
	evs         []rtimers.Ev
	tokens      int
	panics      []string
	handlerDone bool
}

// takeHandler reports (once) that the handler requests are to be issued now.
//
//go:norace
func (r *sioRun) takeHandler() bool {
	if r.handlerDone {
		return false
	}
	r.handlerDone = true
	return true
}

//go:norace
func (r *sioRun) nextToken() int { r.tokens++; return r.tokens }

//go:norace
func (r *sioRun) addPanic(s string) { r.panics = append(r.panics, s) }

//go:norace
func (r *sioRun) rec(e rtimers.Ev) { e.Now = sched.NowNS(); r.evs = append(r.evs, e) }

// request: a message for the loop plus what to observe after it has been processed.
type request struct {
	op    sOp
	token int
	due   int64
}

func runSioTimers(sc sScenario, prefix, prefixN []int) (*sched.Exec, *sioRun) {
	x := sched.NewExec(prefix, prefixN)
	r := &sioRun{}
	ctx, cancel := context.WithCancel(context.Background())
	io := &sioCouplings{in: make(chan interface{}, 64), out: make(chan *Result, 64)}
	c, err := NewCrew(ctx, &CrewConf{Id: "t", Ctl: &core.Control{Limit: 100}}, io)
	if err != nil {
		panic(err)
	}
	ts := c.timers
	orig := ts.Emitter
	ts.Emitter = func(ctx context.Context, te *TimerEntry) {
		tok := 0
		if m, ok := te.Msg.(map[string]interface{}); ok {
			if f, ok := m["token"].(float64); ok {
				tok = int(f)
			}
		}
		r.rec(rtimers.Ev{Kind: "fire-begin", Token: tok})
		sched.Yield("emit")
		orig(ctx, te)
	}
	msgFor := func(q *request) interface{} {
		switch q.op.K {
		case "make":
			return map[string]interface{}{"to": "timers", "makeTimer": map[string]interface{}{
				"in": fmt.Sprintf("%dms", q.op.D), "id": q.op.Id, "msg": map[string]interface{}{"to": "nobody", "token": float64(q.token)}}, "verif": q}
		case "cancel":
			return map[string]interface{}{"to": "timers", "cancelTimer": q.op.Id, "verif": q}
		}
		return nil
	}
	submit := func(op sOp) {
		switch op.K {
		case "make":
			q := &request{op: op, token: r.nextToken()}
			io.in <- msgFor(q)
		case "cancel":
			io.in <- msgFor(&request{op: op})
		case "pending":
			ts.Lock()
			var ids []string
			for id := range ts.Map {
				ids = append(ids, id)
			}
			ts.Unlock()
			sort.Strings(ids)
			r.rec(rtimers.Ev{Kind: "pending", IDs: ids})
		}
	}
	x.Go("requester", func() {
		for _, op := range sc.Req {
			submit(op)
			sched.Yield("after-" + op.K)
		}
	})
	x.GoDaemon("loop", func() {
		for {
			sched.WaitUntil("loop-recv", func() bool { return len(io.in) > 0 })
			msg := <-io.in
			var q *request
			if m, ok := msg.(map[string]interface{}); ok {
				if v, ok := m["verif"].(*request); ok {
					q = v
					delete(m, "verif")
				}
				if _, fired := m["token"]; fired && r.takeHandler() {
					for _, op := range sc.Handler {
						submit(op)
					}
				}
			}
			if q != nil && q.op.K == "make" {
				q.due = sched.NowNS() + q.op.D*1000000
				r.rec(rtimers.Ev{Kind: "add-begin", Id: q.op.Id, Token: q.token, Due: q.due})
			}
			var perr string
			if p, pm, where := vh.Trap(func() { _, err = c.ProcessMsg(ctx, msg) }); p {
				perr = "panic: " + pm + " at " + where
				r.addPanic(perr)
			}
			if q != nil {
				errText := ""
				if tm := c.Machines[TimersMachine]; tm != nil && tm.State != nil {
					if e, ok := tm.State.Bs["error"].(string); ok {
						errText = e
					}
				}
				switch q.op.K {
				case "make":
					ts.Lock()
					te, have := ts.Map[q.op.Id]
					accepted := false
					if have {
						if m, ok := te.Msg.(map[string]interface{}); ok {
							if f, ok := m["token"].(float64); ok && int(f) == q.token {
								accepted = true
							}
						}
					}
					ts.Unlock()
					e := ""
					if !accepted {
						e = "not installed"
						if errText != "" {
							e = errText
						}
					}
					r.rec(rtimers.Ev{Kind: "add", Id: q.op.Id, Token: q.token, Err: e, Due: q.due})
				case "cancel":
					r.rec(rtimers.Ev{Kind: "cancel", Id: q.op.Id, Err: errText})
				}
			}
			sched.Yield("loop-after")
		}
	})
	x.Run()
	cancel()
	x.Finish()
	return x, r
}

func sioScenarios(maxReq int, thorough bool) []sScenario {
	base := []sOp{{K: "make", Id: "1", D: 10}, {K: "make", Id: "1", D: 3600000}, {K: "make", Id: "2", D: 10}, {K: "cancel", Id: "1"}, {K: "cancel", Id: "2"}, {K: "pending"}}
	var seqs [][]sOp
	var rec func(cur []sOp)
	rec = func(cur []sOp) {
		if len(cur) > 0 {
			seqs = append(seqs, append([]sOp{}, cur...))
		}
		if len(cur) == maxReq {
			return
		}
		for _, o := range base {
			rec(append(cur, o))
		}
	}
	rec(nil)
	handlers := [][]sOp{nil, {{K: "make", Id: "1", D: 10}}, {{K: "cancel", Id: "1"}, {K: "make", Id: "1", D: 3600000}}, {{K: "pending"}}}
	if thorough {
		handlers = append(handlers, []sOp{{K: "make", Id: "2", D: 10}}, []sOp{{K: "cancel", Id: "2"}})
	}
	var out []sScenario
	for _, s := range seqs {
		if s[0].K != "make" {
			continue
		}
		for _, h := range handlers {
			out = append(out, sScenario{Req: s, Handler: h})
		}
	}
	return out
}

// C17sio explores the sio Timers through a real Crew whose loop the harness plays.
func C17sio(c *vh.Ctx) {
	bound := c.Pick(2, 3)
	race := os.Getenv("VERIF_RACE") == "1"
	if c.Replay != "" {
		var cs s17Case
		if c.LoadReplay(&cs) != nil {
			return
		}
		x, r := runSioTimers(cs.Scenario, cs.Choices, cs.Sizes)
		c.Eval()
		for _, v := range rtimers.Monitor(r.evs, !x.HorizonHit && x.Deadlock == "") {
			c.Violation("C17/sio/"+v[0], v[1], cs)
		}
		return
	}
	maxReq := c.Pick(2, 3)
	if race {
		maxReq, bound = 2, 2
	}
	scs := sioScenarios(maxReq, !c.Quick())
	c.Bound("sio_requests_max", maxReq)
	c.Bound("sio_deviations_max", bound)
	if c.Shard == 0 {
		c.Count("sio_scenarios", int64(len(scs)))
	}
	c.Rule("sio Timers through a real Crew: requests are messages to the timers machine ({makeTimer}/{cancelTimer}) queued by a requester thread; the harness plays Crew.Loop (receive, ProcessMsg); handler requests are queued while the first fired message is handled; same scenario alphabet, scheduler, virtual time and monitor as for mcrew; 'accepted' is read off the timers map after the request was processed (an add on an existing id that installs nothing counts as refused).")
	for i, sc := range scs {
		if !c.Mine(uint64(i)) {
			continue
		}
		if c.Expired() {
			return
		}
		c.R.States++
		seen := map[string]bool{}
		st := sched.Explore(bound, 200000, func(uint64) bool { return true }, true,
			func(p, pn []int) *sched.Exec {
				x, r := runSioTimers(sc, p, pn)
				x.UserData = r
				return x
			},
			func(x *sched.Exec, devs int) {
				c.Eval()
				c.Count("sched_fast_steps", int64(x.FastSteps))
				c.Count("sched_full_dumps", int64(x.FullDumps))
				r := x.UserData.(*sioRun)
				fired := false
				var sb strings.Builder
				for _, e := range r.evs {
					if e.Kind == "fire-begin" {
						fired = true
					}
					fmt.Fprintf(&sb, "%s:%s:%d:%s:%v;", e.Kind, e.Id, e.Token, e.Err, e.IDs)
				}
				if fired {
					c.Nontrivial()
				}
				c.Outcome("log", sb.String())
				vs := rtimers.Monitor(r.evs, !x.HorizonHit)
				for _, p := range r.panics {
					vs = append(vs, [2]string{"panic-in-ProcessMsg", p})
				}
				if x.Deadlock != "" {
					vs = append(vs, [2]string{"deadlock", x.Deadlock})
				}
				for _, v := range vs {
					key := "C17/sio/" + v[0]
					if seen[key] {
						c.R.ViolationKeys[key]++
						continue
					}
					cs, ns := sched.Choices(x.Trace)
					x2, r2 := runSioTimers(sc, cs, ns)
					again := false
					if x2.Nondet == "" {
						vs2 := rtimers.Monitor(r2.evs, !x2.HorizonHit)
						for _, p := range r2.panics {
							vs2 = append(vs2, [2]string{"panic-in-ProcessMsg", p})
						}
						if x2.Deadlock != "" {
							vs2 = append(vs2, [2]string{"deadlock", x2.Deadlock})
						}
						for _, v2 := range vs2 {
							if v2[0] == v[0] {
								again = true
							}
						}
					}
					if !again {
						c.Count("unreproduced", 1)
						c.NotExhaustive("a violation did not reproduce on replay; not reported")
						continue
					}
					seen[key] = true
					var log []string
					for _, e := range r.evs {
						log = append(log, e.String())
					}
					c.Violation(key, v[1]+" | scenario "+fmt.Sprint(sc.Req)+" handler "+fmt.Sprint(sc.Handler), s17Case{Scenario: sc, Choices: cs, Sizes: ns, Trace: sched.FormatTrace(x.Trace), Log: log})
				}
			})
		c.R.Traces += int64(st.Schedules)
		c.R.Transitions += int64(st.Transitions)
		c.Count("nondeterministic_subtrees", int64(st.Nondet))
		c.Count("stuck_executions", int64(st.Stuck))
		c.Count("horizons", int64(st.Horizons))
		c.Count("multi_event_steps", int64(st.MultiEvent))
		for _, n := range st.NondetNotes {
			c.Note("NONDET " + fmt.Sprint(sc.Req, sc.Handler) + ": " + n)
		}
		if st.Nondet > 0 || st.Stuck > 0 || st.Capped {
			c.NotExhaustive(fmt.Sprintf("exploration gaps: %d nondeterministic subtrees, %d stuck executions, capped=%v", st.Nondet, st.Stuck, st.Capped))
		}
		if c.WantSample() && i%5 == 2 {
			c.Sample(map[string]interface{}{"scenario": sc, "schedules": st.Schedules})
		}
	}
}
