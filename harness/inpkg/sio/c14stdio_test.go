package sio

import (
	"bytes"
	"context"
	"encoding/json"
	"fmt"
	"log"
	"os"
	"runtime"
	"strings"
	"sync"
	"time"

	"github.com/Comcast/sheens/core"
	"github.com/Comcast/sheens/crew"
	"github.com/Comcast/sheens/verifrt/vh"
)

// ---- C14stdio: the crew host as it is run (siostd): text lines on the input of the real sio.Stdio, the real
// Crew.Loop, results printed by Stdio's consumer.  Every line that is a message must be presented exactly once
// to each machine it addresses, whatever the lines look like (length, line ends, comments, junk in between).
// Reference: the same messages handed to Crew.ProcessMsg directly on a second crew (routing itself is judged by
// C14sio). ----

type stdioCase struct {
	Lines []string `json:"lines"` // line kinds, see stdioLine
	Echo  bool     `json:"echo,omitempty"`
}

// stdioLine renders line number i of the given kind (without its line end) and says what the host should make of
// it: msg != nil - a message; quit - the end of the input; neither - the line is to be skipped.
func stdioLine(kind string, i int) (text string, end string, msg interface{}, quit bool) {
	end = "\n"
	trail := fmt.Sprintf("L%d", i)
	mk := func(m map[string]interface{}, total int) string {
		js, _ := json.Marshal(m)
		if total > 0 && len(js)+1 < total {
			// pad so that the line, its line end included, is exactly total bytes long
			m["pad"] = ""
			js, _ = json.Marshal(m)
			m["pad"] = strings.Repeat("x", total-len(js)-1)
			js, _ = json.Marshal(m)
		}
		return string(js)
	}
	parse := func(s string) interface{} {
		var x interface{}
		if err := json.Unmarshal([]byte(s), &x); err != nil {
			panic(err)
		}
		return x
	}
	switch {
	case kind == "toA":
		text = mk(map[string]interface{}{"to": "a", "trail": trail, "n": 1}, 0)
	case kind == "toB":
		text = mk(map[string]interface{}{"to": "b", "trail": trail, "n": 1}, 0)
	case kind == "all":
		text = mk(map[string]interface{}{"trail": trail, "n": 1}, 0)
	case kind == "poison":
		// a message to all that leaves machine p with a binding no store can hold (the round's report then fails)
		text = mk(map[string]interface{}{"trail": trail, "n": 1, "poison": true}, 0)
	case kind == "list":
		text = mk(map[string]interface{}{"to": []interface{}{"b", "a", "zz"}, "trail": trail, "n": 0}, 0)
	case strings.HasPrefix(kind, "len="):
		var n int
		fmt.Sscanf(kind, "len=%d", &n)
		text = mk(map[string]interface{}{"to": "a", "trail": trail, "n": 1}, n)
	case kind == "crlf":
		text, end = mk(map[string]interface{}{"to": "a", "trail": trail, "n": 0}, 0), "\r\n"
	case kind == "indent":
		text = "  \t" + mk(map[string]interface{}{"to": "b", "trail": trail, "n": 0}, 0) + "  "
	case kind == "nonmap":
		text = "7"
	case kind == "comment":
		return `# {"to":"a","trail":"` + trail + `","n":0}`, end, nil, false
	case kind == "blank":
		return "", end, nil, false
	case kind == "junk":
		return `{"to":"a","trail":`, end, nil, false
	case kind == "quit":
		return "quit", end, nil, true
	case kind == "quitsp":
		return "  quit \t", end, nil, true
	case kind == "mk" || kind == "mkbig":
		var spec map[string]interface{}
		js, _ := json.Marshal(recorderSpec())
		json.Unmarshal(js, &spec)
		if kind == "mkbig" {
			spec["doc"] = strings.Repeat("A sizeable specification. ", 3000) // 78 kB
		}
		text = mk(map[string]interface{}{"to": "captain", "update": map[string]interface{}{"c": map[string]interface{}{
			"spec": map[string]interface{}{"inline": spec}, "state": map[string]interface{}{"node": "start", "bs": map[string]interface{}{"mode": "none"}}}}}, 0)
	default:
		panic("unknown line kind " + kind)
	}
	return text, end, parse(text), false
}

type stdioObs struct {
	panicked bool
	logs     map[string][]string
	emitted  []string
	results  int
	err      string
}

// stdioPoisonSpec: a recorder that, asked to, binds a value that cannot be serialised.
func stdioPoisonSpec() *core.Spec {
	return &core.Spec{Name: "poisonable", Nodes: map[string]*core.Node{
		"start": {Branches: &core.Branches{Type: "message", Branches: []*core.Branch{{Pattern: "?m", Target: "rec"}}}},
		"rec": {ActionSource: &core.ActionSource{Interpreter: "ecmascript", Source: `var m = _.bindings["?m"]; var log = _.bindings.log || []; log.push((m && m.trail) ? m.trail : "?");
if (m && m.poison) { return {log: log, bad: parseFloat("n/a")}; } return {log: log};`},
			Branches: &core.Branches{Branches: []*core.Branch{{Target: "start"}}}},
	}}
}

func stdioCrewSetup(c *Crew) error {
	ctx := context.Background()
	if err := c.SetMachine(ctx, "p", &crew.SpecSource{Inline: stdioPoisonSpec()}, &core.State{NodeName: "start", Bs: map[string]interface{}{}}); err != nil {
		return err
	}
	for _, m := range []recMachine{{Id: "a", Mode: "unrouted"}, {Id: "b", Mode: "routed", Target: "a"}} {
		st := &core.State{NodeName: "start", Bs: map[string]interface{}{"mode": m.Mode, "target": m.Target}}
		if err := c.SetMachine(ctx, m.Id, &crew.SpecSource{Inline: recorderSpec()}, st); err != nil {
			return err
		}
	}
	return nil
}

func stdioLogs(c *Crew) map[string][]string {
	logs := map[string][]string{}
	for _, id := range []string{"a", "b", "c", "p"} {
		if mm := c.Machines[id]; mm != nil && mm.State != nil {
			if l, ok := mm.State.Bs["log"].([]interface{}); ok {
				for _, x := range l {
					if t := fmt.Sprint(x); !strings.HasPrefix(t, stdioEnd) {
						logs[id] = append(logs[id], t)
					}
				}
			}
		}
	}
	return logs
}

func emittedTrail(m interface{}) string {
	if mm, ok := m.(map[string]interface{}); ok {
		if _, isCaptain := mm["update"]; isCaptain {
			return "<update>"
		}
		return fmt.Sprint(mm["trail"])
	}
	return fmt.Sprint(m)
}

// stdioDirect: the reference run - the messages handed to ProcessMsg one by one.
func stdioDirect(msgs []interface{}) stdioObs {
	var o stdioObs
	c, err := newTestCrew()
	if err != nil {
		o.err = err.Error()
		return o
	}
	if err := stdioCrewSetup(c); err != nil {
		o.err = err.Error()
		return o
	}
	for _, m := range msgs {
		r, err := c.ProcessMsg(context.Background(), m)
		if err != nil {
			continue // Crew.Loop logs the error and goes on
		}
		o.results++
		for _, batch := range r.Emitted {
			for _, e := range batch {
				o.emitted = append(o.emitted, emittedTrail(e))
			}
		}
	}
	o.logs = stdioLogs(c)
	return o
}

const stdioEnd = "END-OF-INPUT"

var stdioHorizon = 90 * time.Second

func init() {
	if os.Getenv("VERIF_DEBUG") != "" {
		stdioHorizon = 5 * time.Second
		f, _ := os.OpenFile("/tmp/siodbg.log", os.O_APPEND|os.O_CREATE|os.O_WRONLY, 0644)
		log.SetOutput(f)
	}
}

// sigWriter collects what Stdio prints and signals when the marker has been printed.
type sigWriter struct {
	mu   sync.Mutex
	buf  bytes.Buffer
	mark []byte
	seen chan struct{}
	done bool
}

func (w *sigWriter) Write(p []byte) (int, error) {
	w.mu.Lock()
	defer w.mu.Unlock()
	w.buf.Write(p)
	if !w.done && bytes.Contains(p, w.mark) && bytes.Contains(p, []byte("emit")) {
		w.done = true
		close(w.seen)
	}
	return len(p), nil
}

func (w *sigWriter) String() string {
	w.mu.Lock()
	defer w.mu.Unlock()
	return w.buf.String()
}

// stdioGoroutines counts the goroutines running one of Stdio.IO's two loops.
func stdioGoroutines() int {
	buf := make([]byte, 1<<20)
	n := runtime.Stack(buf, true)
	cnt := 0
	for _, blk := range bytes.Split(buf[:n], []byte("\n\n")) {
		if bytes.Contains(blk, []byte("(*Stdio).IO.func")) {
			cnt++
		}
	}
	return cnt
}

// stdioViaHost: the same lines as text on the input of a real Stdio, processed by the real Crew.Loop.
func stdioViaHost(text string, echo bool) stdioObs {
	return stdioViaHostWith(text, echo, stdioCrewSetup, "a")
}

// stdioViaHostWith: the crew is prepared by setup; endTo names the (recorder, emitting) machine that answers
// the end-of-input marker.
func stdioViaHostWith(text string, echo bool, setup func(*Crew) error, endTo string) stdioObs {
	var o stdioObs
	ctx, cancel := context.WithCancel(context.Background())
	defer cancel()
	s := NewStdio(false)
	out := &sigWriter{mark: []byte(stdioEnd), seen: make(chan struct{})}
	s.In, s.Out, s.EchoInput = strings.NewReader(text), out, echo
	c, err := NewCrew(ctx, &CrewConf{Id: "t", Ctl: &core.Control{Limit: 100}}, s)
	if err != nil {
		o.err = err.Error()
		return o
	}
	if err := s.Start(ctx); err != nil {
		o.err = err.Error()
		return o
	}
	if err := setup(c); err != nil {
		o.err = err.Error()
		return o
	}
	done := make(chan struct{})
	loopPanic := ""
	go func() {
		defer close(done)
		if p, pm, where := vh.Trap(func() { c.Loop(ctx) }); p {
			loopPanic = "panic in Crew.Loop: " + pm + " @" + where
		}
	}()
	// the end of the input: Stdio closes InputEOF (siostd waits for exactly that).  A reader that has gone away
	// without closing it is seen from the goroutine dump (deterministic); the horizon is for a reader that is stuck
	deadline := time.Now().Add(stdioHorizon)
	stalled := ""
WAIT:
	for {
		select {
		case <-s.InputEOF:
			break WAIT
		case <-done:
			o.err, o.panicked = loopPanic, true
			return o
		case <-time.After(2 * time.Millisecond):
		}
		if stdioGoroutines() < 2 {
			select {
			case <-s.InputEOF:
				break WAIT
			default:
			}
			stalled = "Stdio's input loop ended without reporting the end of the input (InputEOF never closed): the lines after that point are never read"
			break WAIT
		}
		if time.Now().After(deadline) {
			stalled = "Stdio's input loop neither finished reading the input nor reported its end within 90 s"
			break WAIT
		}
	}
	// let the loop and the consumer finish what they hold: one last message whose emission Stdio prints; once that
	// line is out, the loop has handed over its last result and is idle (it would otherwise block on a consumer
	// that has seen the cancellation), and everything before it has been printed
	{
		select {
		case <-done:
			o.err, o.panicked = loopPanic, true
			return o
		case c.in <- map[string]interface{}{"to": endTo, "trail": stdioEnd, "n": 1}:
			select {
			case <-done:
				o.err, o.panicked = loopPanic, true
				return o
			case <-out.seen:
			case <-time.After(stdioHorizon):
				o.err = "the result of the last message was never printed"
				if os.Getenv("VERIF_DEBUG") != "" {
					for id, m := range c.Machines {
						_, jerr := json.Marshal(m.State)
						keys := ""
						for k := range m.State.Bs {
							keys += k + " "
						}
						log.Printf("MACHINE %s node=%s keys=%s marshal=%v changed=%v", id, m.State.NodeName, keys, jerr, c.changed[id] != nil)
					}
					buf := make([]byte, 1<<16)
					o.err += string(buf[:runtime.Stack(buf, true)]) + "OUT:" + out.String()
				}
				return o
			}
		case <-time.After(stdioHorizon):
			o.err = "the crew loop stopped taking messages"
			return o
		}
	}
	cancel()
	<-done
	o.logs = stdioLogs(c)
	o.err = stalled
	if strings.HasPrefix(stalled, "Stdio's input loop neither") {
		return o // its goroutine is stuck: there is nothing to wait for, and the output is not ours to read
	}
	s.WG.Wait()
	for _, l := range strings.Split(out.String(), "\n") {
		if strings.Contains(l, stdioEnd) {
			continue
		}
		if strings.HasPrefix(l, "emit ") {
			rest := strings.SplitN(l, " ", 3)
			if len(rest) == 3 {
				var m interface{}
				if json.Unmarshal([]byte(rest[2]), &m) == nil {
					o.emitted = append(o.emitted, emittedTrail(m))
				} else {
					o.emitted = append(o.emitted, "<unreadable emit line>")
				}
			}
		}
	}
	return o
}

func stdioJudge(cs stdioCase) [][2]string {
	var sb strings.Builder
	var msgs []interface{}
	over := false
	for i, k := range cs.Lines {
		text, end, msg, quit := stdioLine(k, i)
		sb.WriteString(text)
		sb.WriteString(end)
		if over {
			continue
		}
		if quit {
			over = true
		} else if msg != nil {
			msgs = append(msgs, msg)
		}
	}
	want := stdioDirect(msgs)
	if want.err != "" {
		return [][2]string{{"<harness>", "reference run failed: " + want.err}}
	}
	var got stdioObs
	if p, pm, where := vh.Trap(func() { got = stdioViaHost(sb.String(), cs.Echo) }); p {
		return [][2]string{{"panic", pm + " @" + where}}
	}
	var out [][2]string
	if got.err != "" {
		out = append(out, [2]string{"input-stalled", fmt.Sprintf("lines %v: %s", cs.Lines, got.err)})
	}
	for _, id := range []string{"a", "b", "c", "p"} {
		g, w := got.logs[id], want.logs[id]
		if strings.Join(g, ",") != strings.Join(w, ",") {
			kind := "wrong-deliveries"
			if len(g) < len(w) {
				kind = "lost-delivery"
			} else if len(g) > len(w) {
				kind = "duplicate-or-stray-delivery"
			}
			out = append(out, [2]string{kind, fmt.Sprintf("input lines %v through sio.Stdio and Crew.Loop: machine %q received %v; the messages on those lines address it with %v", cs.Lines, id, g, w)})
		}
	}
	if multiset(got.emitted) != multiset(want.emitted) {
		out = append(out, [2]string{"emitted-not-reported-exactly-once", fmt.Sprintf("input lines %v: Stdio printed the emitted messages %v; the machines emitted %v", cs.Lines, got.emitted, want.emitted)})
	}
	return out
}

func C14stdio(c *vh.Ctx) {
	if c.Replay != "" {
		var cs stdioCase
		if c.LoadReplay(&cs) == nil {
			c.Eval()
			for _, v := range stdioJudge(cs) {
				c.Violation("C14/stdio/"+v[0], v[1], cs)
			}
		}
		return
	}
	kinds := []string{"toA", "toB", "all", "poison", "list", "len=4095", "len=4096", "len=4097", "len=8193", "len=65535", "len=65536", "len=65537", "len=300000",
		"crlf", "indent", "nonmap", "comment", "blank", "junk", "quit", "quitsp", "mk", "mkbig"}
	if !c.Quick() {
		kinds = append(kinds, "len=4094", "len=8192", "len=65534", "len=131072", "len=1048577")
	}
	maxLen := c.Pick(2, 3)
	c.Bound("stdio_line_kinds", len(kinds))
	c.Bound("stdio_lines_max", maxLen)
	c.Rule("sio host as it is run: every sequence of input lines up to the bound over the line kinds (messages to one machine / to all / to a list, a message to all that leaves one machine with a binding no store can hold (the crew's report for that round fails), lines whose length sits at and around the reader's buffer sizes (4 kB, 8 kB, 64 kB) and far beyond, CRLF line ends, indented lines, a non-map message, comments, blank lines, junk, quit, captain messages that create a machine from a small / a 78 kB inline specification) is written to the input of a real sio.Stdio and processed by the real Crew.Loop; per machine the sequence of received messages and the multiset of emitted messages Stdio prints must equal those of the same messages handed to Crew.ProcessMsg directly.")
	var idx uint64
	reported := map[string]bool{}
	var rec func(cur []string)
	rec = func(cur []string) {
		if len(cur) > 0 {
			idx++
			if c.Mine(idx) && !c.Expired() {
				for _, echo := range []bool{false, true} {
					if echo && len(cur) != 2 {
						continue
					}
					cs := stdioCase{Lines: append([]string{}, cur...), Echo: echo}
					c.Eval()
					c.R.Traces++
					vs := stdioJudge(cs)
					if len(vs) == 0 {
						c.Nontrivial()
					}
					for _, v := range vs {
						if v[0] == "<harness>" {
							c.NotExhaustive("C14stdio: " + v[1])
							continue
						}
						key := "C14/stdio/" + v[0]
						if reported[key] {
							c.R.ViolationKeys[key]++
							continue
						}
						reported[key] = true
						c.Violation(key, v[1], cs)
					}
				}
			}
		}
		if len(cur) == maxLen {
			return
		}
		for _, k := range kinds {
			if len(cur) > 0 && (cur[len(cur)-1] == "quit" || cur[len(cur)-1] == "quitsp") && len(cur)+1 < maxLen {
				continue // one line after a quit is enough to see that it is ignored
			}
			rec(append(cur, k))
		}
	}
	rec(nil)
}
