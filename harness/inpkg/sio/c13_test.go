package sio

import (
	"context"
	"encoding/json"
	"fmt"
	"os"
	"path/filepath"

	"github.com/Comcast/sheens/verifrt/ref/rspecs"
	"github.com/Comcast/sheens/verifrt/ref/rstep"
	"github.com/Comcast/sheens/verifrt/vh"
)

type c13sioCase struct {
	Spec    *rstep.ASpec `json:"spec"`
	Variant string       `json:"variant"`
}

// C13sio: the sio host's own loader.  One specification given inline, as a JSON file and as a YAML file
// (file:// URL), with patterns inline or as JSON text under patternSyntax json, must behave like the
// Go-structure rendering.
func C13sio(c *vh.Ctx) {
	dir := "/dev/shm"
	if st, err := os.Stat(dir); err != nil || !st.IsDir() {
		dir = os.TempDir()
	}
	dir = filepath.Join(dir, fmt.Sprintf("verif-c13sio-%d", os.Getpid()))
	os.MkdirAll(dir, 0o755)
	defer os.RemoveAll(dir)
	maxLen := c.Pick(1, 2)
	one := func(as *rstep.ASpec, variant string) {
		c.Eval()
		c.Nontrivial()
		base, err := as.Build()
		if err != nil {
			return // not a compilable specification as Go structures: nothing to compare with
		}
		want := rspecs.Trace(base, maxLen)
		jsonPats := variant == "json-file/json-syntax" || variant == "yaml-file/json-syntax" || variant == "inline/json-syntax"
		format := "json"
		if variant == "yaml-file" || variant == "yaml-file/json-syntax" {
			format = "yaml"
		}
		doc, ok := as.Doc(format, jsonPats)
		if !ok {
			return
		}
		var src interface{}
		switch variant {
		case "inline", "inline/json-syntax":
			src = map[string]interface{}{"inline": doc}
		case "json-file", "json-file/json-syntax":
			js, _ := json.Marshal(doc)
			f := filepath.Join(dir, "spec.json")
			os.WriteFile(f, js, 0o644)
			src = map[string]interface{}{"url": "file://" + f}
		default:
			f := filepath.Join(dir, "spec.yaml")
			os.WriteFile(f, []byte(rstep.YAML(doc)), 0o644)
			src = map[string]interface{}{"url": "file://" + f}
		}
		var got string
		var lerr error
		if p, pm, where := vh.Trap(func() {
			_, spec, err := ResolveSpecSource(context.Background(), src)
			if err != nil {
				lerr = err
				return
			}
			got = rspecs.Trace(spec, maxLen)
		}); p {
			c.Violation("C13/sio-loader-panic/"+variant, pm+" @"+where, c13sioCase{Spec: as, Variant: variant})
			return
		}
		if lerr != nil {
			c.Violation("C13/sio-loader/fails-in-this-representation/"+variant, fmt.Sprintf("the specification compiles as Go structures but sio's ResolveSpecSource fails for the %s rendering: %v", variant, lerr), c13sioCase{Spec: as, Variant: variant})
			return
		}
		if got != want {
			c.Violation("C13/sio-loader/behaves-differently/"+variant, fmt.Sprintf("loaded through sio's ResolveSpecSource (%s) the specification behaves differently from its Go-structure rendering", variant), c13sioCase{Spec: as, Variant: variant})
		}
	}
	variants := []string{"inline", "inline/json-syntax", "json-file", "json-file/json-syntax", "yaml-file", "yaml-file/json-syntax"}
	if c.Replay != "" {
		var cs c13sioCase
		if c.LoadReplay(&cs) == nil && cs.Spec != nil {
			one(cs.Spec, cs.Variant)
		}
		return
	}
	c.Rule("(sio host loader) every specification of a family (two branches with every ordered pair of 11 patterns of every JSON shape - map with variable, bare string, bare variable, strings that look like JSON literals, number, bool, array with a variable, null values) given to sio.ResolveSpecSource inline, as a JSON file and as a YAML file (file:// URL), with inline patterns and with JSON-text patterns under patternSyntax json: the complete behaviour tree over all message sequences up to the bound over 11 messages must equal that of the Go-structure rendering.")
	var idx uint64
	for _, as := range rspecs.Family() {
		for _, v := range variants {
			idx++
			if !c.Mine(idx) || c.Expired() {
				continue
			}
			one(as, v)
		}
	}
}
