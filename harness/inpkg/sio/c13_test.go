package sio

import (
	"context"
	"encoding/json"
	"fmt"
	"os"
	"path/filepath"
	"strings"

	"github.com/Comcast/sheens/verifrt/ref/rspecs"
	"github.com/Comcast/sheens/verifrt/ref/rstep"
	"github.com/Comcast/sheens/verifrt/vh"
)

type c13sioCase struct {
	Spec    *rstep.ASpec `json:"spec"`
	Variant string       `json:"variant"`
}

// C13sio: the sio host's own loader.  One specification given inline, as a JSON file and as a YAML file
// (file:// URL), with patterns inline or as JSON text under patternSyntax json, must behave like the
// Go-structure rendering.
func C13sio(c *vh.Ctx) {
	dir := "/dev/shm"
	if st, err := os.Stat(dir); err != nil || !st.IsDir() {
		dir = os.TempDir()
	}
	dir = filepath.Join(dir, fmt.Sprintf("verif-c13sio-%d", os.Getpid()))
	os.MkdirAll(dir, 0o755)
	defer os.RemoveAll(dir)
	maxLen := c.Pick(1, 2)
	one := func(as *rstep.ASpec, variant string) {
		c.Eval()
		c.Nontrivial()
		base, err := as.Build()
		if err != nil {
			return // not a compilable specification as Go structures: nothing to compare with
		}
		want := rspecs.Trace(base, maxLen)
		jsonPats := strings.HasSuffix(variant, "/json-syntax")
		format := "json"
		if strings.HasPrefix(variant, "yaml-file") {
			format = "yaml"
		}
		// what the file is called says nothing about what is in it
		fname := map[string]string{"json-file": "spec.json", "json-file-noext": "spec", "json-file-odd-ext": "door.spec", "yaml-file": "spec.yaml", "yaml-file-yml": "spec.yml", "yaml-file-noext": "spec"}[strings.TrimSuffix(variant, "/json-syntax")]
		doc, ok := as.Doc(format, jsonPats)
		if !ok {
			return
		}
		var src interface{}
		switch variant {
		case "inline", "inline/json-syntax":
			src = map[string]interface{}{"inline": doc}
		default:
			f := filepath.Join(dir, fname)
			if format == "json" {
				js, _ := json.Marshal(doc)
				os.WriteFile(f, js, 0o644)
			} else {
				os.WriteFile(f, []byte(rstep.YAML(doc)), 0o644)
			}
			src = map[string]interface{}{"url": "file://" + f}
		}
		var got string
		var lerr error
		if p, pm, where := vh.Trap(func() {
			_, spec, err := ResolveSpecSource(context.Background(), src)
			if err != nil {
				lerr = err
				return
			}
			got = rspecs.Trace(spec, maxLen)
		}); p {
			c.Violation("C13/sio-loader-panic/"+variant, pm+" @"+where, c13sioCase{Spec: as, Variant: variant})
			return
		}
		if lerr != nil {
			c.Violation("C13/sio-loader/fails-in-this-representation/"+variant, fmt.Sprintf("the specification compiles as Go structures but sio's ResolveSpecSource fails for the %s rendering: %v", variant, lerr), c13sioCase{Spec: as, Variant: variant})
			return
		}
		if got != want {
			c.Violation("C13/sio-loader/behaves-differently/"+variant, fmt.Sprintf("loaded through sio's ResolveSpecSource (%s) the specification behaves differently from its Go-structure rendering", variant), c13sioCase{Spec: as, Variant: variant})
		}
	}
	variants := []string{"inline", "inline/json-syntax", "json-file", "json-file/json-syntax", "yaml-file", "yaml-file/json-syntax",
		"json-file-noext/json-syntax", "json-file-odd-ext/json-syntax", "json-file-noext", "yaml-file-yml/json-syntax", "yaml-file-noext/json-syntax", "yaml-file-noext"}
	if c.Replay != "" {
		var rc c13rCase
		if c.LoadReplay(&rc) == nil && rc.Options != "" {
			c13sioRestart(c, nil)
			return
		}
		var cs c13sioCase
		if c.LoadReplay(&cs) == nil && cs.Spec != nil {
			one(cs.Spec, cs.Variant)
		}
		return
	}
	c.Rule("(sio host loader) every specification of a family (two branches with every ordered pair of 11 patterns of every JSON shape - map with variable, bare string, bare variable, strings that look like JSON literals, number, bool, array with a variable, null values) given to sio.ResolveSpecSource inline, as a JSON file and as a YAML file (file:// URL; files called spec.json / spec / door.spec and spec.yaml / spec.yml / spec), with inline patterns and with JSON-text patterns under patternSyntax json: the complete behaviour tree over all message sequences up to the bound over 11 messages must equal that of the Go-structure rendering. Through the state file: a machine created from an inline specification that uses the spec-level settings (plain, patternSyntax json, a custom errorNode, actionErrorBranches, actionErrorNode, several at once), in a crew whose host (sio.Stdio) writes its state file after every message and restarts from it at every choice of message boundaries out of 7: the emissions for 5 messages (matching, failing actions, again) equal those of a crew that never restarts.")
	var idx uint64
	c13sioRestart(c, &idx)
	for _, as := range rspecs.Family() {
		for _, v := range variants {
			idx++
			if !c.Mine(idx) || c.Expired() {
				continue
			}
			one(as, v)
		}
	}
}
