package sio

import (
	"context"
	"encoding/json"
	"fmt"
	"strings"

	"github.com/Comcast/sheens/core"
	"github.com/Comcast/sheens/crew"
	"github.com/Comcast/sheens/verifrt/vh"
)

// ---- C07sio: hostile messages - for machines, for the captain, for the timers machine - as they reach the sio host:
// lines on the input of the real sio.Stdio, processed by the real Crew.Loop.  Nothing may crash the host; after the
// lines the crew must still be in service. ----

const c07ActorJS = `
var d = _.bindings["?do"];
delete _.bindings["?do"];
_.out({did: d});
switch (d) {
case "throw": throw "no";
case "throwobj": throw {toString: function() { throw "worse"; }};
case "null": return null;
case "scalar": return 7;
case "array": return [1];
case "nan": _.bindings.x = 0/0; return _.bindings;
case "fn": _.bindings.f = function() {}; return _.bindings;
case "emitfn": _.out(function() {}); return _.bindings;
case "emitnan": _.out({x: 0/0}); return _.bindings;
case "cyclic": var o = {}; o.o = o; _.bindings.o = o; return _.bindings;
case "emitcyclic": var o = {}; o.o = o; _.out(o); return _.bindings;
case "tocaptain": _.out({to: "captain", update: {y: null}}); _.out({to: "captain", "delete": 7}); return _.bindings;
case "totimers": _.out({to: "timers", makeTimer: null}); _.out({to: "timers", cancelTimer: {}}); return _.bindings;
}
_.bindings.n = (_.bindings.n || 0) + 1;
return _.bindings;
`

func c07ActorSpec() *core.Spec {
	return &core.Spec{Name: "actor", Nodes: map[string]*core.Node{
		"start": {Branches: &core.Branches{Type: "message", Branches: []*core.Branch{{Pattern: map[string]interface{}{"do": "?do"}, Target: "act"}, {Pattern: "?other", Target: "start"}}}},
		"act": {ActionSource: &core.ActionSource{Interpreter: "ecmascript", Source: c07ActorJS},
			Branches: &core.Branches{Branches: []*core.Branch{{Target: "start"}}}},
	}}
}

type c07sCase struct {
	Lines []string `json:"lines"`
}

func c07sSetup(c *Crew) error {
	ctx := context.Background()
	if err := c.SetMachine(ctx, "a", &crew.SpecSource{Inline: c07ActorSpec()}, &core.State{NodeName: "start", Bs: map[string]interface{}{}}); err != nil {
		return err
	}
	return c.SetMachine(ctx, "zz-end", &crew.SpecSource{Inline: recorderSpec()}, &core.State{NodeName: "start", Bs: map[string]interface{}{"mode": "routed", "target": "zz-end"}})
}

func c07sJudge(cs c07sCase) [][2]string {
	var got stdioObs
	text := strings.Join(cs.Lines, "\n") + "\n"
	if p, pm, where := vh.Trap(func() { got = stdioViaHostWith(text, false, c07sSetup, "zz-end") }); p {
		return [][2]string{{"panic/" + where, fmt.Sprintf("lines %.300q: panic: %s", cs.Lines, pm)}}
	}
	if got.panicked {
		w := got.err
		if i := strings.LastIndex(w, " @"); i >= 0 {
			w = w[i+2:]
		}
		return [][2]string{{"panic/" + w, fmt.Sprintf("lines %.300q: %s", cs.Lines, got.err)}}
	}
	if got.err != "" {
		return [][2]string{{"host-out-of-service", fmt.Sprintf("lines %.300q: %s", cs.Lines, got.err)}}
	}
	return nil
}

func c07sLines() []string {
	var actor, rec interface{}
	js, _ := json.Marshal(c07ActorSpec())
	json.Unmarshal(js, &actor)
	js, _ = json.Marshal(recorderSpec())
	json.Unmarshal(js, &rec)
	j := func(x interface{}) string { b, _ := json.Marshal(x); return string(b) }
	upd := func(x interface{}) string { return j(map[string]interface{}{"to": "captain", "update": x}) }
	m := func(kv ...interface{}) map[string]interface{} {
		out := map[string]interface{}{}
		for i := 0; i+1 < len(kv); i += 2 {
			out[kv[i].(string)] = kv[i+1]
		}
		return out
	}
	goodState := m("node", "start", "bs", m())
	lines := []string{
		// message shapes
		`null`, `7`, `"text"`, `[1,[2]]`, `{}`, `{"to":"a"}`, `{"to":7,"do":"ok"}`, `{"to":["a",7,null],"do":"ok"}`, `{"to":null}`, `{"to":{}}`, `{"to":"nobody","do":"ok"}`,
		strings.Repeat(`{"d":`, 200) + `1` + strings.Repeat(`}`, 200), `{"do":{"not":"a string"}}`, `{"do":null}`,
		// captain requests
		`{"to":"captain"}`, `{"to":"captain","update":null}`, `{"to":"captain","update":7}`, `{"to":"captain","update":[1]}`, `{"to":"captain","update":{}}`,
		upd(m("x", nil)), upd(m("x", 7)), upd(m("x", m())), upd(m("x", m("spec", nil))), upd(m("x", m("spec", 7))), upd(m("x", m("spec", m()))), upd(m("x", m("spec", m("inline", nil)))),
		upd(m("x", m("spec", m("inline", 7)))), upd(m("x", m("spec", m("inline", m("nodes", m("start", nil)))))), upd(m("x", m("spec", m("inline", m("nodes", m("start", m("branching", m("branches", []interface{}{nil})))))))),
		upd(m("x", m("spec", m("inline", m("nodes", m("start", m("action", m("interpreter", "cobol", "source", "x")))))))), upd(m("x", m("spec", m("name", "nowhere")))), upd(m("x", m("spec", m("source", "not a spec")))),
		upd(m("x", m("spec", m("inline", actor)))), upd(m("x", m("spec", m("inline", actor), "state", nil))), upd(m("x", m("spec", m("inline", actor), "state", 7))), upd(m("x", m("spec", m("inline", actor), "state", m()))),
		upd(m("x", m("spec", m("inline", actor), "state", m("node", "start")))), upd(m("x", m("spec", m("inline", actor), "state", m("node", "start", "bs", nil)))), upd(m("x", m("spec", m("inline", actor), "state", m("node", "start", "bs", 7)))),
		upd(m("x", m("spec", m("inline", actor), "state", m("node", "nowhere", "bs", m())))), upd(m("x", m("spec", m("inline", actor), "state", m("bs", m("k!", 1))))), upd(m("x", m("state", goodState))), upd(m("a", m("state", m("node", "act")))),
		upd(m("a", m("state", nil))), upd(m("a", m("spec", nil))), upd(m("a", nil)), upd(m("", m("spec", m("inline", actor)))),
		upd(m("captain", m("spec", m("inline", actor)))), upd(m("captain", nil)), upd(m("captain", m("state", m("node", "nowhere")))), upd(m("captain", m("state", m("node", "do")))), upd(m("captain", m("state", m("node", "do", "bs", m("?op", 7))))),
		upd(m("timers", nil)), upd(m("timers", m("state", nil))), upd(m("timers", m("state", m("node", "start", "bs", m("timers", 7))))), upd(m("timers", m("state", m("node", "start", "bs", m("timers", m("t", nil)))))),
		upd(m("timers", m("state", m("node", "start", "bs", m("timers", m("t", m("Id", "t", "At", "not a time", "Msg", nil))))))), upd(m("timers", m("spec", m("inline", actor)))),
		// a timers state of which one entry is fine and another is of the wrong type; specification sources that point nowhere
		upd(m("timers", m("state", m("node", "start", "bs", m("timers", m("a", m("Id", "a", "At", "2031-01-01T00:00:00Z", "Msg", m()), "t", 7)))))),
		upd(m("timers", m("state", m("node", "start", "bs", m("timers", m("a", m("Id", "a", "At", "2031-01-01T00:00:00Z", "Msg", m()), "t", m("Id", "t", "At", 7))))))),
		upd(m("timers", m("state", m("node", "start", "bs", m("timers", m("t", m("Id", "t", "At", "2031-01-01T00:00:00Z", "Msg", m()), "u", "text")))))),
		upd(m("x", m("spec", m("url", "file:///nonexistent/spec.yaml")))), upd(m("x", m("spec", m("url", "file:///dev/null")))), upd(m("x", m("spec", m("url", "nonsense://x")))), upd(m("x", m("spec", m("url", 7)))),
		upd(m("x", m("spec", m("source", "")))), upd(m("x", m("spec", m("name", "")))),
		`{"to":"captain","delete":null}`, `{"to":"captain","delete":7}`, `{"to":"captain","delete":"a"}`, `{"to":"captain","delete":[7,null,"nobody"]}`, `{"to":"captain","delete":["a","a"]}`, `{"to":"captain","delete":["captain"]}`, `{"to":"captain","delete":["timers"]}`,
		j(m("to", "captain", "update", m("x", m("spec", m("inline", actor))), "delete", []interface{}{"x"})),
		// timers requests
		`{"to":"timers"}`, `{"to":"timers","makeTimer":null}`, `{"to":"timers","makeTimer":7}`, `{"to":"timers","makeTimer":{}}`, `{"to":"timers","makeTimer":{"id":7,"in":"1h","msg":null}}`, `{"to":"timers","makeTimer":{"id":"t","in":7,"msg":{}}}`,
		`{"to":"timers","makeTimer":{"id":"t","in":"never","msg":{}}}`, `{"to":"timers","makeTimer":{"id":"t","in":"1h"}}`, `{"to":"timers","makeTimer":{"id":"t","in":"1h","msg":{"to":"a","do":"ok"}}}`,
		`{"to":"timers","cancelTimer":null}`, `{"to":"timers","cancelTimer":7}`, `{"to":"timers","cancelTimer":"nobody"}`, `{"to":"timers","cancelTimer":"t"}`, `{"to":"timers","cancelTimer":["t"]}`,
	}
	for _, b := range []string{"ok", "throw", "throwobj", "null", "scalar", "array", "nan", "fn", "emitfn", "emitnan", "cyclic", "emitcyclic", "tocaptain", "totimers"} {
		lines = append(lines, `{"do":"`+b+`"}`, `{"to":"a","do":"`+b+`"}`)
	}
	_ = rec
	return lines
}

func C07sio(c *vh.Ctx) {
	one := func(cs c07sCase) {
		c.InFlight(cs)
		c.Eval()
		vs := c07sJudge(cs)
		if len(vs) == 0 {
			c.Nontrivial()
		}
		for _, v := range vs {
			c.Violation("C07/sio/"+v[0], v[1], cs)
		}
	}
	if c.Replay != "" {
		var cs c07sCase
		if c.LoadReplay(&cs) == nil {
			one(cs)
		}
		return
	}
	lines := c07sLines()
	c.Bound("sio_line_kinds", len(lines))
	c.Bound("sio_lines_max", 2)
	c.Rule("(sio host) every line of the vocabulary (messages of every JSON shape and addressing; captain requests with null / scalar / empty / half-given machine descriptions, specifications that are null, scalars, hold null nodes or null branches or name an unknown interpreter, states that are null, scalars, lack a node or bindings, name unknown nodes, requests that touch the captain and the timers machine themselves, deletions of every shape; timers requests with null / scalar / incomplete descriptions; one message per action behaviour: throwing, throwing a hostile object, returning null / a scalar / an array, binding or emitting what cannot be serialised incl. cyclic objects, emitting malformed requests to the captain and the timers) alone and followed by every other line [quick: followed by an ordinary message, a state replacement and each action behaviour], written to the input of a real sio.Stdio and processed by the real Crew.Loop, which runs under a panic trap. Oracle: no panic, no worker death (attributed to the case in flight), the input is read to its end, and a last message to a bystander machine is processed and its emission printed (the crew is still in service).")
	var seconds []string
	if c.Quick() {
		for _, l := range lines {
			if strings.Contains(l, `"do":"`) && !strings.Contains(l, `"to":"a"`) || strings.Contains(l, `"node":"act"`) || strings.Contains(l, `"cancelTimer":"t"`) || strings.Contains(l, `"cancelTimer":"nobody"`) {
				seconds = append(seconds, l)
			}
		}
	} else {
		seconds = lines
	}
	var idx uint64
	for _, l1 := range lines {
		idx++
		if c.Mine(idx) && !c.Expired() {
			one(c07sCase{Lines: []string{l1}})
		}
		for _, l2 := range seconds {
			idx++
			if c.Mine(idx) && !c.Expired() {
				one(c07sCase{Lines: []string{l1, l2}})
			}
		}
	}
}
