package sio

import (
	"context"
	"fmt"
	"strings"

	"github.com/Comcast/sheens/core"
	"github.com/Comcast/sheens/crew"
	"github.com/Comcast/sheens/verifrt/ref/rstep"
	"github.com/Comcast/sheens/verifrt/vh"
)

// ---- C18sio: permanent bindings as a crew's user sees them: whatever the host does with a machine - create it, give it
// a new specification, a specification that carries the (documented, optional) boot and toob sources, route messages
// to it - and whatever those sources and the actions return, the machine's permanent bindings stay. ----

var c18Sources = map[string]string{
	"none":      "",
	"null":      "return null;",
	"nothing":   "var x = 1;",
	"empty":     "return {};",
	"delete":    `delete _.bindings["k!"]; delete _.bindings["cfg!"]; return _.bindings;`,
	"overwrite": `_.bindings["k!"] = "other"; if (_.bindings["cfg!"]) { _.bindings["cfg!"].a = "changed"; } return _.bindings;`,
	"fresh":     `return {"k!": "mine", z: 1};`,
	"throw":     `delete _.bindings["k!"]; throw "no";`,
	"scalar":    "return 7;",
}

func c18Spec(boot, act string) *core.Spec {
	s := &core.Spec{Name: "perm", Nodes: map[string]*core.Node{
		"start": {Branches: &core.Branches{Type: "message", Branches: []*core.Branch{{Pattern: map[string]interface{}{"go": "?g"}, Target: "act"}}}},
		"act":   {ActionSource: &core.ActionSource{Interpreter: "ecmascript", Source: c18Sources[act]}, Branches: &core.Branches{Branches: []*core.Branch{{Target: "start"}}}},
	}}
	if act == "none" {
		s.Nodes["act"].ActionSource = nil
	}
	if boot != "none" {
		s.BootSource = &core.ActionSource{Interpreter: "ecmascript", Source: c18Sources[boot]}
		s.ToobSource = &core.ActionSource{Interpreter: "ecmascript", Source: c18Sources[boot]}
	}
	return s
}

type c18sCase struct {
	Boot string   `json:"boot"`
	Act  string   `json:"act"`
	Ops  []string `json:"ops"` // set | respec | captain | go
}

func c18sRun(cs c18sCase) [][2]string {
	c, err := newTestCrew()
	if err != nil {
		return [][2]string{{"<harness>", err.Error()}}
	}
	ctx := context.Background()
	perm := map[string]interface{}{"k!": 1.0, "cfg!": map[string]interface{}{"a": []interface{}{1.0, map[string]interface{}{"b": nil}}}}
	state := func() *core.State {
		return &core.State{NodeName: "start", Bs: map[string]interface{}{"k!": 1.0, "cfg!": map[string]interface{}{"a": []interface{}{1.0, map[string]interface{}{"b": nil}}}, "n": 1.0}}
	}
	check := func(after string) [][2]string {
		m := c.Machines["m"]
		if m == nil || m.State == nil {
			return nil
		}
		for k, v := range perm {
			got, have := m.State.Bs[k]
			if !have {
				return [][2]string{{"permanent-binding-lost/boot=" + cs.Boot + "/act=" + cs.Act, fmt.Sprintf("%+v: after %q the machine's bindings are %s: permanent binding %s is gone", cs, after, rstep.Canon(map[string]interface{}(m.State.Bs)), k)}}
			}
			if rstep.Canon(got) != rstep.Canon(v) {
				return [][2]string{{"permanent-binding-changed/boot=" + cs.Boot + "/act=" + cs.Act, fmt.Sprintf("%+v: after %q permanent binding %s is %s, was %s", cs, after, k, rstep.Canon(got), rstep.Canon(v))}}
			}
		}
		return nil
	}
	for i, op := range cs.Ops {
		var oerr error
		p, pm, where := vh.Trap(func() {
			switch op {
			case "set":
				oerr = c.SetMachine(ctx, "m", &crew.SpecSource{Inline: c18Spec(cs.Boot, cs.Act)}, state())
			case "respec":
				oerr = c.SetMachine(ctx, "m", &crew.SpecSource{Inline: c18Spec(cs.Boot, cs.Act)}, nil)
			case "captain":
				var spec interface{} = c18Spec(cs.Boot, cs.Act)
				_, oerr = c.ProcessMsg(ctx, map[string]interface{}{"to": "captain", "update": map[string]interface{}{"m": map[string]interface{}{"spec": map[string]interface{}{"inline": spec}}}})
			case "go":
				_, oerr = c.ProcessMsg(ctx, map[string]interface{}{"to": "m", "go": 1.0})
			}
		})
		if p {
			return [][2]string{{"panic/" + where, pm}}
		}
		_ = oerr
		if vs := check(strings.Join(cs.Ops[:i+1], ",")); vs != nil {
			return vs
		}
	}
	return nil
}

func C18sio(c *vh.Ctx) {
	one := func(cs c18sCase) {
		c.Eval()
		vs := c18sRun(cs)
		if len(vs) == 0 {
			c.Nontrivial()
		}
		for _, v := range vs {
			if v[0] == "<harness>" {
				c.NotExhaustive("C18sio: " + v[1])
				continue
			}
			c.Violation("C18/sio/"+v[0], v[1], cs)
		}
	}
	if c.Replay != "" {
		var cs c18sCase
		if c.LoadReplay(&cs) == nil {
			one(cs)
		}
		return
	}
	c.Rule("(sio host) a machine with permanent bindings (a scalar and a structured one) whose specification carries boot and toob sources and an action, each of {none, returns null, returns nothing, returns {}, deletes the permanent bindings, overwrites them, returns fresh bindings, deletes and throws, returns a scalar}; the host creates the machine, gives it the specification again (directly and through the captain) and routes messages to it, in every order of up to 3 operations after the creation: after every operation the machine's permanent bindings are present and unchanged.")
	var idx uint64
	names := []string{"none", "null", "nothing", "empty", "delete", "overwrite", "fresh", "throw", "scalar"}
	ops := []string{"respec", "captain", "go"}
	var seqs [][]string
	var rec func(cur []string)
	rec = func(cur []string) {
		seqs = append(seqs, append([]string{"set"}, cur...))
		if len(cur) == 3 {
			return
		}
		for _, o := range ops {
			rec(append(cur, o))
		}
	}
	rec(nil)
	for _, boot := range names {
		for _, act := range names {
			for _, sq := range seqs {
				idx++
				if c.Mine(idx) && !c.Expired() {
					one(c18sCase{Boot: boot, Act: act, Ops: sq})
				}
			}
		}
	}
}
