package sio

import (
	"context"
	"fmt"
	"strings"

	"github.com/Comcast/sheens/core"
	"github.com/Comcast/sheens/crew"
	"github.com/Comcast/sheens/verifrt/vh"
)

// ---- C05sio: walk accounting as a crew's user sees it: one submitted message starts a cascade of emitted messages,
// each of which is fed back; the machine consumes every one of them, once, in the order they were emitted. ----

func c05CountdownSpec(fan int) *core.Spec {
	src := fmt.Sprintf(`var n = _.bindings["?n"]; var order = _.bindings.order || []; order.push(n);
if (n > 0) { for (var i = 0; i < %d; i++) { _.out({countdown: n - 1, lane: i}); } }
return {order: order};`, fan)
	return &core.Spec{Name: "countdown", Nodes: map[string]*core.Node{
		"start": {Branches: &core.Branches{Type: "message", Branches: []*core.Branch{{Pattern: map[string]interface{}{"countdown": "?n"}, Target: "act"}}}},
		"act":   {ActionSource: &core.ActionSource{Interpreter: "ecmascript", Source: src}, Branches: &core.Branches{Branches: []*core.Branch{{Target: "start"}}}},
	}}
}

type c05sCase struct {
	N        int  `json:"n"`
	Fan      int  `json:"fan"`      // messages emitted per step (1: a chain; 2: a tree)
	Machines int  `json:"machines"` // how many machines listen
	Limit    int  `json:"limit"`
	Addr     bool `json:"addressed"` // the emitted messages carry no target (all machines) / the first message is addressed to m0
}

func c05sRun(cs c05sCase) [][2]string {
	io := &sioCouplings{in: make(chan interface{}, 64), out: make(chan *Result, 64)}
	c, err := NewCrew(context.Background(), &CrewConf{Id: "t", Ctl: &core.Control{Limit: cs.Limit}}, io)
	if err != nil {
		return [][2]string{{"<harness>", err.Error()}}
	}
	ctx := context.Background()
	for i := 0; i < cs.Machines; i++ {
		if err := c.SetMachine(ctx, fmt.Sprintf("m%d", i), &crew.SpecSource{Inline: c05CountdownSpec(cs.Fan)}, &core.State{NodeName: "start", Bs: map[string]interface{}{}}); err != nil {
			return [][2]string{{"<harness>", err.Error()}}
		}
	}
	var r *Result
	first := map[string]interface{}{"countdown": float64(cs.N)}
	if p, pm, where := vh.Trap(func() { r, err = c.ProcessMsg(ctx, first) }); p {
		return [][2]string{{"panic/" + where, pm}}
	}
	if err != nil {
		return [][2]string{{"processing-failed", err.Error()}}
	}
	// reference: generation g holds (fan*machines)^g messages with value N-g, every machine consumes all of them
	var want []string
	per := 1
	for g := 0; g <= cs.N; g++ {
		for k := 0; k < per; k++ {
			want = append(want, fmt.Sprint(cs.N-g))
		}
		per *= cs.Fan * cs.Machines
		if per > 100000 {
			return [][2]string{{"<harness>", "case too big"}}
		}
	}
	var out [][2]string
	for i := 0; i < cs.Machines; i++ {
		mid := fmt.Sprintf("m%d", i)
		var got []string
		if mm := c.Machines[mid]; mm != nil && mm.State != nil {
			if l, ok := mm.State.Bs["order"].([]interface{}); ok {
				for _, x := range l {
					got = append(got, fmt.Sprint(x))
				}
			}
		}
		if strings.Join(got, ",") != strings.Join(want, ",") {
			kind := "cascade-message-not-consumed"
			if len(got) > len(want) {
				kind = "cascade-message-consumed-twice"
			} else if len(got) == len(want) {
				kind = "cascade-consumed-out-of-order"
			}
			out = append(out, [2]string{kind, fmt.Sprintf("%+v: machine %s consumed %d messages %s; the cascade holds %d: %s", cs, mid, len(got), clipList(got), len(want), clipList(want))})
			break
		}
	}
	emitted := 0
	for _, b := range r.Emitted {
		emitted += len(b)
	}
	if wantEm := (len(want) - countTail(want, "0")) * cs.Fan * cs.Machines; emitted != wantEm && len(out) == 0 {
		out = append(out, [2]string{"cascade-emissions-misreported", fmt.Sprintf("%+v: Result.Emitted holds %d messages; the machines emitted %d", cs, emitted, wantEm)})
	}
	return out
}

func countTail(xs []string, v string) int {
	n := 0
	for _, x := range xs {
		if x == v {
			n++
		}
	}
	return n
}

func clipList(xs []string) string {
	if len(xs) > 24 {
		return "[" + strings.Join(xs[:12], ",") + ",...," + strings.Join(xs[len(xs)-8:], ",") + "]"
	}
	return "[" + strings.Join(xs, ",") + "]"
}

func C05sio(c *vh.Ctx) {
	one := func(cs c05sCase) {
		c.Eval()
		c.R.States++
		vs := c05sRun(cs)
		if len(vs) == 0 {
			c.Nontrivial()
		}
		for _, v := range vs {
			if v[0] == "<harness>" {
				c.NotExhaustive("C05sio: " + v[1])
				continue
			}
			c.Violation("C05/sio/"+v[0], v[1], cs)
		}
	}
	if c.Replay != "" {
		var cs c05sCase
		if c.LoadReplay(&cs) == nil {
			one(cs)
		}
		return
	}
	c.Rule("(sio host) a machine that, given {countdown:n}, records n and emits {countdown:n-1} (once, or twice: a tree) - 1 or 2 such machines in a crew, the first message submitted through Crew.ProcessMsg: for every n from 0 to 140 (chains) / 0 to 7 (trees) and step limits 100 / 3 each machine's record must be the whole cascade, generation by generation, every message once, and Result.Emitted must hold every emitted message.")
	var idx uint64
	for _, lim := range []int{100, 3} {
		for n := 0; n <= 140; n++ {
			idx++
			if c.Mine(idx) && !c.Expired() {
				one(c05sCase{N: n, Fan: 1, Machines: 1, Limit: lim})
			}
		}
		for n := 0; n <= 7; n++ {
			for _, fm := range [][2]int{{2, 1}, {1, 2}, {2, 2}} {
				if fm[0]*fm[1] == 4 && n > 5 {
					continue
				}
				idx++
				if c.Mine(idx) && !c.Expired() {
					one(c05sCase{N: n, Fan: fm[0], Machines: fm[1], Limit: lim})
				}
			}
		}
	}
}

// ---- C10sio: the step properties a crew hands to scripts belong to the crew; a script that writes into everything
// it can reach through _.props changes nothing for the next execution, for the other machines, or for the host. ----

const c10Scribble = `function scribble(o, depth) {
  if (!o || typeof o != "object" || depth > 5) { return; }
  var ks = Object.keys(o);
  for (var i = 0; i < ks.length; i++) { var v = o[ks[i]]; if (v && typeof v == "object") { scribble(v, depth + 1); } try { o[ks[i]] = "trashed"; } catch (e) {} }
  try { o.added = "trashed"; } catch (e) {}
  if (typeof o.push == "function") { try { o.push("trashed"); } catch (e) {} }
}
scribble(_.props, 0);`

const c10Look = `function canon(o) {
  if (o === null || typeof o != "object") { return JSON.stringify(o); }
  if (Array.isArray(o) || typeof o.length == "number") { var a = []; for (var i = 0; i < o.length; i++) { a.push(canon(o[i])); } return "[" + a.join(",") + "]"; }
  return "{" + Object.keys(o).sort().map(function(k) { return JSON.stringify(k) + ":" + canon(o[k]); }).join(",") + "}";
}
var seen = canon(_.props); var log = _.bindings.log || []; log.push(seen);`

func c10Spec(guard, action string) *core.Spec {
	b := &core.Branch{Pattern: "?m", Target: "act"}
	if guard != "" {
		b.GuardSource = &core.ActionSource{Interpreter: "ecmascript", Source: guard + " return _.bindings;"}
	}
	return &core.Spec{Name: "props", Nodes: map[string]*core.Node{
		"start": {Branches: &core.Branches{Type: "message", Branches: []*core.Branch{b}}},
		"act":   {ActionSource: &core.ActionSource{Interpreter: "ecmascript", Source: action}, Branches: &core.Branches{Branches: []*core.Branch{{Target: "start"}}}},
	}}
}

type c10sCase struct {
	To      interface{} `json:"to"`      // routing target of the message ("<absent>" for none)
	Where   string      `json:"where"`   // the scribbling script is a's action | a's guard | b's own guard
	Repeats int         `json:"repeats"` // how many times the message is sent
}

// c10sObserve runs the case with the scribbler in place (or a harmless script instead) and returns what the probe
// machine b saw and which machines received the message.
func c10sObserve(cs c10sCase, scribble bool) (string, string) {
	io := &sioCouplings{in: make(chan interface{}, 64), out: make(chan *Result, 64)}
	c, err := NewCrew(context.Background(), &CrewConf{Id: "t", Ctl: &core.Control{Limit: 100}}, io)
	if err != nil {
		return "", "<harness> " + err.Error()
	}
	ctx := context.Background()
	bad := "var nothing = 0;"
	if scribble {
		bad = c10Scribble
	}
	count := `var n = (_.bindings.n || 0) + 1;`
	specs := map[string]*core.Spec{
		"a": c10Spec("", bad+count+" return {n: n};"),
		"b": c10Spec("", c10Look+" return {log: log};"),
	}
	switch cs.Where {
	case "a-guard":
		specs["a"] = c10Spec(bad, count+" return {n: n};")
	case "b-guard":
		specs["a"] = c10Spec("", count+" return {n: n};")
		specs["b"] = c10Spec(bad, c10Look+" return {log: log};")
	}
	for _, mid := range []string{"a", "b"} {
		if err := c.SetMachine(ctx, mid, &crew.SpecSource{Inline: specs[mid]}, &core.State{NodeName: "start", Bs: map[string]interface{}{}}); err != nil {
			return "", "<harness> " + err.Error()
		}
	}
	msg := map[string]interface{}{"hello": 1.0}
	if s, ok := cs.To.(string); !ok || s != "<absent>" {
		msg["to"] = cs.To
	}
	for i := 0; i < cs.Repeats; i++ {
		m := map[string]interface{}{}
		for k, v := range msg {
			m[k] = v
		}
		if p, pm, where := vh.Trap(func() { _, err = c.ProcessMsg(ctx, m) }); p {
			return "", "panic: " + pm + " @" + where
		}
	}
	seen, got := "", ""
	if mm := c.Machines["b"]; mm != nil && mm.State != nil {
		seen = fmt.Sprint(mm.State.Bs["log"])
	}
	if mm := c.Machines["a"]; mm != nil && mm.State != nil {
		got = fmt.Sprint("a:", mm.State.Bs["n"])
	}
	return seen, got
}

func C10sio(c *vh.Ctx) {
	one := func(cs c10sCase) {
		c.Eval()
		wantSeen, wantGot := c10sObserve(cs, false)
		gotSeen, gotGot := c10sObserve(cs, true)
		if strings.HasPrefix(wantGot, "<harness>") || strings.HasPrefix(gotGot, "<harness>") {
			c.NotExhaustive("C10sio: " + wantGot + gotGot)
			return
		}
		if strings.HasPrefix(gotGot, "panic") {
			c.Violation("C10/sio/panic", gotGot, cs)
			return
		}
		c.Nontrivial()
		if gotSeen != wantSeen {
			c.Violation("C10/sio/later-execution-sees-props-edited-by-an-earlier-one/"+cs.Where, fmt.Sprintf("%+v: with a script that writes into everything it reaches through _.props, machine b saw the properties %s; without it %s", cs, gotSeen, wantSeen), cs)
		}
		if gotGot != wantGot {
			c.Violation("C10/sio/host-affected-by-a-script-editing-props/"+cs.Where, fmt.Sprintf("%+v: with the scribbling script the deliveries are %s; without it %s", cs, gotGot, wantGot), cs)
		}
	}
	if c.Replay != "" {
		var cs c10sCase
		if c.LoadReplay(&cs) == nil {
			one(cs)
		}
		return
	}
	c.Rule("(sio host) a crew of two machines: a's action (or a's guard, or b's own guard) writes into everything it can reach through _.props - every member at every depth, array elements, new members, pushes - and b records the properties it is handed; messages to [a,b], to [b,a], to a then b, to all, sent once or twice: what b sees and who receives the message must be what they are when the script is harmless.")
	var idx uint64
	for _, to := range []interface{}{[]interface{}{"a", "b"}, []interface{}{"b", "a"}, "<absent>", "*", "b", []interface{}{"a", "b", "zz"}} {
		for _, where := range []string{"a-action", "a-guard", "b-guard"} {
			for _, rep := range []int{1, 2} {
				idx++
				if c.Mine(idx) && !c.Expired() {
					one(c10sCase{To: to, Where: where, Repeats: rep})
				}
			}
		}
	}
}
