package sio

import (
	"context"
	"fmt"
	"os"
	"strings"

	"github.com/Comcast/sheens/core"
	"github.com/Comcast/sheens/crew"
	"github.com/Comcast/sheens/verifrt/sched"
	"github.com/Comcast/sheens/verifrt/vh"
)

// ---- C12sio: a Go host of sio crews keeps its specifications as Go objects and hands the same SpecSource object to
// SetMachine again and again - for several machines, for several crews, and again after it has edited the object to
// the next version.  Every machine processes under one complete version: the one its last SetMachine was given. ----

// c12Spec: start -(ping)-> a -> b -> c -> start; each action node emits its name and the version.
func c12Spec(version int) *core.Spec {
	act := func(n string, ret string) *core.ActionSource {
		return &core.ActionSource{Interpreter: "ecmascript", Source: fmt.Sprintf(`_.out({node:%q,v:%d}); return %s;`, n, version, ret)}
	}
	return &core.Spec{Name: "versioned", Version: fmt.Sprint(version), Nodes: map[string]*core.Node{
		"start": {Branches: &core.Branches{Type: "message", Branches: []*core.Branch{{Pattern: map[string]interface{}{"ping": "?n"}, Target: "a"}}}},
		"a":     {ActionSource: act("a", "_.bindings"), Branches: &core.Branches{Type: "bindings", Branches: []*core.Branch{{Target: "b"}}}},
		"b":     {ActionSource: act("b", "_.bindings"), Branches: &core.Branches{Type: "bindings", Branches: []*core.Branch{{Target: "c"}}}},
		"c":     {ActionSource: act("c", "{}"), Branches: &core.Branches{Type: "bindings", Branches: []*core.Branch{{Target: "start"}}}},
	}}
}

// c12Edit brings the host's specification object to the given version - in place (the object stays, its action
// sources are replaced one by one) or by putting a new specification into the source object.
func c12Edit(src *crew.SpecSource, version int, inPlace bool) {
	fresh := c12Spec(version)
	if !inPlace {
		src.Inline = fresh
		return
	}
	src.Inline.Version = fresh.Version
	for name, n := range fresh.Nodes {
		if n.ActionSource != nil {
			src.Inline.Nodes[name].ActionSource = n.ActionSource
			src.Inline.Nodes[name].Action = nil
		}
	}
}

type c12sCase struct {
	Ops []string `json:"ops"` // set:m1 set:m2 edit:2 edit:3 put:2 put:3 ping:m1 ping:m2
}

// c12sRun plays the operations and returns the violated clauses.
func c12sRun(cs c12sCase) [][2]string {
	c, err := newTestCrew()
	if err != nil {
		return [][2]string{{"<harness>", err.Error()}}
	}
	ctx := context.Background()
	src := &crew.SpecSource{Inline: c12Spec(1)}
	cur := 1
	has := map[string]int{} // machine -> version it was last given
	var out [][2]string
	for i, op := range cs.Ops {
		kv := strings.SplitN(op, ":", 2)
		switch kv[0] {
		case "set":
			var serr error
			if p, pm, where := vh.Trap(func() {
				serr = c.SetMachine(ctx, kv[1], src, &core.State{NodeName: "start", Bs: map[string]interface{}{}})
			}); p {
				return append(out, [2]string{"panic/" + where, pm})
			}
			if serr != nil {
				return append(out, [2]string{"set-machine-failed", fmt.Sprintf("ops %v: SetMachine(%s) with version %d failed: %v", cs.Ops[:i+1], kv[1], cur, serr)})
			}
			has[kv[1]] = cur
		case "edit", "put":
			fmt.Sscan(kv[1], &cur)
			c12Edit(src, cur, kv[0] == "edit")
		case "ping":
			want, have := has[kv[1]]
			if !have {
				continue
			}
			var r *Result
			var perr error
			if p, pm, where := vh.Trap(func() { r, perr = c.ProcessMsg(ctx, map[string]interface{}{"to": kv[1], "ping": 1.0}) }); p {
				return append(out, [2]string{"panic/" + where, pm})
			}
			if perr != nil {
				out = append(out, [2]string{"processing-failed", fmt.Sprintf("ops %v: %v", cs.Ops[:i+1], perr)})
				continue
			}
			var seen []string
			for _, batch := range r.Emitted {
				for _, e := range batch {
					if m, ok := e.(map[string]interface{}); ok {
						seen = append(seen, fmt.Sprintf("%v%v", m["node"], m["v"]))
					}
				}
			}
			exp := fmt.Sprintf("a%d b%d c%d", want, want, want)
			if got := strings.Join(seen, " "); got != exp {
				kind := "machine-runs-a-version-it-was-not-given"
				vs := map[byte]bool{}
				for _, s := range seen {
					vs[s[len(s)-1]] = true
				}
				if len(vs) > 1 {
					kind = "machine-runs-a-mix-of-versions"
				}
				out = append(out, [2]string{kind, fmt.Sprintf("ops %v: machine %s was last set with version %d of the host's specification object; its walk emitted [%s], expected [%s]", cs.Ops[:i+1], kv[1], want, got, exp)})
			}
		}
	}
	return out
}

type c12sConc struct {
	Swap    bool     `json:"swap,omitempty"`
	Choices []int    `json:"choices"`
	Sizes   []int    `json:"sizes"`
	Trace   []string `json:"trace,omitempty"`
}

// c12sConcRun: two crews of one host share the specification object; while one processes a message, the other is
// given the object for a new machine.
func c12sConcRun(prefix, prefixN []int) (*sched.Exec, string) {
	ctx := context.Background()
	src := &crew.SpecSource{Inline: c12Spec(1)}
	ca, err := newTestCrew()
	cb, err2 := newTestCrew()
	if err != nil || err2 != nil {
		x := sched.NewExec(prefix, prefixN)
		x.Finish()
		return x, "<harness>"
	}
	if err := ca.SetMachine(ctx, "m1", src, &core.State{NodeName: "start", Bs: map[string]interface{}{}}); err != nil {
		x := sched.NewExec(prefix, prefixN)
		x.Finish()
		return x, "set: " + err.Error()
	}
	res := &concRes{}
	x := sched.NewExec(prefix, prefixN)
	x.Go("walker", func() {
		r, err := ca.ProcessMsg(ctx, map[string]interface{}{"to": "m1", "ping": 1.0})
		s := ""
		if err != nil {
			s = "error: " + err.Error()
		} else {
			for _, batch := range r.Emitted {
				for _, e := range batch {
					if m, ok := e.(map[string]interface{}); ok {
						s += fmt.Sprintf("%v%v ", m["node"], m["v"])
					}
				}
			}
		}
		res.set(s)
	})
	x.Go("setter", func() {
		sched.Yield("before-set")
		cb.SetMachine(ctx, "m2", src, &core.State{NodeName: "start", Bs: map[string]interface{}{}})
		sched.Yield("between")
		cb.SetMachine(ctx, "m3", src, nil)
	})
	x.Run()
	x.Finish()
	return x, res.get()
}

// yieldingSpecter: an updatable specification whose every read is a scheduling point (the swap may land anywhere).
type yieldingSpecter struct {
	*core.UpdatableSpec
}

func (y *yieldingSpecter) Spec() *core.Spec {
	sched.Yield("spec-read")
	return y.UpdatableSpec.Spec()
}

// c12Parked: two versions with different node sets; the machine is parked at a node only version 1 has.
func c12Parked(version int) *core.Spec {
	s := c12Spec(version)
	if version == 1 {
		s.Nodes["waiting"] = &core.Node{Branches: &core.Branches{Type: "message", Branches: []*core.Branch{{Pattern: map[string]interface{}{"ping": "?n"}, Target: "a"}}}}
	} else {
		s.Nodes["resting"] = &core.Node{Branches: &core.Branches{Type: "message", Branches: []*core.Branch{{Pattern: map[string]interface{}{"ping": "?n"}, Target: "a"}}}}
	}
	return s
}

// c12sSwapRun: a crew machine whose specification is updatable; one thread delivers a message to it, another swaps
// the version.  solo > 0: no swapper, the machine runs under that version alone.
func c12sSwapRun(prefix, prefixN []int, solo int) (*sched.Exec, string) {
	ctx := context.Background()
	v1, v2 := c12Parked(1), c12Parked(2)
	for _, v := range []*core.Spec{v1, v2} {
		if err := v.Compile(ctx, Interpreters, true); err != nil {
			x := sched.NewExec(prefix, prefixN)
			x.Finish()
			return x, "<harness> " + err.Error()
		}
	}
	c, err := newTestCrew()
	if err != nil {
		x := sched.NewExec(prefix, prefixN)
		x.Finish()
		return x, "<harness> " + err.Error()
	}
	first := v1
	if solo == 2 {
		first = v2
	}
	us := &yieldingSpecter{core.NewUpdatableSpec(first)}
	c.Machines["m"] = &crew.Machine{Id: "m", Specter: us, State: &core.State{NodeName: "waiting", Bs: map[string]interface{}{}}}
	res := &concRes{}
	x := sched.NewExec(prefix, prefixN)
	x.Go("walker", func() {
		r, err := c.ProcessMsg(ctx, map[string]interface{}{"to": "m", "ping": 1.0})
		s := ""
		if err != nil {
			s = "error: " + err.Error()
		} else {
			for _, batch := range r.Emitted {
				for _, e := range batch {
					if m, ok := e.(map[string]interface{}); ok {
						s += fmt.Sprintf("%v%v ", m["node"], m["v"])
					}
				}
			}
			if mm := c.Machines["m"]; mm != nil && mm.State != nil {
				s += "@" + mm.State.NodeName
				if e, ok := mm.State.Bs["error"].(string); ok {
					s += " error=" + e
				}
			}
		}
		res.set(s)
	})
	if solo == 0 {
		x.Go("swapper", func() {
			sched.Yield("before-swap")
			us.SetSpec(v2)
		})
	}
	x.Run()
	x.Finish()
	return x, res.get()
}

type concRes struct{ s string }

//go:norace
func (r *concRes) set(s string) { r.s = s }

//go:norace
func (r *concRes) get() string { return r.s }

func C12sio(c *vh.Ctx) {
	race := os.Getenv("VERIF_RACE") == "1"
	if c.Replay != "" {
		var cs c12sCase
		if c.LoadReplay(&cs) == nil && len(cs.Ops) > 0 {
			c.Eval()
			for _, v := range c12sRun(cs) {
				c.Violation("C12/sio/"+v[0], v[1], cs)
			}
			return
		}
		var cc c12sConc
		if c.LoadReplay(&cc) == nil && cc.Swap {
			c.Eval()
			_, alone1 := c12sSwapRun(nil, nil, 1)
			_, alone2 := c12sSwapRun(nil, nil, 2)
			if _, got := c12sSwapRun(cc.Choices, cc.Sizes, 0); got != alone1 && got != alone2 {
				c.Violation("C12/sio/delivery-sees-a-mix-of-versions", "the outcome is ["+got+"]; alone: ["+alone1+"] / ["+alone2+"]", cc)
			}
			return
		}
		if c.LoadReplay(&cc) == nil {
			c.Eval()
			if _, got := c12sConcRun(cc.Choices, cc.Sizes); got != "a1 b1 c1 " {
				c.Violation("C12/sio/concurrent-walk-differs", "the walk emitted ["+got+"]", cc)
			}
		}
		return
	}
	c.Rule("(sio host) a Go host keeps one SpecSource object (an inline specification whose three action nodes emit their name and the version) and hands it to SetMachine for two machines; every sequence of up to the bound over {set m1, set m2, edit the object in place to version 2 / 3, put a new specification of version 2 / 3 into it, ping m1, ping m2}: a pinged machine's walk must emit exactly its three nodes under the version the object had when the machine was last set - never another version, never a mix. Concurrent part: two crews share the object; one processes a message for its machine while the other is given the object for two new machines - every schedule within the deviation bound, the walk must emit version 1 throughout; race pass: ThreadSanitizer silent. Also a crew machine whose specification is an UpdatableSpec (every read of it a scheduling point), parked at a node that only version 1 has, while another thread swaps in version 2: the delivery's outcome must be that of version 1 alone or of version 2 alone.")
	if !race {
		alphabet := []string{"set:m1", "set:m2", "edit:2", "edit:3", "put:2", "put:3", "ping:m1", "ping:m2"}
		maxLen := c.Pick(4, 5)
		c.Bound("sio_host_ops_max", maxLen)
		var idx uint64
		reported := map[string]bool{}
		var rec func(cur []string)
		rec = func(cur []string) {
			if len(cur) > 0 && strings.HasPrefix(cur[len(cur)-1], "ping") {
				idx++
				if c.Mine(idx) && !c.Expired() {
					cs := c12sCase{Ops: append([]string{}, cur...)}
					c.Eval()
					c.R.States++
					vs := c12sRun(cs)
					if len(vs) == 0 {
						c.Nontrivial()
					}
					for _, v := range vs {
						if v[0] == "<harness>" {
							c.NotExhaustive("C12sio: " + v[1])
							continue
						}
						if reported[v[0]] {
							c.R.ViolationKeys["C12/sio/"+v[0]]++
							continue
						}
						reported[v[0]] = true
						c.Violation("C12/sio/"+v[0], v[1], cs)
					}
				}
			}
			if len(cur) == maxLen {
				return
			}
			for _, a := range alphabet {
				if len(cur) == 0 && !strings.HasPrefix(a, "set") {
					continue
				}
				rec(append(cur, a))
			}
		}
		rec(nil)
	}
	if c.Shard != 0 {
		return
	}
	bound := c.Pick(2, 3)
	c.Bound("sio_host_deviations_max", bound)
	reported := false
	st := sched.Explore(bound, 20000, func(uint64) bool { return true }, true,
		func(p, pn []int) *sched.Exec {
			x, got := c12sConcRun(p, pn)
			x.UserData = got
			return x
		},
		func(x *sched.Exec, devs int) {
			c.Eval()
			got := x.UserData.(string)
			c.Outcome("conc", got)
			if got == "<harness>" {
				c.NotExhaustive("C12sio: cannot create crews")
				return
			}
			if got != "a1 b1 c1 " && !reported {
				reported = true
				cs, ns := sched.Choices(x.Trace)
				c.Violation("C12/sio/concurrent-walk-differs", "while another crew of the same host was given the shared specification object, the walk emitted ["+got+"] instead of [a1 b1 c1]", c12sConc{Choices: cs, Sizes: ns, Trace: sched.FormatTrace(x.Trace)})
			}
		})
	// an updatable specification in a crew: a delivery sees one version
	{
		_, alone1 := c12sSwapRun(nil, nil, 1)
		_, alone2 := c12sSwapRun(nil, nil, 2)
		rep2 := false
		st2 := sched.Explore(bound+1, 20000, func(uint64) bool { return true }, true,
			func(p, pn []int) *sched.Exec {
				x, got := c12sSwapRun(p, pn, 0)
				x.UserData = got
				return x
			},
			func(x *sched.Exec, devs int) {
				c.Eval()
				got := x.UserData.(string)
				c.Outcome("swap", got)
				if strings.HasPrefix(got, "<harness>") {
					c.NotExhaustive("C12sio: " + got)
					return
				}
				if got != alone1 && got != alone2 && !rep2 {
					rep2 = true
					cs, ns := sched.Choices(x.Trace)
					c.Violation("C12/sio/delivery-sees-a-mix-of-versions", fmt.Sprintf("a machine parked at a node only version 1 has, its specification swapped to version 2 during the delivery: the outcome is [%s]; under version 1 alone it is [%s], under version 2 alone [%s]", got, alone1, alone2), c12sConc{Choices: cs, Sizes: ns, Trace: sched.FormatTrace(x.Trace), Swap: true})
				}
			})
		c.R.Traces += int64(st2.Schedules)
		c.R.Transitions += int64(st2.Transitions)
		if st2.Nondet > 0 || st2.Stuck > 0 || st2.Capped {
			c.NotExhaustive(fmt.Sprintf("exploration gaps (swap): %d nondeterministic subtrees, %d stuck executions, capped=%v", st2.Nondet, st2.Stuck, st2.Capped))
		}
	}
	c.R.Traces += int64(st.Schedules)
	c.R.Transitions += int64(st.Transitions)
	c.Count("nondeterministic_subtrees", int64(st.Nondet))
	if st.Nondet > 0 || st.Stuck > 0 || st.Capped {
		c.NotExhaustive(fmt.Sprintf("exploration gaps: %d nondeterministic subtrees, %d stuck executions, capped=%v", st.Nondet, st.Stuck, st.Capped))
	}
}
