package sio

import (
	"testing"

	"github.com/Comcast/sheens/verifrt/vh"
)

func TestMain(m *testing.M) {
	vh.Main(map[string]vh.CheckFunc{
		"C17sio":   C17sio,
		"C14sio":   C14sio,
		"C14stdio": C14stdio,
		"C07sio":   C07sio,
		"C12sio":   C12sio,
		"C05sio":   C05sio,
		"C10sio":   C10sio,
		"C18sio":   C18sio,
		"C15":      C15,
		"C13sio":   C13sio,
		"C09sio":   C09sio,
	})
}
