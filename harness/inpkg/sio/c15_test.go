package sio

import (
	"context"
	"encoding/json"
	"fmt"
	"io/ioutil"
	"os"
	"path/filepath"
	"sort"
	"strings"

	"github.com/Comcast/sheens/core"
	"github.com/Comcast/sheens/crew"
	"github.com/Comcast/sheens/verifrt/ref/rstep"
	"github.com/Comcast/sheens/verifrt/vh"
)

// specs X (counter), Y (toggle), Z (boss: emits captain operations); reactions of different machines commute
func c15Spec(name string) map[string]interface{} {
	act := func(src string, target string) map[string]interface{} {
		return map[string]interface{}{
			"action":    map[string]interface{}{"interpreter": "ecmascript", "source": src},
			"branching": map[string]interface{}{"branches": []interface{}{map[string]interface{}{"target": target}}},
		}
	}
	msgNode := func(branches ...interface{}) map[string]interface{} {
		return map[string]interface{}{"branching": map[string]interface{}{"type": "message", "branches": branches}}
	}
	br := func(pat map[string]interface{}, target string) interface{} {
		return map[string]interface{}{"pattern": pat, "target": target}
	}
	switch name {
	case "X":
		// a failing action is handled by the node's own branches (actionErrorBranches): part of the specification
		// source, and so of what a store has to hold.  The script also keeps a tally on the global object and on a
		// built-in: whatever survives there is in no store (nothing does: every execution starts afresh)
		bump := act(`if (_.bindings["?n"] === "boom") { throw "boom"; } var c = (_.bindings.count || 0) + 1; var g = Function("return this")(); g.tally = (g.tally || 0) + 1; Math.tally = (Math.tally || 0) + 1; _.out({x: c, from: _.props.mid, tally: g.tally + Math.tally}); return {count: c, "?one": 1};`, "start")
		bump["branching"] = map[string]interface{}{"branches": []interface{}{
			map[string]interface{}{"pattern": map[string]interface{}{"actionError": "?e"}, "target": "hit"}, map[string]interface{}{"target": "start"}}}
		return map[string]interface{}{"name": "X", "id": "one-id-for-all", "actionErrorBranches": true, "nodes": map[string]interface{}{
			// "?one" is a number the matcher meets again as a bound variable (in memory it is what the script
			// produced, after a restart what the host's loader made of it)
			"start": msgNode(br(map[string]interface{}{"inc": "?n"}, "bump"), br(map[string]interface{}{"is": "?one"}, "hit")),
			"bump":  bump,
			"hit":   act(`_.out({hit: _.bindings.count, from: _.props.mid}); return _.bindings;`, "start"),
		}}
	case "Y":
		// a failing action sends the machine to a node of the author's choice (actionErrorNode)
		return map[string]interface{}{"name": "Y", "id": "one-id-for-all", "actionErrorNode": "on", "nodes": map[string]interface{}{
			"start": msgNode(br(map[string]interface{}{"inc": "?n"}, "toOn")),
			// "since" is a Date: in a state it is whatever the interpreter exported, in a store it is text
			"toOn":  act(`if (_.bindings["?n"] === "boom") { throw "boom"; } _.out({y: "on", from: _.props.mid}); return {count: _.bindings.count || 0, since: new Date(86400000)};`, "on"),
			"on":    msgNode(br(map[string]interface{}{"inc": "?n"}, "toOff")),
			"toOff": act(`var s = _.bindings.since; _.out({y: "off", from: _.props.mid, since: (typeof s) + ":" + String(s), ms: (typeof s == "string") ? new Date(s).getTime() : "not text"}); return {count: _.bindings.count || 0};`, "start"),
		}}
	}
	// Z: on {"boss":"recreate"} deletes m1 and creates it again (with spec X) within one ProcessMsg
	xjs, _ := json.Marshal(c15Spec("X"))
	return map[string]interface{}{"name": "Z", "nodes": map[string]interface{}{
		"start": msgNode(br(map[string]interface{}{"boss": "recreate"}, "re"), br(map[string]interface{}{"boss": "delete-m2"}, "del")),
		"re":    act(`_.out({to: "captain", "delete": ["m1"]}); _.out({to: "captain", update: {m1: {spec: {inline: `+string(xjs)+`}}}}); return {};`, "start"),
		"del":   act(`_.out({to: "captain", "delete": ["m2"]}); return {};`, "start"),
	}}
}

type c15Op struct {
	Name string
	Msg  func() interface{}
}

func upd(mid string, spec string, state map[string]interface{}) func() interface{} {
	return func() interface{} {
		m := map[string]interface{}{}
		if spec != "" {
			m["spec"] = map[string]interface{}{"inline": c15Spec(spec)}
		}
		if state != nil {
			m["state"] = state
		}
		return map[string]interface{}{"to": "captain", "update": map[string]interface{}{mid: m}}
	}
}

var c15Ops = []c15Op{
	{"create-m1-X", upd("m1", "X", nil)},
	{"create-m2-Y", upd("m2", "Y", nil)},
	{"state-m1", upd("m1", "", map[string]interface{}{"node": "start", "bs": map[string]interface{}{"count": 5.0}})},
	// a state whose rendering is far beyond ten kilobytes (and the way back to a small one)
	{"state-m1-big", upd("m1", "", map[string]interface{}{"node": "start", "bs": map[string]interface{}{"count": 5.0, "pad": strings.Repeat("0123456789abcdef", 800)}})},
	{"spec-m1-Y", upd("m1", "Y", nil)},
	{"delete-m1", func() interface{} { return map[string]interface{}{"to": "captain", "delete": []interface{}{"m1"}} }},
	{"inc-all", func() interface{} { return map[string]interface{}{"inc": 1.0} }},
	{"inc-m1", func() interface{} { return map[string]interface{}{"to": "m1", "inc": 1.0} }},
	// a message that makes the actions of X and Y fail: what happens then is decided by the specifications' error settings
	{"boom-all", func() interface{} { return map[string]interface{}{"inc": "boom"} }},
	{"create-boss", upd("boss", "Z", nil)},
	{"boss-recreate-m1", func() interface{} { return map[string]interface{}{"to": "boss", "boss": "recreate"} }},
	{"bad-op", func() interface{} {
		return map[string]interface{}{"to": "captain", "update": map[string]interface{}{"m3": map[string]interface{}{"spec": map[string]interface{}{"inline": map[string]interface{}{"nodes": map[string]interface{}{"start": map[string]interface{}{"action": map[string]interface{}{"interpreter": "cobol", "source": "x"}}}}}}}}
	}},
	// one captain message with two updates, the later-sorting one of which cannot be carried out
	{"state-m1-and-bad-m3", func() interface{} {
		return map[string]interface{}{"to": "captain", "update": map[string]interface{}{
			"m1": map[string]interface{}{"state": map[string]interface{}{"node": "start", "bs": map[string]interface{}{"count": 9.0}}},
			"m3": map[string]interface{}{"spec": map[string]interface{}{"inline": map[string]interface{}{"nodes": map[string]interface{}{"start": map[string]interface{}{"action": map[string]interface{}{"interpreter": "cobol", "source": "x"}}}}}}}}
	}},
	// the same, addressed to m1 as well: m1 moves and is updated within one round
	{"inc-m1-and-op-on-m1-and-bad-m3", func() interface{} {
		return map[string]interface{}{"to": []interface{}{"m1", "captain"}, "inc": 1.0, "update": map[string]interface{}{
			"m1": map[string]interface{}{"spec": map[string]interface{}{"inline": c15Spec("Y")}},
			"m3": map[string]interface{}{"spec": map[string]interface{}{"inline": map[string]interface{}{"nodes": map[string]interface{}{"start": map[string]interface{}{"action": map[string]interface{}{"interpreter": "cobol", "source": "x"}}}}}}}}
	}},
	// a state update that gives bindings but names no node
	{"is-1", func() interface{} { return map[string]interface{}{"is": 1.0} }},
	{"bs-only-m1", upd("m1", "", map[string]interface{}{"bs": map[string]interface{}{"count": 3.0}})},
	{"create-m1-X-with-state", upd("m1", "X", map[string]interface{}{"node": "start", "bs": map[string]interface{}{"count": 7.0}})},
	// crash and restart at this message boundary: the crew is replaced by one rebuilt from the shadow store
	{"restart", nil},
	{"restart-drain", nil},
	{"delete-m2", func() interface{} { return map[string]interface{}{"to": "captain", "delete": []interface{}{"m2"}} }},
	{"boss-delete-m2", func() interface{} { return map[string]interface{}{"to": "boss", "boss": "delete-m2"} }},
}

type c15Case struct {
	History []string `json:"history"`
	Cont    []string `json:"continuation,omitempty"`
}

func opByName(n string) c15Op {
	for _, o := range c15Ops {
		if o.Name == n {
			return o
		}
	}
	panic("unknown op " + n)
}

// shadow store: what a host that folds Result.Changed in order ends up with (as sio.Stdio does)
type shadow map[string]*crew.Machine

func (s shadow) fold(r *Result) {
	var mids []string
	for mid := range r.Changed {
		mids = append(mids, mid)
	}
	sort.Strings(mids)
	for _, mid := range mids {
		m := r.Changed[mid]
		if m.Deleted {
			delete(s, mid)
			continue
		}
		n, have := s[mid]
		if !have {
			n = &crew.Machine{}
			s[mid] = n
		}
		if m.State != nil {
			n.State = m.State.Copy()
		}
		if m.SpecSrc != nil {
			n.SpecSource = m.SpecSrc.Copy()
		}
	}
}

func (s shadow) copy() shadow {
	t := shadow{}
	for mid, m := range s {
		n := &crew.Machine{}
		if m.State != nil {
			n.State = m.State.Copy()
		}
		if m.SpecSource != nil {
			n.SpecSource = m.SpecSource.Copy()
		}
		t[mid] = n
	}
	return t
}

func specName(ss *crew.SpecSource) string {
	if ss == nil {
		return "<none>"
	}
	if ss.Inline != nil {
		return ss.Inline.Name
	}
	return ss.Name + ss.URL
}

func machineKey(st *core.State, ss *crew.SpecSource) string {
	node, bs := "start", "{}"
	if st != nil {
		// (a state that is there names its node: what is reported for a machine is the state the crew holds, in
		// which a missing node has been filled in - "" is not "start")
		node = st.NodeName
		if st.Bs != nil {
			bs = rstep.Canon(map[string]interface{}(st.Bs))
		}
	}
	return specName(ss) + "/" + node + "/" + bs
}

func ordinary(mid string) bool { return mid != CaptainMachine && mid != TimersMachine }

func liveKey(c *Crew) string {
	var parts []string
	for mid, m := range c.Machines {
		if ordinary(mid) {
			parts = append(parts, mid+"="+machineKey(m.State, m.SpecSource))
		}
	}
	sort.Strings(parts)
	return strings.Join(parts, ";")
}

func shadowKey(s shadow) string {
	var parts []string
	for mid, m := range s {
		if ordinary(mid) {
			parts = append(parts, mid+"="+machineKey(m.State, m.SpecSource))
		}
	}
	sort.Strings(parts)
	return strings.Join(parts, ";")
}

func emittedKey(r *Result) string {
	var bs []string
	for _, b := range r.Emitted {
		bs = append(bs, rstep.Canon(b))
	}
	sort.Strings(bs) // batches of different machines are unordered within a round
	return strings.Join(bs, "|")
}

// build replays a history on a fresh crew, folding the reported changes; returns the crew, the shadow store and the last result.
func c15Build(hist []string) (*Crew, shadow, *Result, string) {
	c, err := newTestCrew()
	if err != nil {
		return nil, nil, nil, err.Error()
	}
	s := shadow{}
	var last *Result
	for _, name := range hist {
		var r *Result
		if name == "restart" || name == "restart-drain" {
			c2, bad := reboot(s, name == "restart-drain")
			if bad != "" {
				return c, s, nil, "restart: " + bad
			}
			c = c2
			continue
		}
		if p, pm, where := vh.Trap(func() { r, err = c.ProcessMsg(context.Background(), opByName(name).Msg()) }); p {
			return c, s, nil, "panic: " + pm + " @" + where
		}
		if err != nil {
			return c, s, nil, "error: " + err.Error()
		}
		s.fold(r)
		last = r
	}
	return c, s, last, ""
}

// reboot builds a crew from the store the way siostd does.
// Without drain this is exactly siostd's path: the change cache filled by SetMachine is reported with the first message.
func reboot(s shadow, drain bool) (*Crew, string) {
	c, err := newTestCrew()
	if err != nil {
		return nil, err.Error()
	}
	var mids []string
	for mid := range s {
		mids = append(mids, mid)
	}
	sort.Strings(mids)
	for _, mid := range mids {
		m := s[mid]
		// through JSON, as a host's state file would
		js, _ := json.Marshal(m)
		var m2 crew.Machine
		if err := json.Unmarshal(js, &m2); err != nil {
			return nil, "stored machine does not reload: " + err.Error()
		}
		if err := c.SetMachine(context.Background(), mid, m2.SpecSource, m2.State); err != nil {
			return nil, "SetMachine from store failed: " + err.Error()
		}
	}
	if drain {
		// a host that asks for the changes right after booting and applies them like any others
		ch, err := c.GetChanged(context.Background())
		if err != nil {
			return nil, "GetChanged after boot failed: " + err.Error()
		}
		s.fold(&Result{Changed: ch})
	}
	return c, ""
}

// ---- the same histories with the repository's own consumer: sio.Stdio folding Result.Changed into its state
// map and writing it out after every message, and siostd's boot path reading that file back ----------------

type stdioHost struct {
	c      *Crew
	io     *Stdio
	cancel context.CancelFunc
}

var c15File string

func bootStdio(file string, readBack bool) (*stdioHost, string) {
	ctx, cancel := context.WithCancel(context.Background())
	sio := NewStdio(false)
	sio.In, sio.Out = strings.NewReader(""), ioutil.Discard
	sio.StateOutputFilename, sio.WriteStatePerMsg = file, true
	if readBack {
		sio.StateInputFilename = file
	}
	c, err := NewCrew(ctx, &CrewConf{Id: "t", Ctl: &core.Control{Limit: 100}}, sio)
	if err != nil {
		cancel()
		return nil, err.Error()
	}
	h := &stdioHost{c: c, io: sio, cancel: cancel}
	if err := sio.Start(ctx); err != nil {
		h.stop()
		return nil, err.Error()
	}
	ms, err := sio.Read(ctx)
	if err != nil {
		h.stop()
		return nil, "Stdio.Read: " + err.Error()
	}
	var mids []string
	for mid := range ms {
		mids = append(mids, mid)
	}
	sort.Strings(mids)
	for _, mid := range mids {
		if err := c.SetMachine(ctx, mid, ms[mid].SpecSource, ms[mid].State); err != nil {
			h.stop()
			return nil, "SetMachine from the state file failed: " + err.Error()
		}
	}
	return h, ""
}

func (h *stdioHost) stop() {
	if h.c != nil && h.c.out != nil {
		h.c.out <- nil // ends the consumer
		h.io.WG.Wait() // ... and its last write of the state file
		h.c.out = nil
		// what siostd does on its way out: Stdio.Stop writes the state it tracked
		h.io.Stop(context.Background())
	}
	h.cancel()
}

// process hands the message to the crew and its result to the consumer, and waits until it has been folded
// and written (the consumer takes results one at a time: once it accepts an empty second one it is done with the first).
func (h *stdioHost) process(msg interface{}) string {
	r, err := h.c.ProcessMsg(context.Background(), msg)
	if err != nil {
		return "error: " + err.Error()
	}
	h.c.out <- r
	h.c.out <- &Result{}
	return ""
}

func fileKey(file string) (string, string) {
	js, err := ioutil.ReadFile(file)
	if err != nil {
		return "", err.Error()
	}
	var ms map[string]*crew.Machine
	if err := json.Unmarshal(js, &ms); err != nil {
		return "", err.Error()
	}
	return shadowKey(shadow(ms)), ""
}

// c15ViaStdio replays a history against a crew whose host is the real Stdio; after every message the state
// file must describe the live crew; "restart" boots a new crew from that file.
func c15ViaStdio(hist []string) [][2]string {
	if c15File == "" {
		dir := "/dev/shm"
		if st, err := os.Stat(dir); err != nil || !st.IsDir() {
			dir = os.TempDir()
		}
		c15File = filepath.Join(dir, fmt.Sprintf("verif-sio-state-%d.json", os.Getpid()))
	}
	os.Remove(c15File)
	h, bad := bootStdio(c15File, false)
	if bad != "" {
		return [][2]string{{"stdio-boot-failed", bad}}
	}
	defer func() {
		if h != nil {
			h.stop()
		}
		os.Remove(c15File)
	}()
	// the same history without the restarts, kept in memory: a restart must not be observable
	var plain []string
	for _, name := range hist {
		if name != "restart" && name != "restart-drain" {
			plain = append(plain, name)
		}
	}
	mem, _, _, membad := c15Build(nil)
	pi := 0
	written := false
	for i, name := range hist {
		if name == "restart" || name == "restart-drain" {
			before := liveKey(h.c)
			// "restart-drain" has no meaning of its own for this host: here it is a process life without any
			// traffic - boot, stop, boot again
			lives := 1
			if name == "restart-drain" {
				lives = 2
			}
			for l := 0; l < lives; l++ {
				h.stop()
				h, bad = bootStdio(c15File, written)
				if bad != "" {
					return [][2]string{{"stdio-reboot-failed/after-" + strings.Join(hist[:i], ","), bad}}
				}
				if after := liveKey(h.c); written && after != before {
					return [][2]string{{fmt.Sprintf("stdio-restart-changes-the-crew/life-%d", l+1),
						fmt.Sprintf("history %v with sio.Stdio as the host: before the restart the crew is [%s]; booted from the state file Stdio wrote (process life %d without traffic) it is [%s]", hist[:i+1], before, l+1, after)}}
				}
			}
			continue
		}
		var res string
		if p, pm, where := vh.Trap(func() { res = h.process(opByName(name).Msg()) }); p {
			return [][2]string{{"stdio-panic/" + where, pm}}
		}
		if res != "" {
			return nil // the first half of the check reports processing failures
		}
		written = true
		if membad == "" && mem != nil && pi < len(plain) {
			if _, err := mem.ProcessMsg(context.Background(), opByName(plain[pi]).Msg()); err == nil {
				pi++
				if lk, mk := liveKey(h.c), liveKey(mem); lk != mk && len(plain) != len(hist) {
					return [][2]string{{"stdio-restart-is-observable/after-" + name,
						fmt.Sprintf("history %v with sio.Stdio as the host and restarts from its state file: after %q the crew is [%s]; the crew that was never restarted is [%s]", hist[:i+1], name, lk, mk)}}
				}
			} else {
				membad = err.Error()
			}
		}
		// the consumer is now idle or re-writing the same state for the empty result: its map is only read
		if lk, sk := liveKey(h.c), shadowKey(shadow(h.io.state)); lk != sk {
			return [][2]string{{"stdio-state-differs-from-live-crew/after-" + name,
				fmt.Sprintf("history %v with sio.Stdio as the host: after %q the live crew is [%s] but the state Stdio keeps holds [%s]", hist[:i+1], name, lk, sk)}}
		}
	}
	// the file, once the consumer has finished
	lk := liveKey(h.c)
	h.stop()
	if written {
		fk, ferr := fileKey(c15File)
		if ferr != "" {
			return [][2]string{{"stdio-state-file-unreadable", ferr}}
		}
		if lk != fk {
			return [][2]string{{"stdio-state-file-differs-from-live-crew/after-" + hist[len(hist)-1],
				fmt.Sprintf("history %v with sio.Stdio as the host: the live crew is [%s] but the state file written by Stdio holds [%s]", hist, lk, fk)}}
		}
	}
	return nil
}

func stateKeyFull(c *Crew, s shadow) string {
	var prev []string
	for k, v := range c.previous {
		prev = append(prev, k+"="+v)
	}
	sort.Strings(prev)
	cap := ""
	if m := c.Machines[CaptainMachine]; m != nil && m.State != nil {
		cap = m.State.NodeName + rstep.Canon(map[string]interface{}(m.State.Bs))
	}
	return liveKey(c) + "#" + shadowKey(s) + "#" + cap + "#" + strings.Join(prev, ",")
}

var c15Conts = [][]string{{"inc-all"}, {"boom-all"}, {"boom-all", "inc-all"}, {"inc-m1"}, {"create-m2-Y"}, {"delete-m1"}, {"delete-m2"}, {"boss-delete-m2"}, {"boss-recreate-m1"}, {"spec-m1-Y"}, {"bs-only-m1"}, {"is-1"}, {"inc-all", "is-1"}, {"state-m1-and-bad-m3"}, {"inc-m1-and-op-on-m1-and-bad-m3"},
	{"inc-all", "inc-all"}, {"create-m1-X", "inc-m1"}, {"state-m1", "inc-m1"}, {"delete-m1", "create-m1-X"}, {"delete-m1", "inc-all"}, {"create-m1-X-with-state", "inc-all"}}

// c15Check evaluates invariant and differential for one history; returns violations.
func c15Check(hist []string) ([][2]string, string) {
	c, s, _, bad := c15Build(hist)
	if bad != "" {
		return [][2]string{{"processing-failed", bad}}, ""
	}
	last := hist[len(hist)-1]
	var out [][2]string
	if lk, sk := liveKey(c), shadowKey(s); lk != sk {
		out = append(out, [2]string{"store-differs-from-live-crew/after-" + last, fmt.Sprintf("after %v the live crew is [%s] but a store that applied every reported change holds [%s]", hist, lk, sk)})
	}
	out = append(out, c15ViaStdio(hist)...)
	key := stateKeyFull(c, s)
	// differential: a crew rebuilt from the store behaves like the original
	for _, cont := range c15Conts {
		a, sa, _, bad := c15Build(hist)
		if bad != "" {
			break
		}
		sb := s.copy()
		b, bad2 := reboot(sb, false)
		if bad2 != "" {
			out = append(out, [2]string{"reboot-failed/after-" + last, bad2})
			break
		}
		for i, name := range cont {
			var ra, rb *Result
			var ea, eb error
			if name == "restart" || name == "restart-drain" {
				continue
			}
			pa, _, _ := vh.Trap(func() { ra, ea = a.ProcessMsg(context.Background(), opByName(name).Msg()) })
			pb, _, _ := vh.Trap(func() { rb, eb = b.ProcessMsg(context.Background(), opByName(name).Msg()) })
			if pa || pb || ea != nil || eb != nil {
				out = append(out, [2]string{"continuation-failed/after-" + last, fmt.Sprint(hist, cont[:i+1], pa, pb, ea, eb)})
				break
			}
			if ka, kb := emittedKey(ra)+"@"+liveKey(a), emittedKey(rb)+"@"+liveKey(b); ka != kb {
				out = append(out, [2]string{"rebuilt-crew-behaves-differently/after-" + last + "/on-" + name,
					fmt.Sprintf("history %v, then %v: the original crew gives %s; a crew rebuilt from the reported changes gives %s", hist, cont[:i+1], ka, kb)})
				break
			}
			// the rebuilt crew is a crew like any other: its reported changes must suffice too
			sa.fold(ra)
			sb.fold(rb)
			if lk, sk := liveKey(b), shadowKey(sb); lk != sk {
				out = append(out, [2]string{"store-differs-from-rebuilt-crew/after-" + last + "/on-" + name,
					fmt.Sprintf("history %v, crew rebuilt from the store, then %v: the rebuilt crew is [%s] but the store that went on folding its reported changes holds [%s]", hist, cont[:i+1], lk, sk)})
				break
			}
			if ka, kb := shadowKey(sa), shadowKey(sb); ka != kb {
				out = append(out, [2]string{"stores-diverge-after-restart/after-" + last + "/on-" + name,
					fmt.Sprintf("history %v, then %v: the original crew's store holds [%s], the store of the crew rebuilt from it holds [%s]", hist, cont[:i+1], ka, kb)})
				break
			}
		}
		if len(out) > 2 {
			break
		}
	}
	return out, key
}

// C09sio: the sio host's own persistence as a question about state being plain data - the crew histories of
// C15 at depth 4 (restart from the state file sio.Stdio writes must be unobservable).
var (
	c15Prefix        = "C15"
	c15DepthOverride = 0
)

func C09sio(c *vh.Ctx) {
	c15Prefix, c15DepthOverride = "C09/sio-host", 4
	C15(c)
}

// C15: reported changes suffice to persist a crew and restart it anywhere.
func C15(c *vh.Ctx) {
	if c.Replay != "" {
		var tc c15TimersCase
		if c.LoadReplay(&tc) == nil && tc.Family != "" {
			c15Timers(c)
			return
		}
		var cs c15Case
		if c.LoadReplay(&cs) == nil {
			c.Eval()
			vs, _ := c15Check(cs.History)
			for _, v := range vs {
				c.Violation(c15Prefix+"/"+v[0], v[1], cs)
			}
		}
		return
	}
	depth := c.Pick(4, 5)
	if c15DepthOverride > 0 {
		depth = c15DepthOverride
	}
	c.Bound("history_max", depth)
	c.Rule(fmt.Sprintf("breadth-first search over histories of crew operations on a real sio.Crew (fresh crew + replay per successor; states deduplicated by live machines, captain state, shadow store and change cache): alphabet of %d operations (create m1/m2/boss with specs X/Y/Z, replace m1's state (also by one of 13 kB), replace m1's spec, delete m1, messages to all / to m1, a message that makes the actions of X and Y fail (X handles it with actionErrorBranches, Y with an actionErrorNode: the error settings are part of the specification source), a machine that deletes and re-creates m1 within one ProcessMsg, deletion of m2 by the host and by a machine, a captain operation that fails, captain messages with two updates of which the later one fails (also addressed to the machine the first one updates), and *restart*: the crew is replaced by one rebuilt from the shadow store, so every message boundary is a crash-and-restart point and the search goes on from the restarted crew), depth up to the bound. Invariant in every state: a store that folded every Result.Changed (as sio.Stdio does) equals the live crew (node, bindings, spec; deleted machines absent; a stored machine without state is start/{}). The same histories are also replayed with the repository's own consumer as the host - sio.Stdio folding Result.Changed into its state map and writing the state file after every message, restart = siostd's boot path reading that file back - and after every message the file must describe the live crew. Differential in every state: a crew rebuilt from that store through SetMachine (the siostd boot path) and the original give equal emissions, equal next states and equal stores (each crew's reported changes folded into its own copy of the store, which must also equal that crew) on %d continuations of length <= 2. Timers machine: 0/1/2/8/9/17 timers made (all far in the future), then all / all but one / none of them cancelled, then 0-2 more made; after every message the store lists exactly the timers pending in the live crew, which are exactly those made and not cancelled, and a crew rebuilt from the store at the end has the same ones pending.", len(c15Ops), len(c15Conts)))
	c15Timers(c)
	seen := map[string]bool{}
	reported := map[string]bool{}
	frontier := [][]string{{}}
	for d := 1; d <= depth; d++ {
		var next [][]string
		for hi, h := range frontier {
			for oi, op := range c15Ops {
				// shard on the first two operations
				nh := append(append([]string{}, h...), op.Name)
				if len(nh) == 2 && !c.Mine(uint64(hi*len(c15Ops)+oi)) {
					continue
				}
				if c.Expired() {
					return
				}
				c.Eval()
				c.R.Transitions++
				vs, key := c15Check(nh)
				for _, v := range vs {
					if reported[v[0]] {
						c.R.ViolationKeys[c15Prefix+"/"+v[0]]++
						continue
					}
					reported[v[0]] = true
					c.Violation(c15Prefix+"/"+v[0], v[1], c15Case{History: nh})
				}
				if key == "" || seen[key] {
					continue
				}
				seen[key] = true
				c.R.States++
				c.Nontrivial()
				c.R.Traces += int64(len(c15Conts))
				next = append(next, nh)
				if c.WantSample() && len(nh) == 3 {
					c.Sample(c15Case{History: nh})
				}
			}
		}
		frontier = next
	}
}
