package main

import (
	"context"
	"encoding/json"
	"fmt"
	"os"
	"path/filepath"

	"github.com/Comcast/sheens/crew"
	"github.com/Comcast/sheens/verifrt/actlang"
	"github.com/Comcast/sheens/verifrt/ref/rspecs"
	"github.com/Comcast/sheens/verifrt/ref/rstep"
	"github.com/Comcast/sheens/verifrt/vh"
)

type c13mdbCase struct {
	Spec    *rstep.ASpec `json:"spec"`
	Variant string       `json:"variant"`
}

// C13mdb: the debugger's own loader (Host.GetSpec reads a file from its spec directory that holds JSON or YAML).
// The specification must behave like its Go-structure rendering - in both file formats, with inline patterns and
// with JSON-text patterns under patternSyntax json, and with the error-handling settings that have multi-word names.
func C13mdb(c *vh.Ctx) {
	dir, _ := os.MkdirTemp(os.Getenv("VERIF_SCRATCH"), "mdb13-")
	defer os.RemoveAll(dir)
	maxLen := c.Pick(1, 2)
	one := func(as *rstep.ASpec, variant string) {
		c.Eval()
		c.Nontrivial()
		base, err := as.Build()
		if err != nil {
			return
		}
		want := rspecs.Trace(base, maxLen)
		format := "yaml"
		if variant == "json-file" || variant == "json-file-json-syntax" {
			format = "json"
		}
		doc, ok := as.Doc(format, variant == "json-syntax" || variant == "json-file-json-syntax")
		if !ok {
			return
		}
		var text []byte
		if format == "json" {
			text, _ = json.Marshal(doc)
		} else {
			text = []byte(rstep.YAML(doc))
		}
		os.WriteFile(filepath.Join(dir, "gen"), text, 0o644)
		h, err := NewHost(dir, "")
		if err != nil {
			c.NotExhaustive(err.Error())
			return
		}
		var got string
		var lerr error
		if p, pm, where := vh.Trap(func() {
			sp, err := h.GetSpec(context.Background(), &crew.SpecSource{Name: "gen"})
			if err != nil {
				lerr = err
				return
			}
			got = rspecs.Trace(sp.Spec(), maxLen)
		}); p {
			c.Violation("C13/mdb-loader-panic/"+variant, pm+" @"+where, c13mdbCase{Spec: as, Variant: variant})
			return
		}
		if lerr != nil {
			c.Violation("C13/mdb-loader/fails-in-this-representation/"+variant, fmt.Sprintf("the specification compiles as Go structures but mdb's GetSpec fails for its file (%s): %v", variant, lerr), c13mdbCase{Spec: as, Variant: variant})
			return
		}
		if got != want {
			c.Violation("C13/mdb-loader/behaves-differently/"+variant, fmt.Sprintf("loaded through mdb's GetSpec (%s) the specification behaves differently from its Go-structure rendering", variant), c13mdbCase{Spec: as, Variant: variant})
		}
	}
	if c.Replay != "" {
		var cs c13mdbCase
		if c.LoadReplay(&cs) == nil && cs.Spec != nil {
			one(cs.Spec, cs.Variant)
		}
		return
	}
	c.Rule("(mdb host loader) every specification of the shared family, and one whose first action fails (as it is, with actionErrorBranches, with an actionErrorNode), written into the debugger's spec directory as a YAML file and as a JSON file, with inline patterns and with JSON-text patterns under patternSyntax json, and loaded by Host.GetSpec: behaviour tree equal to the Go-structure rendering.")
	var idx uint64
	// two specifications whose first action fails: what happens then is decided by settings with multi-word names
	failing := func() *rstep.ASpec {
		return &rstep.ASpec{Nodes: map[string]*rstep.ANode{
			"n0": {Type: "message", Branches: []rstep.ABranch{{Pattern: rspecs.M{"a": "?x"}, Target: "n1"}}},
			"n1": {Action: actlang.P(false, actlang.Op{K: actlang.Throw}), Branches: []rstep.ABranch{{Pattern: rspecs.M{"actionError": "?e"}, Target: "n2"}, {Target: "n0"}}},
			"n2": {Action: actlang.P(false, actlang.Op{K: actlang.Emit, V: rspecs.M{"handled": true}}, actlang.Op{K: actlang.Clear}), Branches: []rstep.ABranch{{Target: "n0"}}},
		}}
	}
	family := append(rspecs.Family(), failing())
	for _, as0 := range family {
		settings := []string{""}
		if _, isFailing := as0.Nodes["n2"]; isFailing && len(as0.Nodes["n1"].Branches) == 2 {
			settings = []string{"", "aeb", "aen"}
		}
		for _, es := range settings {
			as := as0
			if es != "" {
				cp := *as0
				if es == "aeb" {
					cp.ActionErrorBranches = true
				} else {
					// a node of the specification itself
					cp.ActionErrorNode = "n2"
				}
				as = &cp
			}
			for _, v := range []string{"inline-patterns", "json-syntax", "json-file", "json-file-json-syntax"} {
				idx++
				if !c.Mine(idx) || c.Expired() {
					continue
				}
				one(as, v)
			}
		}
	}
}
