package main

import (
	"encoding/json"
	"fmt"
	"os"
	"path/filepath"
	"sort"
	"strings"

	"github.com/Comcast/sheens/verifrt/vh"
)

// C14mdbRepl: the mdb host as its user drives it - the REPL's run / pop / printqueue / print commands.  `run`
// presents a message to the crew and queues what was emitted; `pop` presents the queue's head.  A machine that
// is busy (its walk ends at the step limit before it gets to the message) is the only thing that may not see a
// message it was addressed by; nobody sees a message twice; the queue holds what was emitted and nothing else.

const mdbSlow = `name: slow
nodes:
  start:
    branching:
      branches:
      - pattern:
          warm: 150
        target: listen
      - target: tick
  tick:
    action:
      interpreter: ecmascript
      source: |-
        var bs = _.bindings;
        bs.warm = (bs.warm || 0) + 1;
        return bs;
    branching:
      branches:
      - target: start
  listen:
    branching:
      type: message
      branches:
      - pattern: "?m"
        target: rec
  rec:
    action:
      interpreter: ecmascript
      source: |-
        var m = _.bindings["?m"];
        var log = _.bindings.log || [];
        log.push((m && m.trail) ? m.trail : "?");
        return {log: log, warm: 150};
    branching:
      branches:
      - target: listen
`

type replCase struct {
	Crew  []string    `json:"crew"` // ids; an id starting with "s" is a slow machine
	To    interface{} `json:"to"`
	Pops  int         `json:"pops"`
	Emits bool        `json:"emits"`
}

type replOut struct {
	logs  map[string][]string
	queue []string
	raw   string
}

func runRepl(dir string, cs replCase) (*replOut, error) {
	var script strings.Builder
	for _, id := range cs.Crew {
		spec := "recorder"
		if strings.HasPrefix(id, "s") {
			spec = "slow"
		}
		fmt.Fprintf(&script, "set %s spec %s\n", id, spec)
	}
	msg := map[string]interface{}{"trail": "0"}
	if cs.Emits {
		msg["emit"] = true
	}
	if s, ok := cs.To.(string); !ok || s != "<absent>" {
		msg["to"] = cs.To
	}
	js, _ := json.Marshal(msg)
	fmt.Fprintf(&script, "run %s\n", js)
	for i := 0; i < cs.Pops; i++ {
		script.WriteString("pop\n")
	}
	script.WriteString("printqueue\n")
	for _, id := range cs.Crew {
		fmt.Fprintf(&script, "print %s\n", id)
	}
	inF := filepath.Join(dir, "repl.in")
	outF := filepath.Join(dir, "repl.out")
	os.WriteFile(inF, []byte(script.String()), 0o644)
	in, err := os.Open(inF)
	if err != nil {
		return nil, err
	}
	defer in.Close()
	out, err := os.Create(outF)
	if err != nil {
		return nil, err
	}
	oldIn, oldOut := os.Stdin, os.Stdout
	os.Stdin, os.Stdout = in, out
	var rerr error
	p, pm, where := vh.Trap(func() { rerr = (&Opts{specDir: dir, libDir: ""}).run() })
	os.Stdin, os.Stdout = oldIn, oldOut
	out.Close()
	if p {
		return nil, fmt.Errorf("the REPL panicked: %s @%s", pm, where)
	}
	if rerr != nil {
		return nil, rerr
	}
	b, _ := os.ReadFile(outF)
	o := &replOut{logs: map[string][]string{}, raw: string(b)}
	lines := strings.Split(string(b), "\n")
	// the printqueue section is the last run of "# N. json" lines; the print sections follow in crew order
	printed := 0
	for _, l := range lines {
		l = strings.TrimPrefix(l, "# ")
		if i := strings.Index(l, ". {"); i > 0 && i < 4 {
			var m map[string]interface{}
			if json.Unmarshal([]byte(l[i+2:]), &m) == nil {
				o.queue = append(o.queue, fmt.Sprint(m["trail"]))
			}
		}
		if strings.HasPrefix(strings.TrimSpace(l), "bindings:") {
			var bs map[string]interface{}
			if json.Unmarshal([]byte(strings.TrimSpace(strings.TrimPrefix(strings.TrimSpace(l), "bindings:"))), &bs) == nil && printed < len(cs.Crew) {
				id := cs.Crew[printed]
				if lg, ok := bs["log"].([]interface{}); ok {
					for _, x := range lg {
						o.logs[id] = append(o.logs[id], fmt.Sprint(x))
					}
				}
			}
			printed++
		}
	}
	return o, nil
}

// replRef: mdb's rule (a string names one machine, anything else everybody), a FIFO queue of emitted messages,
// a slow machine that needs 150 steps of warm-up at 100 steps per presentation.
func replRef(cs replCase) (map[string][]string, []string) {
	logs := map[string][]string{}
	warm := map[string]int{}
	type qm struct {
		trail string
		to    interface{}
		hasTo bool
		emit  bool
	}
	first := qm{trail: "0", emit: cs.Emits}
	if s, ok := cs.To.(string); !ok || s != "<absent>" {
		first.to, first.hasTo = cs.To, true
	}
	queue := []qm{}
	present := func(m qm) {
		var rcpt []string
		if s, ok := m.to.(string); ok && m.hasTo {
			for _, id := range cs.Crew {
				if id == s {
					rcpt = append(rcpt, id)
				}
			}
		} else {
			rcpt = append(rcpt, cs.Crew...)
		}
		sort.Strings(rcpt)
		for _, id := range rcpt {
			if strings.HasPrefix(id, "s") {
				// 100 steps per presentation; the warm-up takes 150 tick/start pairs = 300 steps
				if warm[id] < 3 {
					warm[id]++
					if warm[id] < 4 {
						continue
					}
				}
				logs[id] = append(logs[id], m.trail)
				continue
			}
			logs[id] = append(logs[id], m.trail)
			if m.emit {
				queue = append(queue, qm{trail: "e-from-" + id})
			}
		}
	}
	present(first)
	for i := 0; i < cs.Pops && len(queue) > 0; i++ {
		h := queue[0]
		queue = queue[1:]
		present(h)
	}
	var q []string
	for _, m := range queue {
		q = append(q, m.trail)
	}
	return logs, q
}

func C14mdbRepl(c *vh.Ctx) {
	dir, _ := os.MkdirTemp(os.Getenv("VERIF_SCRATCH"), "mdbrepl-")
	defer os.RemoveAll(dir)
	os.WriteFile(filepath.Join(dir, "recorder"), []byte(mdbRecorder), 0o644)
	os.WriteFile(filepath.Join(dir, "slow"), []byte(mdbSlow), 0o644)
	one := func(cs replCase) {
		c.Eval()
		c.Nontrivial()
		o, err := runRepl(dir, cs)
		if err != nil {
			c.Violation("C14/mdb-repl/failed", fmt.Sprintf("%+v: %v", cs, err), cs)
			return
		}
		wantLogs, wantQ := replRef(cs)
		for _, id := range cs.Crew {
			if strings.HasPrefix(id, "s") {
				// how many presentations the warm-up takes is the step limit's business; a slow machine must
				// only never see a message twice, nor one it was not addressed by
				seen := map[string]int{}
				for _, t := range o.logs[id] {
					seen[t]++
					if seen[t] > 1 {
						c.Violation("C14/mdb-repl/duplicate-delivery", fmt.Sprintf("%+v: machine %s saw %v", cs, id, o.logs[id]), cs)
						return
					}
				}
				continue
			}
			got, want := append([]string{}, o.logs[id]...), append([]string{}, wantLogs[id]...)
			sort.Strings(got)
			sort.Strings(want)
			if strings.Join(got, ",") != strings.Join(want, ",") {
				kind := "wrong-deliveries"
				if len(got) > len(want) {
					kind = "duplicate-or-stray-delivery"
				}
				c.Violation("C14/mdb-repl/"+kind, fmt.Sprintf("%+v: machine %s saw %v; addressed to it, once each: %v", cs, id, got, want), cs)
				return
			}
		}
		gq, wq := append([]string{}, o.queue...), append([]string{}, wantQ...)
		sort.Strings(gq)
		sort.Strings(wq)
		if strings.Join(gq, ",") != strings.Join(wq, ",") {
			c.Violation("C14/mdb-repl/queue-is-not-what-was-emitted", fmt.Sprintf("%+v: after the pops the queue holds %v; emitted and not yet presented: %v", cs, gq, wq), cs)
		}
	}
	if c.Replay != "" {
		var cs replCase
		if c.LoadReplay(&cs) == nil && len(cs.Crew) > 0 {
			one(cs)
		}
		return
	}
	c.Rule("mdb REPL: crews of recorder machines and a slow machine (150 rounds of warm-up before it listens, so its first walks end at the step limit) set up with `set ... spec`, one message given with `run` (every target shape, emitting or not), 0-4 `pop`s, then `printqueue` and `print`: every ordinary machine saw exactly the messages addressed to it, once each; no machine saw a message twice; the queue holds exactly what was emitted and not yet presented.")
	crews := [][]string{{"a"}, {"a", "b"}, {"a", "b", "s1"}, {"a", "s1"}, {"s1", "s2", "a"}}
	targets := []interface{}{"<absent>", "a", "b", "s1", "zz", []interface{}{"a", "b"}, 7.0}
	var idx uint64
	for _, cr := range crews {
		for _, to := range targets {
			for _, emits := range []bool{true, false} {
				for pops := 0; pops <= 4; pops++ {
					idx++
					if c.Mine(idx) && !c.Expired() {
						one(replCase{Crew: cr, To: to, Pops: pops, Emits: emits})
					}
				}
			}
		}
	}
}
