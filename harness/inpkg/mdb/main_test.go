package main

import (
	"context"
	"fmt"
	"os"
	"path/filepath"
	"sort"
	"strings"
	"testing"

	"github.com/Comcast/sheens/core"
	"github.com/Comcast/sheens/crew"
	"github.com/Comcast/sheens/match"
	"github.com/Comcast/sheens/verifrt/vh"
)

func TestMain(m *testing.M) {
	vh.Main(map[string]vh.CheckFunc{"C14mdb": C14mdb, "C14mdbRepl": C14mdbRepl, "C13mdb": C13mdb})
}

const mdbRecorder = `name: recorder
nodes:
  start:
    branching:
      type: message
      branches:
      - pattern: "?m"
        target: rec
  rec:
    action:
      interpreter: ecmascript
      source: |-
        var m = _.bindings["?m"];
        var log = _.bindings.log || [];
        log.push((m && m.trail) ? m.trail : "?");
        if (m && m.emit) { _.out({trail: "e-from-" + _.props.mid}); }
        return {log: log};
    branching:
      branches:
      - target: start
`

type mdbCase struct {
	Ids  []string    `json:"ids"`
	To   interface{} `json:"to"`
	Emit bool        `json:"emit"`
}

// C14mdb: routing in the mdb host (no re-injection there: Process returns what was emitted).
func C14mdb(c *vh.Ctx) {
	dir, _ := os.MkdirTemp(os.Getenv("VERIF_SCRATCH"), "mdb-")
	defer os.RemoveAll(dir)
	os.WriteFile(filepath.Join(dir, "recorder"), []byte(mdbRecorder), 0o644)
	one := func(cs mdbCase) {
		c.Eval()
		c.Nontrivial()
		h, err := NewHost(dir, "")
		if err != nil {
			c.NotExhaustive(err.Error())
			return
		}
		ctx := context.Background()
		for _, id := range cs.Ids {
			sp, err := h.GetSpec(ctx, &crew.SpecSource{Name: "recorder"})
			if err != nil {
				c.NotExhaustive("recorder spec: " + err.Error())
				return
			}
			h.crew.Machines[id] = &crew.Machine{Id: id, Specter: sp, State: &core.State{NodeName: "start", Bs: match.NewBindings()}}
		}
		msg := map[string]interface{}{"trail": "0"}
		if cs.Emit {
			msg["emit"] = true
		}
		if s, ok := cs.To.(string); !ok || s != "<absent>" {
			msg["to"] = cs.To
		}
		var ws map[string]*core.Walked
		if p, pm, where := vh.Trap(func() { ws, err = h.Process(ctx, msg, nil) }); p {
			c.Violation("C14/mdb/panic/"+where, pm, cs)
			return
		}
		// reference: a string names one machine; anything else (or nothing) means everybody
		want := map[string]bool{}
		if s, ok := cs.To.(string); ok && s != "<absent>" {
			for _, id := range cs.Ids {
				if id == s {
					want[id] = true
				}
			}
		} else {
			for _, id := range cs.Ids {
				want[id] = true
			}
		}
		var got, exp []string
		emitted := 0
		for _, id := range cs.Ids {
			m := h.crew.Machines[id]
			n := 0
			if l, ok := m.State.Bs["log"].([]interface{}); ok {
				n = len(l)
			}
			if n > 0 {
				got = append(got, fmt.Sprintf("%s x%d", id, n))
			}
			if want[id] {
				exp = append(exp, id+" x1")
			}
			if w := ws[id]; w != nil {
				w.DoEmitted(func(interface{}) error { emitted++; return nil })
			}
		}
		sort.Strings(got)
		sort.Strings(exp)
		c.Outcome("mdb", strings.Join(got, ","))
		if strings.Join(got, ",") != strings.Join(exp, ",") {
			c.Violation("C14/mdb/wrong-recipients/to="+fmt.Sprintf("%T", cs.To), fmt.Sprintf("machines %v, to=%v: received by %v, addressed to %v", cs.Ids, cs.To, got, exp), cs)
		}
		wantEmitted := 0
		if cs.Emit {
			wantEmitted = len(exp)
		}
		if emitted != wantEmitted {
			c.Violation("C14/mdb/emitted-not-reported-exactly-once", fmt.Sprintf("machines %v, to=%v: %d emitted messages reported, %d emitted", cs.Ids, cs.To, emitted, wantEmitted), cs)
		}
	}
	if c.Replay != "" {
		var cs mdbCase
		if c.LoadReplay(&cs) == nil {
			one(cs)
		}
		return
	}
	c.Rule("mdb host: crews over ids {a, b, \"\", timers} x routing target {absent, each id, unknown id, \"*\", list, number, \"\"} x emitting or not; oracle: mdb's documented rule (a string names one machine, anything else means all), each recipient exactly once, every emitted message in the returned Walked exactly once.")
	idsets := [][]string{{"a"}, {"a", "b"}, {"a", "b", ""}, {"a", "timers"}, {"", "b"}}
	targets := []interface{}{"<absent>", "a", "b", "zz", "*", []interface{}{"a", "b"}, 7.0, "", "timers", nil, true}
	var idx uint64
	for _, ids := range idsets {
		for _, to := range targets {
			for _, emit := range []bool{false, true} {
				idx++
				if c.Mine(idx) {
					cs := mdbCase{Ids: ids, To: to, Emit: emit}
					one(cs)
					if c.WantSample() {
						c.Sample(cs)
					}
				}
			}
		}
	}
}
