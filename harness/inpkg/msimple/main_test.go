package main

import (
	"context"
	"encoding/json"
	"flag"
	"fmt"
	"io"
	"log"
	"os"
	"path/filepath"
	"strings"
	"testing"

	"github.com/Comcast/sheens/core"
	"github.com/Comcast/sheens/match"
	"github.com/Comcast/sheens/verifrt/ref/rspecs"
	"github.com/Comcast/sheens/verifrt/ref/rstep"
	"github.com/Comcast/sheens/verifrt/vh"
)

func TestMain(m *testing.M) {
	vh.Main(map[string]vh.CheckFunc{"C13msimple": C13msimple})
}

// C13msimple: the single-machine host as its user runs it.  cmd/msimple's main() reads a YAML file through
// tools.ReadFileWithInlines, decodes and compiles it with the standard interpreters, and then feeds the
// machine the lines of its standard input, printing what it emits.  For every specification of the shared
// family, written as a file in several ways, what main() prints for a message sequence must be what the
// Go-structure rendering of the specification emits for it.

type msCase struct {
	Spec    *rstep.ASpec  `json:"spec"`
	Variant string        `json:"variant"` // inline-patterns | json-syntax | inlined-sources | inlined-sources-json-syntax
	Msgs    []interface{} `json:"msgs"`
}

// msWant: the emissions of the Go-structure rendering, message by message with the state carried over.
func msWant(as *rstep.ASpec, msgs []interface{}) ([]string, bool) {
	spec, err := as.Build()
	if err != nil {
		return nil, false
	}
	st := &core.State{NodeName: "n0", Bs: match.NewBindings()}
	var out []string
	for _, m := range msgs {
		// what arrives is what a JSON line decodes to
		js, _ := json.Marshal(m)
		var msg interface{}
		json.Unmarshal(js, &msg)
		w, err := spec.Walk(context.Background(), st, []interface{}{msg}, core.DefaultControl, map[string]interface{}{"mid": "default", "cid": "default"})
		if err != nil || w == nil {
			return nil, false
		}
		if w.Error != nil {
			return nil, false // the host's behaviour after an internal error is its own business
		}
		if to := w.To(); to != nil {
			st = to
		}
		// with -d the host prints the state it goes on with, then what was emitted
		js, _ = json.Marshal(map[string]interface{}{"state": map[string]interface{}{"node": st.NodeName, "bs": st.Bs}})
		out = append(out, string(js))
		w.DoEmitted(func(x interface{}) error {
			js, _ := json.Marshal(x)
			out = append(out, string(js))
			return nil
		})
	}
	return out, true
}

func msRun(dir string, cs msCase) (lines []string, panicked bool, pmsg string) {
	jsonSyntax := strings.Contains(cs.Variant, "json-syntax")
	doc, ok := cs.Spec.Doc("yaml", jsonSyntax)
	if !ok {
		return nil, false, ""
	}
	if strings.HasPrefix(cs.Variant, "inlined-sources") {
		nodes, _ := doc["nodes"].(map[string]interface{})
		for name, n := range nodes {
			nm, _ := n.(map[string]interface{})
			act, _ := nm["action"].(map[string]interface{})
			if act == nil {
				continue
			}
			src, _ := json.Marshal(act["source"])
			os.WriteFile(filepath.Join(dir, name+".src"), src, 0o644)
			act["source"] = "@@INLINE:" + name + "@@"
		}
	}
	y := rstep.YAML(doc)
	if strings.HasPrefix(cs.Variant, "inlined-sources") {
		for name := range cs.Spec.Nodes {
			y = strings.ReplaceAll(y, `"@@INLINE:`+name+`@@"`, `%inline("`+name+`.src")`)
		}
	}
	specFile := filepath.Join(dir, "gen.yaml")
	os.WriteFile(specFile, []byte(y), 0o644)
	var in strings.Builder
	for _, m := range cs.Msgs {
		js, _ := json.Marshal(m)
		in.Write(js)
		in.WriteString("\n")
	}
	inFile, outFile := filepath.Join(dir, "in.txt"), filepath.Join(dir, "out.txt")
	os.WriteFile(inFile, []byte(in.String()), 0o644)
	fin, _ := os.Open(inFile)
	fout, _ := os.Create(outFile)
	oldArgs, oldIn, oldOut := os.Args, os.Stdin, os.Stdout
	os.Args = []string{"msimple", "-s", specFile, "-n", "n0", "-r=false", "-d"}
	os.Stdin, os.Stdout = fin, fout
	flag.CommandLine = flag.NewFlagSet("msimple", flag.ContinueOnError)
	panicked, pmsg, _ = vh.Trap(func() { main() })
	os.Args, os.Stdin, os.Stdout = oldArgs, oldIn, oldOut
	fin.Close()
	fout.Close()
	raw, _ := os.ReadFile(outFile)
	for _, l := range strings.Split(string(raw), "\n") {
		if strings.HasPrefix(l, "# next ") {
			// the state the host goes on with (diagnostics)
			var st core.State
			if json.Unmarshal([]byte(strings.TrimPrefix(l, "# next ")), &st) == nil {
				js, _ := json.Marshal(map[string]interface{}{"state": map[string]interface{}{"node": st.NodeName, "bs": st.Bs}})
				l = string(js)
			}
		} else if l == "" || strings.HasPrefix(l, "#") {
			continue
		}
		lines = append(lines, l)
	}
	return
}

func msCanon(lines []string) string {
	var out []string
	for _, l := range lines {
		var x interface{}
		if json.Unmarshal([]byte(l), &x) != nil {
			out = append(out, "UNPARSED:"+l)
			continue
		}
		out = append(out, rstep.Canon(x))
	}
	return strings.Join(out, " ")
}

func C13msimple(c *vh.Ctx) {
	log.SetOutput(io.Discard)
	dir, _ := os.MkdirTemp(os.Getenv("VERIF_SCRATCH"), "msimple-")
	defer os.RemoveAll(dir)
	one := func(cs msCase) {
		c.Eval()
		want, ok := msWant(cs.Spec, cs.Msgs)
		if !ok {
			return
		}
		if len(want) > 0 {
			c.Nontrivial()
		}
		got, p, pm := msRun(dir, cs)
		if p {
			c.Violation("C13/msimple/fails-in-this-representation/"+cs.Variant, fmt.Sprintf("the specification compiles and runs as Go structures; cmd/msimple given its YAML file (%s) panics: %s", cs.Variant, pm), cs)
			return
		}
		if msCanon(got) != msCanon(want) {
			c.Violation("C13/msimple/behaves-differently/"+cs.Variant, fmt.Sprintf("cmd/msimple (%s) printed %s for the messages %s; the Go-structure rendering emits %s", cs.Variant, msCanon(got), rstep.Canon(cs.Msgs), msCanon(want)), cs)
		}
	}
	if c.Replay != "" {
		var cs msCase
		if c.LoadReplay(&cs) == nil && cs.Spec != nil {
			one(cs)
		}
		return
	}
	c.Rule("(msimple host) every specification of the shared family (every ordered pair of 11 patterns of every JSON shape on two branches, with emitting ECMAScript actions) written as a YAML file - inline patterns, JSON-text patterns under patternSyntax json, and both with the action sources in separate files pulled in by %inline - and run by cmd/msimple's main() on its standard input: every single message, and one long sequence of all messages twice; what main() prints - the emitted messages and, with -d, the state it goes on with after each message - must be what the Go-structure rendering emits and arrives at.")
	var seqs [][]interface{}
	for _, m := range rspecs.Msgs {
		seqs = append(seqs, []interface{}{m})
	}
	long := append(append([]interface{}{}, rspecs.Msgs...), rspecs.Msgs...)
	seqs = append(seqs, long)
	variants := []string{"inline-patterns", "json-syntax", "inlined-sources", "inlined-sources-json-syntax"}
	var idx uint64
	for si, as := range rspecs.Family() {
		for vi, v := range variants {
			for qi, sq := range seqs {
				idx++
				if !c.Mine(idx) || c.Expired() {
					continue
				}
				if c.Quick() && qi < len(seqs)-1 && (si+vi+qi)%4 != 0 {
					continue // quick: the long sequence always, every fourth single message
				}
				one(msCase{Spec: as, Variant: v, Msgs: sq})
			}
		}
	}
}
