module verif

go 1.20
