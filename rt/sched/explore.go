package sched

import (
	"fmt"
)

// RunFunc executes the scenario once, replaying prefix (with the recorded
// enabled-set sizes) and taking choice 0 afterwards; it returns the finished
// execution.
type RunFunc func(prefix, prefixN []int) *Exec

// Stats of one exploration.
type Stats struct {
	Schedules   int
	Transitions int
	Nondet      int
	Stuck       int
	Horizons    int
	MultiEvent  int
	Capped      bool
	MaxDevsDone int
	NondetNotes []string
}

// Explore is the stateless DFS with deviation bounding: every choice other
// than 0 is one deviation.  mine(i) shards the level-1 subtrees.  visit is
// called for every completed execution.
func Explore(bound, maxRuns int, mine func(uint64) bool, rootOnShard0 bool, run RunFunc, visit func(x *Exec, devs int)) Stats {
	var st Stats
	var sub uint64
	var rec func(prefix, prefixN []int, devs int)
	rec = func(prefix, prefixN []int, devs int) {
		if st.Capped {
			return
		}
		if st.Schedules >= maxRuns {
			st.Capped = true
			return
		}
		x := run(prefix, prefixN)
		if x.Nondet != "" {
			// retry once: a genuine replay divergence is nondeterminism in the machinery
			x = run(prefix, prefixN)
			if x.Nondet != "" {
				st.Nondet++
				if len(st.NondetNotes) < 3 {
					st.NondetNotes = append(st.NondetNotes, fmt.Sprintf("%s | prefix %v sizes %v | trace %v", x.Nondet, prefix, prefixN, FormatTrace(x.Trace)))
				}
				return
			}
		}
		if x.Stuck {
			st.Stuck++
			return
		}
		if x.HorizonHit {
			st.Horizons++
		}
		st.MultiEvent += x.MultiEventSteps
		if devs > 0 || rootOnShard0 {
			st.Schedules++
			st.Transitions += len(x.Trace)
			visit(x, devs)
		}
		if devs >= bound {
			return
		}
		tr := x.Trace
		for i := len(prefix); i < len(tr); i++ {
			for alt := 1; alt < tr[i].N; alt++ {
				if devs == 0 {
					sub++
					if !mine(sub) {
						continue
					}
				}
				np := make([]int, i+1)
				nn := make([]int, i+1)
				for k := 0; k < i; k++ {
					np[k], nn[k] = tr[k].C, tr[k].N
				}
				np[i], nn[i] = alt, tr[i].N
				DebugParentEnabled = DebugParentEnabled[:0]
				for k := 0; k <= i; k++ {
					DebugParentEnabled = append(DebugParentEnabled, tr[k].En)
				}
				rec(np, nn, devs+1)
			}
		}
	}
	rec(nil, nil, 0)
	st.MaxDevsDone = bound
	return st
}

// FormatTrace renders a schedule.
func FormatTrace(tr []Choice) []string {
	out := make([]string, len(tr))
	for i, c := range tr {
		out[i] = fmt.Sprintf("%d/%d %s", c.C, c.N, c.What)
	}
	return out
}

// Choices extracts the choice indexes and set sizes.
func Choices(tr []Choice) (cs, ns []int) {
	for _, c := range tr {
		cs = append(cs, c.C)
		ns = append(ns, c.N)
	}
	return
}
