// Package sched is engine E2: a cooperative scheduler for the real code.
//
// Goroutines of the code under test reach *points* through the import shims
// (vsync, vatomic, vtime) and through harness calls (Yield).  At a point the
// goroutine posts its pending operation in its mailbox and parks on its own
// gate channel.  The scheduler goroutine waits until the process is quiescent
// (every goroutine created since the execution began is parked at a point,
// blocked, or gone - read from runtime.Stack), computes the enabled set
// (parked threads whose operation is enabled + environment events: virtual
// timers that may fire, harness events), takes the choice the explorer asks
// for, and opens that gate / performs that event.
//
// Everything here is //go:norace and free of function literals: under -race
// the thread->scheduler hand-off is a plain (uninstrumented) store, so the
// scheduler adds no happens-before edge between threads and ThreadSanitizer
// still sees races between the segments a schedule happened to serialise.
package sched

import (
	"bytes"
	"fmt"
	"runtime"
	"strconv"
	"time"
)

type Op int

const (
	OpNone Op = iota
	OpStart
	OpYield
	OpLock
	OpRLock
	OpAtomic
	OpWait // enabled while the posted condition holds
)

func (o Op) String() string {
	return [...]string{"none", "start", "yield", "lock", "rlock", "atomic", "wait"}[o]
}

// MutexState is the scheduler's view of a shimmed mutex.
type MutexState struct {
	Owner   int32 // logical id + 1 of the writer holding it
	Readers int32
}

type Thread struct {
	Name    string
	LID     int
	goid    int64
	gate    chan struct{}
	status  int32 // 0 running (or blocked outside), 1 parked at a point, 2 finished
	op      Op
	mu      *MutexState
	label   string
	cond    func() bool
	harness bool
	daemon  bool
}

// VTimer is a virtual timer.
type VTimer struct {
	Creator int64 // goroutine id of the creator: creation order of goroutines is program order, arrival order here is not
	ID      int
	Due     int64
	C       chan time.Time
	State   int32 // 0 pending, 1 fired, 2 stopped
	Fn      func()
}

// Event is a harness-defined environment event.
type Event struct {
	Name    string
	Enabled func() bool
	Do      func()
	Once    bool
	done    bool
}

const (
	maxThreads = 256
	goidWindow = 1 << 15
	maxTimers  = 512
)

// Choice records one decision.
type Choice struct {
	N    int    // size of the enabled set
	C    int    // index taken
	What string // description of what was taken
	En   string // description of the whole enabled set
}

// DebugParentEnabled: descriptions of the enabled sets of the execution whose prefix is being replayed (diagnostics).
var DebugParentEnabled []string

type Exec struct {
	active         bool
	draining       bool
	baseGoid       int64
	byGoid         [goidWindow]*Thread
	threads        [maxThreads]*Thread
	nthreads       int
	nextHarnessLID int
	nextSpawnLID   int
	timers         [maxTimers]*VTimer
	ntimers        int
	now            int64
	events         []*Event
	last           *Thread

	prefix          []int
	prefixN         []int
	Trace           []Choice
	Horizon         int
	Stuck           bool
	HorizonHit      bool
	Nondet          string
	Deadlock        string
	CloseEvents     int
	MultiEventSteps int
	stepEvents      int
	Log             []string
	UserData        interface{}
	exited          chan struct{} // harness threads signal their exit here (a real happens-before edge for the harness's final reads)
	lastDumpCount   int           // runtime.NumGoroutine() at the last full dump
	lastProbe       int64         // goroutine id of the last probe goroutine
	released        *Thread
	FullDumps       int
	FastSteps       int
	TimersFired     int
	stackBuf        []byte
}

// MaxDump is the largest goroutine dump seen (diagnostics).
var MaxDump int

// sharedStackBuf is reused by successive executions (and grows when needed).
var sharedStackBuf []byte

// cur is the execution in progress (one at a time per process).
var cur *Exec

// Epoch of the virtual clock.
var Epoch = time.Date(2030, 1, 1, 0, 0, 0, 0, time.UTC)

//go:norace
func Active() bool { x := cur; return x != nil && x.active }

//go:norace
func Current() *Exec { return cur }

// Mine reports whether an execution is active AND the calling goroutine was
// created during it (goroutines left over from an earlier execution must
// never touch the current one).
//
//go:norace
func Mine() bool {
	x := cur
	if x == nil || !x.active {
		return false
	}
	return curGoid() > x.baseGoid
}

//go:norace
func curGoid() int64 {
	var buf [64]byte
	n := runtime.Stack(buf[:], false)
	// "goroutine 123 ["
	b := buf[:n]
	b = b[len("goroutine "):]
	i := bytes.IndexByte(b, ' ')
	id, _ := strconv.ParseInt(string(b[:i]), 10, 64)
	return id
}

// NewExec prepares an execution that will replay prefix (and take choice 0 afterwards).
//
//go:norace
func NewExec(prefix []int, prefixN []int) *Exec {
	x := &Exec{prefix: prefix, prefixN: prefixN, Horizon: 3000, nextSpawnLID: 100, exited: make(chan struct{}, maxThreads)}
	x.baseGoid = maxGoid()
	if sharedStackBuf == nil {
		sharedStackBuf = make([]byte, 1<<20)
	}
	x.stackBuf = sharedStackBuf
	x.active = true
	cur = x
	return x
}

// maxGoid returns a goroutine id that every goroutine created from now on
// exceeds: the id of a probe goroutine (ids are handed out in increasing
// order on one P; E2 workers run with GOMAXPROCS=1).
//
//go:norace
func maxGoid() int64 {
	ch := make(chan int64, 1)
	go goidProbe(ch)
	return <-ch
}

//go:norace
func goidProbe(ch chan int64) { ch <- curGoid() }

type ginfo struct {
	id     int64
	state  string
	parent int64
}

//go:norace
func parseStacks(b []byte) []ginfo {
	var out []ginfo
	for len(b) > 0 {
		i := bytes.Index(b, []byte("goroutine "))
		if i < 0 {
			break
		}
		if i > 0 && b[i-1] != '\n' {
			b = b[i+10:]
			continue
		}
		b = b[i+10:]
		sp := bytes.IndexByte(b, ' ')
		if sp < 0 {
			break
		}
		id, err := strconv.ParseInt(string(b[:sp]), 10, 64)
		if err != nil {
			continue
		}
		if len(b) <= sp+1 || b[sp+1] != '[' {
			// "in goroutine N" of a created-by line
			if len(out) > 0 {
				out[len(out)-1].parent = id
			}
			continue
		}
		rb := bytes.IndexByte(b, ']')
		if rb < 0 {
			break
		}
		st := string(b[sp+2 : rb])
		if c := bytes.IndexByte([]byte(st), ','); c >= 0 {
			st = st[:c]
		}
		out = append(out, ginfo{id: id, state: st})
		b = b[rb:]
	}
	return out
}

//go:norace
func busyState(s string) bool {
	switch s {
	case "running", "runnable", "syscall", "sleep", "copystack", "preempted":
		return true
	}
	return false
}

// self returns (registering if needed) the Thread of the calling goroutine.
//
//go:norace
func (x *Exec) self() *Thread {
	g := curGoid()
	idx := g - x.baseGoid
	if idx <= 0 || idx >= goidWindow {
		// a goroutine older than the execution (or far beyond the window): not managed
		return nil
	}
	t := x.byGoid[idx]
	if t == nil {
		t = &Thread{LID: -1, goid: g, gate: make(chan struct{})}
		x.byGoid[idx] = t
	}
	return t
}

// Point parks the calling goroutine at a point with the given operation.
//
//go:norace
func Point(op Op, mu *MutexState, label string) {
	x := cur
	if x == nil || !x.active || x.draining {
		return
	}
	t := x.self()
	if t == nil {
		return
	}
	t.op, t.mu, t.label = op, mu, label
	park(t)
}

//go:norace
//go:noinline
func park(t *Thread) {
	publish(t)
	<-t.gate
}

//go:norace
//go:noinline
func publish(t *Thread) { t.status = 1 }

// WaitUntil parks the calling harness thread until the scheduler finds cond
// true at a quiescent moment and chooses the thread.
//
//go:norace
func WaitUntil(label string, cond func() bool) {
	x := cur
	if x == nil || !x.active || x.draining {
		return
	}
	t := x.self()
	if t == nil {
		return
	}
	t.op, t.mu, t.label, t.cond = OpWait, nil, label, cond
	park(t)
}

// Yield is a harness scheduling point.
//
//go:norace
func Yield(label string) { Point(OpYield, nil, label) }

// Go starts a harness thread.
//
//go:norace
func (x *Exec) Go(name string, fn func()) {
	t := &Thread{Name: name, LID: x.nextHarnessLID, gate: make(chan struct{}), harness: true}
	x.nextHarnessLID++
	x.threads[x.nthreads] = t
	x.nthreads++
	go threadMain(x, t, fn)
}

// GoDaemon starts a harness thread that is allowed to stay blocked at the end
// of the execution (a service loop).
//
//go:norace
func (x *Exec) GoDaemon(name string, fn func()) {
	x.Go(name, fn)
	x.threads[x.nthreads-1].daemon = true
}

//go:norace
func threadMain(x *Exec, t *Thread, fn func()) {
	t.goid = curGoid()
	idx := t.goid - x.baseGoid
	if idx > 0 && idx < goidWindow {
		x.byGoid[idx] = t
	}
	t.op, t.label = OpStart, "start"
	park(t)
	fn()
	t.status = 2
	x.exited <- struct{}{}
}

// AddEvent registers a harness environment event.
//
//go:norace
func (x *Exec) AddEvent(e *Event) { x.events = append(x.events, e) }

// Logf appends to the execution's log (thread-safe enough under the scheduler).
//
//go:norace
func (x *Exec) Logf(f string, a ...interface{}) {
	x.Log = append(x.Log, fmt.Sprintf(f, a...))
}

// ---- virtual time --------------------------------------------------------------

// TimersFired reports how many virtual timers the scheduler has fired in the current execution.
//
//go:norace
func TimersFired() int {
	x := cur
	if x == nil {
		return 0
	}
	return x.TimersFired
}

//go:norace
func NowNS() int64 {
	x := cur
	if x == nil {
		return 0
	}
	return x.now
}

//go:norace
func NewVTimer(d int64, fn func()) *VTimer {
	x := cur
	vt := &VTimer{C: make(chan time.Time, 1), Fn: fn}
	if x == nil || !x.active || curGoid() <= x.baseGoid {
		vt.State = 2
		return vt
	}
	if d < 0 {
		d = 0
	}
	vt.Due = x.now + d
	vt.Creator = curGoid()
	vt.ID = x.ntimers
	if x.ntimers < maxTimers {
		x.timers[x.ntimers] = vt
		x.ntimers++
	}
	return vt
}

//go:norace
func (vt *VTimer) Stop() bool {
	if vt.State == 0 {
		vt.State = 2
		return true
	}
	return false
}

//go:norace
func (vt *VTimer) Reset(d int64) bool {
	x := cur
	was := vt.State == 0
	if x != nil {
		if d < 0 {
			d = 0
		}
		vt.Due = x.now + d
	}
	vt.State = 0
	return was
}

// StopPendingTimers stops every virtual timer that has not fired yet: the process that owned them is gone
// (a harness that models a host going down calls this once the old process's goroutines have been told to end).
// It returns how many were stopped.
//
//go:norace
func StopPendingTimers() int {
	x := cur
	n := 0
	if x == nil {
		return 0
	}
	for i := 0; i < x.ntimers; i++ {
		if x.timers[i].State == 0 {
			x.timers[i].State = 2
			n++
		}
	}
	return n
}

// NoteClose counts channel closes per scheduler step.
//
//go:norace
func NoteClose() {
	x := cur
	if x != nil && x.active && curGoid() > x.baseGoid {
		x.CloseEvents++
		x.stepEvents++
	}
}

// ---- scheduler loop ------------------------------------------------------------

type enabledItem struct {
	t  *Thread
	vt *VTimer
	ev *Event
}

//go:norace
func (x *Exec) describe(it enabledItem) string {
	switch {
	case it.t != nil:
		n := it.t.Name
		if n == "" {
			n = "g" + strconv.Itoa(it.t.LID)
		}
		return n + ":" + it.t.op.String() + ":" + it.t.label
	case it.vt != nil:
		return "fire-timer#" + strconv.Itoa(it.vt.ID) + "@" + strconv.FormatInt(it.vt.Due/1000000, 10) + "ms"
	default:
		return "event:" + it.ev.Name
	}
}

// waitQuiescent yields until no goroutine created since the execution began is busy.
//
// fastQuiescent: the cheap test that avoids a full goroutine dump.  It applies
// when the last action released a thread, nothing that can wake a goroutine
// outside the scheduler's view was noted in this step (channel close, timer
// delivery, harness event), no managed thread is blocked outside a point, and
// the number of goroutines is what it was at the last full dump.  Then the
// only goroutine that ran is the released thread (and goroutines it created,
// which would change the count), and it has parked or finished.
//
//go:norace
func (x *Exec) fastQuiescent() bool {
	t := x.released
	if t == nil || x.stepEvents != 0 || x.lastDumpCount == 0 {
		return false
	}
	for round := 0; round < 4; round++ {
		runtime.Gosched()
		if t.status == 1 || t.status == 2 {
			break
		}
	}
	if t.status == 2 {
		// its goroutine is exiting: the count is about to drop by one; take the slow path
		return false
	}
	if t.status != 1 {
		return false
	}
	if runtime.NumGoroutine() != x.lastDumpCount {
		return false
	}
	// no goroutine may have been created in this step: goroutine ids are handed out in increasing
	// order (one P), so a probe goroutine must get the id right after the previous probe's
	probe := maxGoid()
	fresh := probe != x.lastProbe+1
	x.lastProbe = probe
	if fresh {
		return false
	}
	for i := 0; i < x.nthreads; i++ {
		if s := x.threads[i].status; s == 0 {
			return false
		}
	}
	// one more yield so that the released thread is really blocked on its gate
	runtime.Gosched()
	return true
}

// waitQuiescent yields until no goroutine created since the execution began is busy.
//
//go:norace
func (x *Exec) waitQuiescent() bool {
	if x.fastQuiescent() {
		x.FastSteps++
		return true
	}
	deadline := time.Now().Add(20 * time.Second)
	for spin := 0; ; spin++ {
		runtime.Gosched()
		n := runtime.Stack(x.stackBuf, true)
		x.FullDumps++
		for n >= len(x.stackBuf)-1 && len(x.stackBuf) < 256<<20 {
			// many (leaked, blocked) goroutines: grow the buffer rather than miss the newest ones
			x.stackBuf = make([]byte, 2*len(x.stackBuf))
			sharedStackBuf = x.stackBuf
			n = runtime.Stack(x.stackBuf, true)
		}
		if n >= len(x.stackBuf)-1 {
			panic("sched: goroutine dump truncated (too many live goroutines)")
		}
		if n > MaxDump {
			MaxDump = n
		}
		gs := parseStacks(x.stackBuf[:n])
		me := curGoid()
		busy := false
		var fresh []*Thread
		for _, g := range gs {
			if g.id == me || g.id <= x.baseGoid {
				continue
			}
			idx := g.id - x.baseGoid
			var t *Thread
			if idx < goidWindow {
				t = x.byGoid[idx]
			}
			if t != nil && t.status == 1 {
				if busyState(g.state) {
					busy = true // posted, not yet blocked on its gate
				}
				if t.LID < 0 {
					fresh = append(fresh, t)
				}
				continue
			}
			if busyState(g.state) {
				busy = true
			}
		}
		if !busy {
			// logical ids for newly managed goroutines, in creation (goid) order
			for i := 1; i < len(fresh); i++ {
				for j := i; j > 0 && fresh[j].goid < fresh[j-1].goid; j-- {
					fresh[j], fresh[j-1] = fresh[j-1], fresh[j]
				}
			}
			for _, t := range fresh {
				t.LID = x.nextSpawnLID
				x.nextSpawnLID++
				if x.nthreads < maxThreads {
					x.threads[x.nthreads] = t
					x.nthreads++
				}
			}
			// threads that vanished have finished
			alive := map[int64]bool{}
			for _, g := range gs {
				alive[g.id] = true
			}
			for i := 0; i < x.nthreads; i++ {
				t := x.threads[i]
				if t.status != 2 && t.goid != 0 && !alive[t.goid] {
					t.status = 2
				}
			}
			x.lastDumpCount = runtime.NumGoroutine()
			x.lastProbe = maxGoid()
			return true
		}
		if spin > 50 {
			time.Sleep(50 * time.Microsecond)
		}
		if time.Now().After(deadline) {
			x.Stuck = true
			return false
		}
	}
}

//go:norace
func (x *Exec) opEnabled(t *Thread) bool {
	switch t.op {
	case OpLock:
		return t.mu.Owner == 0 && t.mu.Readers == 0
	case OpRLock:
		return t.mu.Owner == 0
	case OpWait:
		return t.cond == nil || t.cond()
	}
	return true
}

//go:norace
func (x *Exec) threadLess(a, b *Thread) bool {
	if (a == x.last) != (b == x.last) {
		return a == x.last
	}
	return a.LID < b.LID
}

//go:norace
func timerLess(a, b *VTimer) bool {
	if a.Due != b.Due {
		return a.Due < b.Due
	}
	if a.Creator != b.Creator {
		return a.Creator < b.Creator
	}
	return a.ID < b.ID
}

//go:norace
func (x *Exec) enabled() []enabledItem {
	var ts []*Thread
	for i := 0; i < x.nthreads; i++ {
		t := x.threads[i]
		if t.status == 1 && x.opEnabled(t) {
			ts = append(ts, t)
		}
	}
	for i := 1; i < len(ts); i++ {
		for j := i; j > 0 && x.threadLess(ts[j], ts[j-1]); j-- {
			ts[j], ts[j-1] = ts[j-1], ts[j]
		}
	}
	var out []enabledItem
	for _, t := range ts {
		out = append(out, enabledItem{t: t})
	}
	var vts []*VTimer
	for i := 0; i < x.ntimers; i++ {
		if x.timers[i].State == 0 {
			vts = append(vts, x.timers[i])
		}
	}
	for i := 1; i < len(vts); i++ {
		for j := i; j > 0 && timerLess(vts[j], vts[j-1]); j-- {
			vts[j], vts[j-1] = vts[j-1], vts[j]
		}
	}
	for _, vt := range vts {
		out = append(out, enabledItem{vt: vt})
	}
	for _, e := range x.events {
		if e.done && e.Once {
			continue
		}
		if e.Enabled == nil || e.Enabled() {
			out = append(out, enabledItem{ev: e})
		}
	}
	return out
}

// Run drives the execution to its end.
//
//go:norace
func (x *Exec) Run() {
	for step := 0; ; step++ {
		if !x.waitQuiescent() {
			return
		}
		if x.stepEvents > 1 {
			x.MultiEventSteps++
		}
		x.stepEvents = 0
		en := x.enabled()
		if len(en) == 0 {
			break
		}
		if step >= x.Horizon {
			x.HorizonHit = true
			break
		}
		c := 0
		if step < len(x.prefix) {
			c = x.prefix[step]
			if step < len(x.prefixN) && x.prefixN[step] != len(en) {
				desc := ""
				for _, it := range en {
					desc += x.describe(it) + ", "
				}
				rec := ""
				if step < len(DebugParentEnabled) {
					rec = DebugParentEnabled[step]
				}
				x.Nondet = fmt.Sprintf("step %d: %d enabled on replay (%s), %d when recorded (%s)", step, len(en), desc, x.prefixN[step], rec)
				break
			}
			if c >= len(en) {
				x.Nondet = fmt.Sprintf("step %d: choice %d of %d", step, c, len(en))
				break
			}
		}
		it := en[c]
		all := ""
		for _, e := range en {
			all += x.describe(e) + ", "
		}
		x.Trace = append(x.Trace, Choice{N: len(en), C: c, What: x.describe(it), En: all})
		switch {
		case it.t != nil:
			t := it.t
			switch t.op {
			case OpLock:
				t.mu.Owner = int32(t.LID) + 1
			case OpRLock:
				t.mu.Readers++
			}
			t.status = 0
			x.last = t
			x.released = t
			t.gate <- struct{}{}
		case it.vt != nil:
			x.released = nil
			vt := it.vt
			vt.State = 1
			x.TimersFired++
			if vt.Due > x.now {
				x.now = vt.Due
			}
			x.stepEvents++
			if vt.Fn != nil {
				go vt.Fn()
			} else {
				select {
				case vt.C <- Epoch.Add(time.Duration(x.now)):
				default:
				}
			}
		default:
			x.released = nil
			it.ev.done = true
			x.stepEvents++
			it.ev.Do()
		}
	}
	// classify the end
	for i := 0; i < x.nthreads; i++ {
		t := x.threads[i]
		if t.status == 1 && !t.daemon && !x.opEnabled(t) {
			x.Deadlock += fmt.Sprintf("%s blocked at %s:%s; ", t.Name, t.op, t.label)
		}
	}
}

// Finish switches the shims to pass-through and releases whatever is parked.
//
//go:norace
func (x *Exec) Finish() {
	x.draining = true
	x.active = false
	for i := 0; i < x.nthreads; i++ {
		t := x.threads[i]
		if t.status == 1 {
			t.status = 0
			select {
			case t.gate <- struct{}{}:
			default:
			}
		}
	}
	// late registrations
	for round := 0; round < 200; round++ {
		runtime.Gosched()
		n := runtime.Stack(x.stackBuf, true)
		busy := false
		me := curGoid()
		for _, g := range parseStacks(x.stackBuf[:n]) {
			if g.id == me || g.id <= x.baseGoid {
				continue
			}
			idx := g.id - x.baseGoid
			if idx < goidWindow {
				if t := x.byGoid[idx]; t != nil && t.status == 1 {
					t.status = 0
					select {
					case t.gate <- struct{}{}:
					default:
					}
					busy = true
					continue
				}
			}
			if busyState(g.state) {
				busy = true
			}
		}
		if !busy {
			break
		}
		if round > 20 {
			time.Sleep(100 * time.Microsecond)
		}
	}
	// acquire from every harness thread that has finished, so that the harness may read what they wrote
	for more := true; more; {
		select {
		case <-x.exited:
		default:
			more = false
		}
	}
	cur = nil
}

// AllHarnessDone reports whether every harness thread ran to completion.
//
//go:norace
func (x *Exec) AllHarnessDone() bool {
	for i := 0; i < x.nthreads; i++ {
		t := x.threads[i]
		if t.harness && !t.daemon && t.status != 2 {
			return false
		}
	}
	return true
}

// LiveStacks returns the stack dump of goroutines created during the execution that still exist.
//
//go:norace
func (x *Exec) LiveStacks() string {
	n := runtime.Stack(x.stackBuf, true)
	me := curGoid()
	var out []byte
	for _, blk := range bytes.Split(x.stackBuf[:n], []byte("\n\n")) {
		gs := parseStacks(blk)
		if len(gs) == 0 || gs[0].id == me || gs[0].id <= x.baseGoid {
			continue
		}
		out = append(out, blk...)
		out = append(out, '\n', '\n')
	}
	return string(out)
}

// LiveGoroutines lists goroutines created during the execution that still exist (for leak checks).
//
//go:norace
func (x *Exec) LiveGoroutines() []string {
	n := runtime.Stack(x.stackBuf, true)
	me := curGoid()
	var out []string
	for _, g := range parseStacks(x.stackBuf[:n]) {
		if g.id == me || g.id <= x.baseGoid {
			continue
		}
		out = append(out, fmt.Sprintf("g%d[%s]", g.id, g.state))
	}
	return out
}
