// Package vatomic replaces "sync/atomic": each operation is a scheduling
// point followed by the real atomic operation.
package vatomic

import (
	"sync/atomic"
	"unsafe"

	"github.com/Comcast/sheens/verifrt/sched"
)

type (
	Value   = atomic.Value
	Int32   = atomic.Int32
	Int64   = atomic.Int64
	Uint32  = atomic.Uint32
	Uint64  = atomic.Uint64
	Bool    = atomic.Bool
	Uintptr = atomic.Uintptr
)

func pt(l string) {
	if sched.Active() {
		sched.Point(sched.OpAtomic, nil, l)
	}
}

func LoadPointer(addr *unsafe.Pointer) unsafe.Pointer {
	pt("LoadPointer")
	return atomic.LoadPointer(addr)
}
func StorePointer(addr *unsafe.Pointer, v unsafe.Pointer) {
	pt("StorePointer")
	atomic.StorePointer(addr, v)
}
func SwapPointer(addr *unsafe.Pointer, v unsafe.Pointer) unsafe.Pointer {
	pt("SwapPointer")
	return atomic.SwapPointer(addr, v)
}
func CompareAndSwapPointer(addr *unsafe.Pointer, o, n unsafe.Pointer) bool {
	pt("CASPointer")
	return atomic.CompareAndSwapPointer(addr, o, n)
}
func LoadInt32(a *int32) int32             { pt("LoadInt32"); return atomic.LoadInt32(a) }
func StoreInt32(a *int32, v int32)         { pt("StoreInt32"); atomic.StoreInt32(a, v) }
func AddInt32(a *int32, d int32) int32     { pt("AddInt32"); return atomic.AddInt32(a, d) }
func LoadInt64(a *int64) int64             { pt("LoadInt64"); return atomic.LoadInt64(a) }
func StoreInt64(a *int64, v int64)         { pt("StoreInt64"); atomic.StoreInt64(a, v) }
func AddInt64(a *int64, d int64) int64     { pt("AddInt64"); return atomic.AddInt64(a, d) }
func LoadUint32(a *uint32) uint32          { pt("LoadUint32"); return atomic.LoadUint32(a) }
func StoreUint32(a *uint32, v uint32)      { pt("StoreUint32"); atomic.StoreUint32(a, v) }
func AddUint32(a *uint32, d uint32) uint32 { pt("AddUint32"); return atomic.AddUint32(a, d) }
func LoadUint64(a *uint64) uint64          { pt("LoadUint64"); return atomic.LoadUint64(a) }
func StoreUint64(a *uint64, v uint64)      { pt("StoreUint64"); atomic.StoreUint64(a, v) }
func AddUint64(a *uint64, d uint64) uint64 { pt("AddUint64"); return atomic.AddUint64(a, d) }
func CompareAndSwapInt32(a *int32, o, n int32) bool {
	pt("CASInt32")
	return atomic.CompareAndSwapInt32(a, o, n)
}
func CompareAndSwapInt64(a *int64, o, n int64) bool {
	pt("CASInt64")
	return atomic.CompareAndSwapInt64(a, o, n)
}
func CompareAndSwapUint32(a *uint32, o, n uint32) bool {
	pt("CASUint32")
	return atomic.CompareAndSwapUint32(a, o, n)
}
func SwapInt32(a *int32, v int32) int32 { pt("SwapInt32"); return atomic.SwapInt32(a, v) }
func SwapInt64(a *int64, v int64) int64 { pt("SwapInt64"); return atomic.SwapInt64(a, v) }
