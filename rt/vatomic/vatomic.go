// Package vatomic replaces "sync/atomic": each operation is a scheduling
// point followed by the real atomic operation.
package vatomic

import (
	"sync/atomic"
	"unsafe"

	"github.com/Comcast/sheens/verifrt/sched"
)

// The typed atomics are wrappers (not aliases) so that their methods are scheduling points too.
type Value struct{ v atomic.Value }

func (x *Value) Load() any      { pt("Value.Load"); return x.v.Load() }
func (x *Value) Store(v any)    { pt("Value.Store"); x.v.Store(v) }
func (x *Value) Swap(v any) any { pt("Value.Swap"); return x.v.Swap(v) }
func (x *Value) CompareAndSwap(o, n any) bool {
	pt("Value.CAS")
	return x.v.CompareAndSwap(o, n)
}

type Pointer[T any] struct{ p atomic.Pointer[T] }

func (x *Pointer[T]) Load() *T     { pt("Pointer.Load"); return x.p.Load() }
func (x *Pointer[T]) Store(v *T)   { pt("Pointer.Store"); x.p.Store(v) }
func (x *Pointer[T]) Swap(v *T) *T { pt("Pointer.Swap"); return x.p.Swap(v) }
func (x *Pointer[T]) CompareAndSwap(o, n *T) bool {
	pt("Pointer.CAS")
	return x.p.CompareAndSwap(o, n)
}

type Bool struct{ b atomic.Bool }

func (x *Bool) Load() bool       { pt("Bool.Load"); return x.b.Load() }
func (x *Bool) Store(v bool)     { pt("Bool.Store"); x.b.Store(v) }
func (x *Bool) Swap(v bool) bool { pt("Bool.Swap"); return x.b.Swap(v) }
func (x *Bool) CompareAndSwap(o, n bool) bool {
	pt("Bool.CAS")
	return x.b.CompareAndSwap(o, n)
}

type Int32 struct{ n atomic.Int32 }

func (x *Int32) Load() int32        { pt("Int32.Load"); return x.n.Load() }
func (x *Int32) Store(v int32)      { pt("Int32.Store"); x.n.Store(v) }
func (x *Int32) Swap(v int32) int32 { pt("Int32.Swap"); return x.n.Swap(v) }
func (x *Int32) Add(d int32) int32  { pt("Int32.Add"); return x.n.Add(d) }
func (x *Int32) And(m int32) int32  { pt("Int32.And"); return x.n.And(m) }
func (x *Int32) Or(m int32) int32   { pt("Int32.Or"); return x.n.Or(m) }
func (x *Int32) CompareAndSwap(o, n int32) bool {
	pt("Int32.CAS")
	return x.n.CompareAndSwap(o, n)
}

type Int64 struct{ n atomic.Int64 }

func (x *Int64) Load() int64        { pt("Int64.Load"); return x.n.Load() }
func (x *Int64) Store(v int64)      { pt("Int64.Store"); x.n.Store(v) }
func (x *Int64) Swap(v int64) int64 { pt("Int64.Swap"); return x.n.Swap(v) }
func (x *Int64) Add(d int64) int64  { pt("Int64.Add"); return x.n.Add(d) }
func (x *Int64) And(m int64) int64  { pt("Int64.And"); return x.n.And(m) }
func (x *Int64) Or(m int64) int64   { pt("Int64.Or"); return x.n.Or(m) }
func (x *Int64) CompareAndSwap(o, n int64) bool {
	pt("Int64.CAS")
	return x.n.CompareAndSwap(o, n)
}

type Uint32 struct{ n atomic.Uint32 }

func (x *Uint32) Load() uint32         { pt("Uint32.Load"); return x.n.Load() }
func (x *Uint32) Store(v uint32)       { pt("Uint32.Store"); x.n.Store(v) }
func (x *Uint32) Swap(v uint32) uint32 { pt("Uint32.Swap"); return x.n.Swap(v) }
func (x *Uint32) Add(d uint32) uint32  { pt("Uint32.Add"); return x.n.Add(d) }
func (x *Uint32) And(m uint32) uint32  { pt("Uint32.And"); return x.n.And(m) }
func (x *Uint32) Or(m uint32) uint32   { pt("Uint32.Or"); return x.n.Or(m) }
func (x *Uint32) CompareAndSwap(o, n uint32) bool {
	pt("Uint32.CAS")
	return x.n.CompareAndSwap(o, n)
}

type Uint64 struct{ n atomic.Uint64 }

func (x *Uint64) Load() uint64         { pt("Uint64.Load"); return x.n.Load() }
func (x *Uint64) Store(v uint64)       { pt("Uint64.Store"); x.n.Store(v) }
func (x *Uint64) Swap(v uint64) uint64 { pt("Uint64.Swap"); return x.n.Swap(v) }
func (x *Uint64) Add(d uint64) uint64  { pt("Uint64.Add"); return x.n.Add(d) }
func (x *Uint64) And(m uint64) uint64  { pt("Uint64.And"); return x.n.And(m) }
func (x *Uint64) Or(m uint64) uint64   { pt("Uint64.Or"); return x.n.Or(m) }
func (x *Uint64) CompareAndSwap(o, n uint64) bool {
	pt("Uint64.CAS")
	return x.n.CompareAndSwap(o, n)
}

type Uintptr struct{ n atomic.Uintptr }

func (x *Uintptr) Load() uintptr          { pt("Uintptr.Load"); return x.n.Load() }
func (x *Uintptr) Store(v uintptr)        { pt("Uintptr.Store"); x.n.Store(v) }
func (x *Uintptr) Swap(v uintptr) uintptr { pt("Uintptr.Swap"); return x.n.Swap(v) }
func (x *Uintptr) Add(d uintptr) uintptr  { pt("Uintptr.Add"); return x.n.Add(d) }
func (x *Uintptr) And(m uintptr) uintptr  { pt("Uintptr.And"); return x.n.And(m) }
func (x *Uintptr) Or(m uintptr) uintptr   { pt("Uintptr.Or"); return x.n.Or(m) }
func (x *Uintptr) CompareAndSwap(o, n uintptr) bool {
	pt("Uintptr.CAS")
	return x.n.CompareAndSwap(o, n)
}

func pt(l string) {
	if sched.Active() {
		sched.Point(sched.OpAtomic, nil, l)
	}
}

func LoadPointer(addr *unsafe.Pointer) unsafe.Pointer {
	pt("LoadPointer")
	return atomic.LoadPointer(addr)
}
func StorePointer(addr *unsafe.Pointer, v unsafe.Pointer) {
	pt("StorePointer")
	atomic.StorePointer(addr, v)
}
func SwapPointer(addr *unsafe.Pointer, v unsafe.Pointer) unsafe.Pointer {
	pt("SwapPointer")
	return atomic.SwapPointer(addr, v)
}
func CompareAndSwapPointer(addr *unsafe.Pointer, o, n unsafe.Pointer) bool {
	pt("CASPointer")
	return atomic.CompareAndSwapPointer(addr, o, n)
}
func LoadInt32(a *int32) int32             { pt("LoadInt32"); return atomic.LoadInt32(a) }
func StoreInt32(a *int32, v int32)         { pt("StoreInt32"); atomic.StoreInt32(a, v) }
func AddInt32(a *int32, d int32) int32     { pt("AddInt32"); return atomic.AddInt32(a, d) }
func LoadInt64(a *int64) int64             { pt("LoadInt64"); return atomic.LoadInt64(a) }
func StoreInt64(a *int64, v int64)         { pt("StoreInt64"); atomic.StoreInt64(a, v) }
func AddInt64(a *int64, d int64) int64     { pt("AddInt64"); return atomic.AddInt64(a, d) }
func LoadUint32(a *uint32) uint32          { pt("LoadUint32"); return atomic.LoadUint32(a) }
func StoreUint32(a *uint32, v uint32)      { pt("StoreUint32"); atomic.StoreUint32(a, v) }
func AddUint32(a *uint32, d uint32) uint32 { pt("AddUint32"); return atomic.AddUint32(a, d) }
func LoadUint64(a *uint64) uint64          { pt("LoadUint64"); return atomic.LoadUint64(a) }
func StoreUint64(a *uint64, v uint64)      { pt("StoreUint64"); atomic.StoreUint64(a, v) }
func AddUint64(a *uint64, d uint64) uint64 { pt("AddUint64"); return atomic.AddUint64(a, d) }
func CompareAndSwapInt32(a *int32, o, n int32) bool {
	pt("CASInt32")
	return atomic.CompareAndSwapInt32(a, o, n)
}
func CompareAndSwapInt64(a *int64, o, n int64) bool {
	pt("CASInt64")
	return atomic.CompareAndSwapInt64(a, o, n)
}
func CompareAndSwapUint32(a *uint32, o, n uint32) bool {
	pt("CASUint32")
	return atomic.CompareAndSwapUint32(a, o, n)
}
func SwapInt32(a *int32, v int32) int32 { pt("SwapInt32"); return atomic.SwapInt32(a, v) }
func SwapInt64(a *int64, v int64) int64 { pt("SwapInt64"); return atomic.SwapInt64(a, v) }

func AddUintptr(a *uintptr, d uintptr) uintptr  { pt("AddUintptr"); return atomic.AddUintptr(a, d) }
func LoadUintptr(a *uintptr) uintptr            { pt("LoadUintptr"); return atomic.LoadUintptr(a) }
func StoreUintptr(a *uintptr, v uintptr)        { pt("StoreUintptr"); atomic.StoreUintptr(a, v) }
func SwapUintptr(a *uintptr, v uintptr) uintptr { pt("SwapUintptr"); return atomic.SwapUintptr(a, v) }
func SwapUint32(a *uint32, v uint32) uint32     { pt("SwapUint32"); return atomic.SwapUint32(a, v) }
func SwapUint64(a *uint64, v uint64) uint64     { pt("SwapUint64"); return atomic.SwapUint64(a, v) }
func CompareAndSwapUint64(a *uint64, o, n uint64) bool {
	pt("CASUint64")
	return atomic.CompareAndSwapUint64(a, o, n)
}
func CompareAndSwapUintptr(a *uintptr, o, n uintptr) bool {
	pt("CASUintptr")
	return atomic.CompareAndSwapUintptr(a, o, n)
}
func AndInt32(a *int32, m int32) int32         { pt("AndInt32"); return atomic.AndInt32(a, m) }
func AndInt64(a *int64, m int64) int64         { pt("AndInt64"); return atomic.AndInt64(a, m) }
func AndUint32(a *uint32, m uint32) uint32     { pt("AndUint32"); return atomic.AndUint32(a, m) }
func AndUint64(a *uint64, m uint64) uint64     { pt("AndUint64"); return atomic.AndUint64(a, m) }
func AndUintptr(a *uintptr, m uintptr) uintptr { pt("AndUintptr"); return atomic.AndUintptr(a, m) }
func OrInt32(a *int32, m int32) int32          { pt("OrInt32"); return atomic.OrInt32(a, m) }
func OrInt64(a *int64, m int64) int64          { pt("OrInt64"); return atomic.OrInt64(a, m) }
func OrUint32(a *uint32, m uint32) uint32      { pt("OrUint32"); return atomic.OrUint32(a, m) }
func OrUint64(a *uint64, m uint64) uint64      { pt("OrUint64"); return atomic.OrUint64(a, m) }
func OrUintptr(a *uintptr, m uintptr) uintptr  { pt("OrUintptr"); return atomic.OrUintptr(a, m) }
