package hcore

import (
	"testing"

	"github.com/Comcast/sheens/core"
	"github.com/Comcast/sheens/interpreters/ecmascript"
	"github.com/Comcast/sheens/verifrt/actlang"
	"github.com/Comcast/sheens/verifrt/vh"
)

func TestMain(m *testing.M) {
	// the extended environment (what interpreters.Standard() offers as "ecmascript-ext" and "goja")
	ext := ecmascript.NewInterpreter()
	ext.Extended = true
	core.DefaultInterpreters["ecmascript-ext"] = ext
	// an interpreter written in Go (its sources are programs of the action language)
	core.DefaultInterpreters["gonative"] = actlang.GoInterp{}
	vh.Main(Checks)
}
