// Package hcore holds the checks that drive core.Spec (Step, Walk, Compile)
// and the ECMAScript interpreter.
package hcore

import (
	"github.com/Comcast/sheens/verifrt/actlang"
	"github.com/Comcast/sheens/verifrt/ref/rstep"
	"github.com/Comcast/sheens/verifrt/vh"
)

var Checks = map[string]vh.CheckFunc{
	"C04": C04,
	"C05": C05,
	"C06": C06,
	"C07": C07,
	"C08": C08,
	"C09": C09,
	"C10": C10,
	"C11": C11,
	"C13": C13,
	"C18": C18,
	// matching as the engine and the scripts use it
	"C01step": C01step,
	"C02step": C02step,
	"C03js":   C03js,
}

type M = map[string]interface{}
type Op = actlang.Op

func prog(native bool, ops ...Op) *actlang.Prog { return actlang.P(native, ops...) }

// sameClass: the real engine reports action and guard failures as plain errors.
func sameClass(impl, ref string) bool {
	if impl == ref {
		return true
	}
	return impl == "other" && (ref == "action-error" || ref == "guard-error")
}

// allowed reports whether the observed outcome is one of the reference's.
func allowed(obs rstep.Outcome, refs []rstep.Outcome) bool {
	for _, r := range refs {
		if obs.Err != "" || r.Err != "" {
			if obs.Err != "" && r.Err != "" && sameClass(obs.Err, r.Err) && obs.Consumed == r.Consumed {
				return true
			}
			continue
		}
		if obs.Key() == r.Key() {
			return true
		}
	}
	return false
}

func keys(refs []rstep.Outcome) []string {
	var ks []string
	for _, r := range refs {
		ks = append(ks, r.Key())
	}
	return ks
}
