package hcore

import (
	"context"
	"encoding/json"
	"fmt"
	"strconv"
	"strings"
	"time"

	"github.com/Comcast/sheens/core"
	"github.com/Comcast/sheens/match"
	"github.com/Comcast/sheens/verifrt/actlang"
	"github.com/Comcast/sheens/verifrt/ref/rstep"
	"github.com/Comcast/sheens/verifrt/vh"
	jyaml "github.com/jsccast/yaml"
	yaml2 "gopkg.in/yaml.v2"
)

// c07Case: one point of the hostile-input space.  Empty string = benign default.
type c07Case struct {
	Base  string `json:"base"` // go-native | go-js | json | yaml-jsccast | yaml-v2
	Call  string `json:"call"` // walk | step
	Spec  string `json:"spec,omitempty"`
	State string `json:"state,omitempty"`
	Msg   string `json:"msg,omitempty"`
	Ctl   string `json:"ctl,omitempty"`
	Props string `json:"props,omitempty"`
	Act   string `json:"act,omitempty"`
	Guard string `json:"guard,omitempty"`
	Err   string `json:"err,omitempty"`
}

var c07Dims = []struct {
	Name string
	Vals []string
}{
	{"spec", []string{"null-node", "null-branch", "null-branching", "null-branches", "unknown-target", "unknown-interpreter", "unknown-branchtype", "unknown-patternsyntax", "nonstring-source", "action-on-message-node", "empty-doc", "wrong-typed-nodes", "nodes-null", "no-error-node", "custom-error-node", "bad-json-pattern", "null-guard", "null-action", "null-pattern", "scalar-pattern", "empty-target", "not-compiled", "array-patterns", "paramspecs-odd", "boot-toob", "meta-fields"}},
	{"state", []string{"nil-bindings", "permanent", "unknown-node", "empty-node-name", "at-error-node", "reloaded-after-failure", "in-memory-after-failure", "unknown-node-long", "unknown-node-multibyte", "unknown-node-invalid-utf8", "unknown-node-control-chars"}},
	{"msg", []string{"null", "scalar", "deep", "none", "string-with-question-mark", "go-typed"}},
	{"ctl", []string{"nil", "limit-zero", "limit-negative", "breakpoint", "nil-breakpoints-huge-limit"}},
	{"props", []string{"nil", "nested"}},
	{"act", []string{"throw", "spin", "retnull", "retscalar", "retarray", "emitbad-nan", "emitbad-func", "emitbad-cycle", "setbad", "setcycle", "getter-throw", "getter-loop", "nerrpartial", "nnilexec", "nnilbs", "nnoevents", "emit-throw", "none", "ret-func-in-array", "throw-object", "throw-error", "throw-null", "throw-undefined", "throw-number", "throw-hostile-tostring", "throw-hostile-message", "misuse-0", "misuse-1", "misuse-2", "misuse-3", "misuse-4", "misuse-5", "misuse-6", "misuse-7", "misuse-8", "misuse-9"}},
	{"guard", []string{"throw", "spin", "retnull", "retscalar", "retarray", "emitbad-nan", "emitbad-cycle", "getter-throw", "nerrpartial", "nnilexec", "nnilbs", "nnoevents", "none", "throw-object", "throw-error", "throw-null", "throw-undefined", "throw-number", "throw-hostile-tostring", "throw-hostile-message", "misuse-0", "misuse-1", "misuse-3", "misuse-5", "misuse-8"}},
	{"err", []string{"aeb", "aen", "aen-missing-node"}},
}

func (cs *c07Case) set(dim, v string) {
	switch dim {
	case "spec":
		cs.Spec = v
	case "state":
		cs.State = v
	case "msg":
		cs.Msg = v
	case "ctl":
		cs.Ctl = v
	case "props":
		cs.Props = v
	case "act":
		cs.Act = v
	case "guard":
		cs.Guard = v
	case "err":
		cs.Err = v
	}
}

func (cs c07Case) sig() string {
	var parts []string
	for _, kv := range [][2]string{{"spec", cs.Spec}, {"state", cs.State}, {"msg", cs.Msg}, {"ctl", cs.Ctl}, {"props", cs.Props}, {"act", cs.Act}, {"guard", cs.Guard}, {"err", cs.Err}} {
		if kv[1] != "" {
			parts = append(parts, kv[0]+"="+kv[1])
		}
	}
	if len(parts) == 0 {
		return "benign"
	}
	return strings.Join(parts, ",")
}

// behaviour returns the program for an action/guard behaviour name; ok=false
// when the behaviour does not exist in that language.
func behaviour(name string, native bool, guard bool) (*actlang.Prog, bool) {
	switch name {
	case "":
		if guard {
			return prog(native), true
		}
		return prog(native, Op{K: actlang.Set, A: "done", V: 1.0}, Op{K: actlang.Emit, V: M{"did": 1.0}}), true
	case "none":
		return nil, true
	case "throw":
		return prog(native, Op{K: actlang.Throw}), true
	case "emit-throw":
		return prog(native, Op{K: actlang.Emit, V: "lost"}, Op{K: actlang.Throw}), true
	case "spin":
		return prog(native, Op{K: actlang.Spin}), true
	case "retnull":
		return prog(native, Op{K: actlang.RetNull}), true
	case "retscalar":
		return prog(native, Op{K: actlang.RetScalar}), true
	case "retarray":
		return prog(native, Op{K: actlang.RetArray}), true
	case "emitbad-nan":
		return prog(native, Op{K: actlang.EmitBad, A: "nan"}), true
	case "emitbad-func":
		return prog(native, Op{K: actlang.EmitBad, A: "func"}), true
	case "emitbad-cycle":
		return prog(native, Op{K: actlang.EmitBad, A: "cycle"}), !native
	case "setbad":
		return prog(native, Op{K: actlang.SetBad, A: "nan"}), true
	case "setcycle":
		return prog(false, Op{K: actlang.SetCycle, A: "loop"}), !native
	case "getter-throw":
		return prog(false, Op{K: actlang.RetGetter, A: "throw"}), !native
	case "getter-loop":
		return prog(false, Op{K: actlang.RetGetter, A: "loop"}), !native
	case "nnoevents":
		return prog(true, Op{K: actlang.NativeNoEvents}), native
	case "nerrpartial":
		return prog(true, Op{K: actlang.Emit, V: "partial"}, Op{K: actlang.NativeErrPartial}), native
	case "nnilexec":
		return prog(true, Op{K: actlang.NativeNilExec}), native
	case "nnilbs":
		return prog(true, Op{K: actlang.NativeNilBs}), native
	}
	if name == "ret-func-in-array" {
		// values that are not JSON inside an array of the returned bindings
		return prog(false, Op{K: actlang.Raw, A: `return {handlers: [function() { return 1; }, "x", {nested: [function() {}]}], go: 1};`}), !native && !guard
	}
	if strings.HasPrefix(name, "throw-") {
		return prog(native, Op{K: actlang.Emit, V: "lost"}, Op{K: actlang.ThrowVal, A: name[len("throw-"):]}), true
	}
	if strings.HasPrefix(name, "misuse-") {
		i, _ := strconv.Atoi(name[len("misuse-"):])
		return prog(false, Op{K: actlang.Emit, V: "lost"}, Op{K: actlang.Misuse, A: c07Misuses[i]}), !native
	}
	return nil, false
}

// helpers of the script environment called the wrong way (the extended helpers exist only under the extended
// interpreter; under the plain one the call itself is a TypeError): each must end as a failed execution
var c07Misuses = []string{
	`_.match();`,
	`_.match({a: "?x"});`,
	`_.match({a: "?x"}, {a: 1}, 7);`,
	`_.match({a: "?x"}, {a: 1}, "bindings");`,
	`_.match(function() {}, {a: 1});`,
	`_.match({a: ["?x", "?y"]}, {a: [1, 2]});`,
	`_.cronNext();`,
	`_.cronNext(7);`,
	`_.cronNext("not a cron expression at all");`,
	`_.out(function() {}); _.nosuchhelper(1);`,
}

func deepMsg(n int) interface{} {
	var x interface{} = 1.0
	for i := 0; i < n; i++ {
		if i%2 == 0 {
			x = M{"go": x}
		} else {
			x = []interface{}{x}
		}
	}
	return M{"go": 1.0, "deep": x}
}

// c07Build builds the abstract spec and the real spec for a case.
// applicable=false: the combination does not exist (e.g. a native-only behaviour in a document).
func c07Build(cs c07Case) (as *rstep.ASpec, spec *core.Spec, loadErr error, applicable bool) {
	native := cs.Base == "go-native"
	act, ok1 := behaviour(cs.Act, native, false)
	grd, ok2 := behaviour(cs.Guard, native, true)
	if !ok1 || !ok2 {
		return nil, nil, nil, false
	}
	as = &rstep.ASpec{Nodes: map[string]*rstep.ANode{
		"start": {Type: "message", Branches: []rstep.ABranch{{Pattern: M{"go": "?g"}, Target: "act"}}},
		"act":   {Action: act, Type: "bindings", Branches: []rstep.ABranch{{Pattern: M{"actionError": "?e"}, Target: "errh"}, {Guard: grd, Target: "done"}}},
		"done":  {NoBranches: true},
		"errh":  {NoBranches: true},
	}}
	switch cs.Err {
	case "aeb":
		as.ActionErrorBranches = true
	case "aen":
		as.ActionErrorNode = "errh"
	case "aen-missing-node":
		as.ActionErrorNode = "gone"
	}
	if cs.Spec == "unknown-target" {
		as.Nodes["act"].Branches[1].Target = "nowhere"
	}
	if cs.Spec == "empty-target" {
		as.Nodes["act"].Branches[1].Target = ""
	}
	if cs.Spec == "action-on-message-node" {
		as.Nodes["start"].Action = prog(native, Op{K: actlang.Set, A: "x", V: 1.0})
	}
	if cs.Spec == "array-patterns" {
		// array (set) patterns on a message branch and on a bindings branch
		as.Nodes["start"].Branches = append([]rstep.ABranch{{Pattern: M{"go": "?g", "items": []interface{}{"x"}}, Target: "act"}}, as.Nodes["start"].Branches...)
		as.Nodes["act"].Branches = append([]rstep.ABranch{{Pattern: M{"handlers": []interface{}{"?h", "x"}}, Target: "done"}, {Pattern: M{"items": []interface{}{M{"k": "?v"}}}, Target: "done"}}, as.Nodes["act"].Branches...)
	}
	if cs.Spec == "scalar-pattern" {
		as.Nodes["start"].Branches[0].Pattern = 7.0
	}
	if cs.Base == "go-native" || cs.Base == "go-js" {
		spec = as.Raw()
		switch cs.Spec {
		case "null-node":
			spec.Nodes["extra"] = nil
		case "null-branch":
			spec.Nodes["act"].Branches.Branches = append(spec.Nodes["act"].Branches.Branches, nil)
		case "null-branching":
			spec.Nodes["act"].Branches = nil
		case "null-branches":
			spec.Nodes["act"].Branches.Branches = nil
		case "unknown-interpreter":
			if native {
				return nil, nil, nil, false
			}
			spec.Nodes["act"].ActionSource = &core.ActionSource{Interpreter: "cobol", Source: "return {};"}
		case "unknown-branchtype":
			spec.Nodes["act"].Branches.Type = "weird"
		case "unknown-patternsyntax":
			spec.PatternSyntax = "xml"
		case "nonstring-source":
			if native {
				return nil, nil, nil, false
			}
			spec.Nodes["act"].ActionSource = &core.ActionSource{Interpreter: "ecmascript", Source: 42}
		case "empty-doc":
			spec = &core.Spec{}
		case "wrong-typed-nodes":
			return nil, nil, nil, false
		case "nodes-null":
			spec.Nodes = nil
		case "no-error-node":
			spec.NoAutoErrorNode = true
		case "custom-error-node":
			spec.ErrorNode = "oops"
		case "bad-json-pattern":
			spec.PatternSyntax = "json"
			spec.Nodes["start"].Branches.Branches[0].Pattern = "{"
		case "null-guard":
			spec.Nodes["act"].Branches.Branches[1].Guard, spec.Nodes["act"].Branches.Branches[1].GuardSource = nil, nil
		case "null-action":
			spec.Nodes["act"].Action, spec.Nodes["act"].ActionSource = nil, nil
		case "null-pattern":
			spec.Nodes["start"].Branches.Branches[0].Pattern = nil
		case "paramspecs-odd":
			spec.ParamSpecs = map[string]core.ParamSpec{}
			for name, d := range c07ParamSpecs() {
				js, _ := json.Marshal(d)
				var ps core.ParamSpec
				json.Unmarshal(js, &ps)
				spec.ParamSpecs[name] = ps
			}
		case "boot-toob":
			spec.BootSource = &core.ActionSource{Interpreter: "ecmascript", Source: "throw new Error('boot');"}
			spec.ToobSource = &core.ActionSource{Source: "return null;"}
		case "meta-fields":
			spec.Uses, spec.Version, spec.Id, spec.Doc, spec.NoNewMachines = []string{"", "timers", ""}, "?v", "", "?doc", true
			spec.Name = strings.Repeat("\u99c5", 40) + "\xff%s"
		}
		return as, spec, nil, true
	}
	// document path
	format := "json"
	if strings.HasPrefix(cs.Base, "yaml") {
		format = "yaml"
	}
	doc, ok := as.Doc(format, false)
	if !ok {
		return nil, nil, nil, false
	}
	k := func(n string) string {
		if format == "json" {
			return n
		}
		return strings.ToLower(n)
	}
	nodes := doc["nodes"].(map[string]interface{})
	actn := nodes["act"].(map[string]interface{})
	branching := func(n string) map[string]interface{} {
		return nodes[n].(map[string]interface{})["branching"].(map[string]interface{})
	}
	switch cs.Spec {
	case "null-node":
		nodes["extra"] = nil
	case "null-branch":
		br := branching("act")
		br["branches"] = append(br["branches"].([]interface{}), nil)
	case "null-branching":
		actn["branching"] = nil
	case "null-branches":
		branching("act")["branches"] = nil
	case "unknown-interpreter":
		actn["action"] = M{"interpreter": "cobol", "source": "return {};"}
	case "unknown-branchtype":
		branching("act")["type"] = "weird"
	case "unknown-patternsyntax":
		doc[k("patternSyntax")] = "xml"
	case "nonstring-source":
		actn["action"] = M{"interpreter": "ecmascript", "source": 42.0}
	case "empty-doc":
		doc = M{}
	case "wrong-typed-nodes":
		doc["nodes"] = "a string"
	case "nodes-null":
		doc["nodes"] = nil
	case "no-error-node":
		if format == "json" {
			doc["noErrorNode"] = true
		} else {
			doc["noautoerrornode"] = true
		}
	case "custom-error-node":
		doc[k("errorNode")] = "oops"
	case "bad-json-pattern":
		doc[k("patternSyntax")] = "json"
		branching("start")["branches"].([]interface{})[0].(map[string]interface{})["pattern"] = "{"
	case "null-guard":
		branching("act")["branches"].([]interface{})[1].(map[string]interface{})["guard"] = nil
	case "null-action":
		actn["action"] = nil
	case "null-pattern":
		branching("start")["branches"].([]interface{})[0].(map[string]interface{})["pattern"] = nil
	case "paramspecs-odd":
		doc[k("paramSpecs")] = c07ParamSpecs()
	case "boot-toob":
		doc["boot"] = M{"interpreter": "ecmascript", "source": "throw new Error('boot');"}
		doc["toob"] = M{"source": "return null;"}
	case "meta-fields":
		doc["uses"], doc["version"], doc["id"], doc["doc"] = []interface{}{"", "timers", nil}, "?v", "", "?doc"
		doc[k("noNewMachined")] = true
		doc["name"] = strings.Repeat("\u99c5", 40) + "%s"
	}
	spec = &core.Spec{}
	switch cs.Base {
	case "json":
		js, _ := json.Marshal(doc)
		loadErr = json.Unmarshal(js, spec)
	case "yaml-jsccast":
		loadErr = jyaml.Unmarshal([]byte(rstep.YAML(doc)), spec)
	case "yaml-v2":
		loadErr = yaml2.Unmarshal([]byte(rstep.YAML(doc)), spec)
	}
	return as, spec, loadErr, true
}

// c07ParamSpecs: parameter specifications as documents in the wild have them - consistent, inconsistent,
// empty, with defaults of every shape (also arrays with holes).  Nothing in the engine has to honour them,
// and a Compile that refuses some of them is fine; a panic is not.
func c07ParamSpecs() M {
	return M{
		"plain":    M{"primitiveType": "string", "default": "den"},
		"rooms":    M{"primitiveType": "string", "isArray": true, "default": []interface{}{"den", nil}},
		"levels":   M{"primitiveType": "number", "maxCard": 3.0, "default": []interface{}{nil, 1.0, []interface{}{nil}}},
		"inverted": M{"primitiveType": "bool", "minCard": 5.0, "maxCard": -1.0, "default": nil},
		"nested":   M{"primitiveType": "", "isArray": true, "default": M{"k": []interface{}{nil}}, "predicate": M{"?": nil}},
		"advice":   M{"advisory": true, "optional": true, "default": []interface{}{}},
		"empty":    M{},
		"":         M{"primitiveType": "no-such-type", "default": 7.0, "semanticType": "?x"},
		"hole":     nil,
	}
}

type c07Result struct {
	Stage   string // load | compile | call
	Outcome string
}

// c07Run executes one case; returns a violation (clause, detail) or "".
func c07Run(c *vh.Ctx, cs c07Case) (clause, detail string, nontrivial bool) {
	var as *rstep.ASpec
	var spec *core.Spec
	var loadErr error
	var applicable bool
	if p, msg, where := vh.Trap(func() { as, spec, loadErr, applicable = c07Build(cs) }); p {
		return "panic/load/" + where, "loading the document panicked: " + msg, true
	}
	if !applicable {
		return "", "", false
	}
	if loadErr != nil {
		c.Outcome("c07", "load-error")
		return "", "", true
	}
	var cerr error
	if cs.Spec != "not-compiled" {
		if p, msg, where := vh.Trap(func() { cerr = spec.Compile(context.Background(), nil, true) }); p {
			return "panic/compile/" + where, "Compile panicked: " + msg, true
		}
	}
	// inputs
	node, bs := "start", match.Bindings{}
	if cs.Call == "step" {
		node = "act"
	}
	refBs := M{}
	refOK0 := true
	switch cs.State {
	case "nil-bindings":
		bs = nil
	case "permanent":
		bs = match.Bindings{"k!": 1.0, "x": 2.0}
		refBs = M{"k!": 1.0, "x": 2.0}
	case "unknown-node":
		node = "limbo"
	case "empty-node-name":
		node = ""
	case "unknown-node-long":
		node = strings.Repeat("n", 5000)
	case "unknown-node-multibyte":
		node = strings.Repeat("\u99c5", 40) + "\U0001F600" // 124 bytes, 41 characters
	case "unknown-node-invalid-utf8":
		node = "caf\xe9\xff\xfe" + strings.Repeat("\xc3", 70)
	case "unknown-node-control-chars":
		node = "a\x00b\nc\"d'e\\f%s%d{}"
	case "at-error-node":
		node = "error"
	case "reloaded-after-failure":
		// a machine that failed once, was persisted and reloaded (so lastBindings is a plain map), was put back
		// to work - and may fail again
		bs = match.Bindings{"error": "earlier failure", "lastNode": "act", "lastBindings": map[string]interface{}{"x": 1.0, "lastBindings": map[string]interface{}{"y": []interface{}{1.0}}}, "actionError": "earlier"}
		refOK0 = false
	case "in-memory-after-failure":
		bs = match.Bindings{"error": "earlier failure", "lastNode": "act", "lastBindings": match.Bindings{"x": 1.0, "lastBindings": match.Bindings{"y": 1.0}}}
		refOK0 = false
	}
	var msg interface{} = M{"go": 1.0}
	msgs := []interface{}{msg}
	switch cs.Msg {
	case "null":
		msgs = []interface{}{nil}
	case "scalar":
		msgs = []interface{}{7.0, "str", true}
	case "deep":
		msgs = []interface{}{deepMsg(200)}
	case "none":
		msgs = nil
	case "string-with-question-mark":
		msgs = []interface{}{M{"go": "?x"}}
	case "go-typed":
		// what a Go host can hand in: a message decoded by a YAML library (maps with interface{} keys), typed
		// slices and maps, small integer types - also inside arrays
		msgs = []interface{}{M{"go": 1.0, "items": []interface{}{map[interface{}]interface{}{"k": "v"}, "x", []string{"y"}, uint8(3), map[string]string{"k": "v"}},
			"n": int32(7), "m": map[interface{}]interface{}{"a": []interface{}{map[interface{}]interface{}{1: 2}}}}}
	}
	ctl := &core.Control{Limit: 10}
	limit := 10
	switch cs.Ctl {
	case "nil":
		ctl, limit = nil, 100
	case "limit-zero":
		ctl, limit = &core.Control{Limit: 0}, 0
	case "limit-negative":
		ctl, limit = &core.Control{Limit: -3}, 0
	case "breakpoint":
		ctl = &core.Control{Limit: 10, Breakpoints: map[string]core.Breakpoint{"b": func(_ context.Context, s *core.State) bool { return s.NodeName == "done" }}}
	case "nil-breakpoints-huge-limit":
		ctl, limit = &core.Control{Limit: 1 << 40}, 1<<31
	}
	props := core.StepProps{"p": 1.0}
	switch cs.Props {
	case "nil":
		props = nil
	case "nested":
		props = core.StepProps{"cfg": M{"deep": []interface{}{M{"x": 1.0}}}, "f": func() {}}
	}
	ctx := context.Background()
	var cancel context.CancelFunc = func() {}
	if cs.Act == "spin" || cs.Guard == "spin" || cs.Act == "getter-loop" {
		ctx, cancel = context.WithTimeout(ctx, 25*time.Millisecond)
	}
	defer cancel()
	st := &core.State{NodeName: node, Bs: bs}
	var w *core.Walked
	var stride *core.Stride
	var err error
	done := make(chan struct{})
	var p bool
	var pmsg, where string
	go func() {
		defer close(done)
		p, pmsg, where = vh.Trap(func() {
			if cs.Call == "walk" {
				w, err = spec.Walk(ctx, st, msgs, ctl, props)
			} else {
				var pending interface{}
				if len(msgs) > 0 {
					pending = msgs[0]
				}
				stride, err = spec.Step(ctx, st, pending, ctl, props)
			}
		})
	}()
	select {
	case <-done:
	case <-time.After(60 * time.Second):
		return "hang/" + cs.Call, "the call did not return within 60 s", true
	}
	if p {
		return "panic/" + cs.Call + "/" + where, cs.Call + " panicked: " + pmsg, true
	}
	if cerr != nil {
		c.Outcome("c07", "compile-error")
		// an uncompiled spec must be refused with an error or an error state, which not panicking above has shown
		return "", "", true
	}
	// surfaced? compare with the reference where it is defined
	refOK := refOK0 && (cs.Spec == "" || cs.Spec == "unknown-target" || cs.Spec == "empty-target")
	if cs.Spec == "array-patterns" || cs.Msg == "go-typed" || cs.Act == "ret-func-in-array" {
		refOK = false // values outside JSON have no reference semantics: totality (trap) only
	}
	if cs.Act == "setcycle" {
		refOK = false // a self-referential binding has no canonical rendering to compare; trap-checked only
	}
	if cs.State == "nil-bindings" {
		// absent bindings are not the same as empty bindings for the engine (a branch without pattern and
		// guard hands on the nil bindings, which reads as "no bindings"; a script sees `_.bindings`
		// undefined); the property asks for totality there, not for a particular transition, so these
		// cases are trap-checked only
		refOK = false
	}
	if cs.Call == "walk" && err != nil {
		return "walk-returned-error", "Walk returned an error instead of an error state: " + err.Error(), true
	}
	if cs.Call == "walk" && w != nil {
		fn, fb := node, M(bs)
		if to := w.To(); to != nil {
			fn, fb = to.NodeName, M(to.Bs)
		}
		if fb == nil {
			fb = M{}
		}
		c.Outcome("c07", w.StoppedBecause.String()+"@"+fn)
		if refOK && (cs.Ctl == "" || cs.Ctl == "nil" || cs.Ctl == "limit-zero" || cs.Ctl == "nil-breakpoints-huge-limit" || cs.Ctl == "breakpoint") {
			bp := ""
			if cs.Ctl == "breakpoint" {
				bp = "done"
			}
			lim := limit
			if lim > 1000 {
				lim = 1000
			}
			if rw, ok := as.Walk(node, refBs, msgs, lim, bp); ok {
				if rw.FinalNode != fn || rstep.Canon(rstep.MaskErrors(rw.FinalBs)) != rstep.Canon(rstep.MaskErrors(fb)) || rw.Stopped != w.StoppedBecause.String() {
					return "differs-from-reference", fmt.Sprintf("walk ended %s at %s/%s; reference: %s at %s/%s", w.StoppedBecause, fn, rstep.Canon(rstep.MaskErrors(fb)), rw.Stopped, rw.FinalNode, rstep.Canon(rstep.MaskErrors(rw.FinalBs))), true
				}
				// explicit: a failure inside the walk must be visible in the final state
				for _, rs := range rw.Strides {
					if rs.Out.HasTo && (rs.Out.Node == "error") {
						if _, ok := fb["error"].(string); !ok && fn == "error" {
							return "error-state-without-text", "at the error node without an error text binding: " + rstep.Canon(fb), true
						}
					}
				}
				if fn == "error" && node != "error" {
					if _, ok := fb["error"].(string); !ok {
						return "error-state-without-text", "at the error node without an error text binding: " + rstep.Canon(fb), true
					}
					if _, ok := fb["lastNode"].(string); !ok {
						return "error-state-without-lastNode", rstep.Canon(fb), true
					}
					if _, ok := fb["lastBindings"]; !ok {
						return "error-state-without-lastBindings", rstep.Canon(fb), true
					}
				}
			}
		}
	}
	if cs.Call == "step" {
		o := rstep.Observe(stride, err)
		c.Outcome("c07", "step:"+o.Err+":"+o.Node)
		if refOK && cs.Ctl != "limit-negative" {
			var pending interface{}
			if len(msgs) > 0 {
				pending = msgs[0]
			}
			refs := as.Step(node, refBs, pending)
			if !allowed(o, refs) {
				return "step-differs-from-reference", fmt.Sprintf("Step gave %s; reference allows %v", o.Key(), keys(refs)), true
			}
		}
	}
	return "", "", true
}

func c07One(c *vh.Ctx, cs c07Case) {
	c.InFlight(cs)
	c.Eval()
	clause, detail, nt := c07Run(c, cs)
	if nt {
		c.Nontrivial()
	}
	if clause == "" {
		return
	}
	c2, _, _ := c07Run(c, cs)
	if c2 != clause {
		c.Count("unreproduced", 1)
		c.NotExhaustive("a violation did not reproduce; not reported")
		return
	}
	c.Violation("C07/"+clause+"/"+cs.sig(), fmt.Sprintf("[%s %s %s] %s", cs.Base, cs.Call, cs.sig(), detail), cs)
}

// ---- messages whose values look like pattern variables ---------------------------------------------------------
//
// A message is data; a string in it may begin with a question mark.  A pattern variable then gets bound to a value
// that looks like a variable, and the machine goes on matching with that binding.

type c07VarCase struct {
	VarLike bool          `json:"var_like"`
	Pattern interface{}   `json:"pattern"`
	Msgs    []interface{} `json:"msgs"`
	Batch   bool          `json:"batch"` // both messages in one Walk / one Walk per message
}

var c07VarMsgs = []interface{}{M{"a": "?x"}, M{"a": "?y"}, M{"a": "??x"}, M{"a": "?<x"}, M{"a": "?"}, "?x", M{"?x": 1.0}, M{"a": M{"b": "?x"}}, M{"a": []interface{}{"?x"}}, M{"a": 1.0}, M{"a": "?x", "b": "?y"}, M{"a": "?y", "b": "?x"}, M{"a": 3.0}, M{"a": 5.0}}
var c07VarPatterns = []interface{}{M{"a": "?x"}, "?x", M{"a": "?x", "b": "?y"}, M{"a": M{"b": "?x"}}, M{"a": []interface{}{"?x"}}, M{"?x": "?y"}, M{"a": "??x"},
	// variables whose whole name is an operator
	M{"a": "?<"}, M{"a": "?>"}, M{"a": "?!"}, M{"a": "?<="}, M{"a": "?!="}, M{"a": "?="}}

func c07VarOne(c *vh.Ctx, cs c07VarCase) {
	c.InFlight(cs)
	c.Eval()
	// a machine that listens, binds, and listens again with what it has bound
	spec := &core.Spec{Name: "listener", Nodes: map[string]*core.Node{
		"n0": {Branches: &core.Branches{Type: "message", Branches: []*core.Branch{{Pattern: clone(cs.Pattern), Target: "n1"}}}},
		"n1": {Branches: &core.Branches{Type: "message", Branches: []*core.Branch{{Pattern: clone(cs.Pattern), Target: "n0"}}}},
	}}
	if err := spec.Compile(context.Background(), nil, true); err != nil {
		return
	}
	st := &core.State{NodeName: "n0", Bs: match.NewBindings()}
	batches := [][]interface{}{cs.Msgs}
	if !cs.Batch {
		batches = nil
		for _, m := range cs.Msgs {
			batches = append(batches, []interface{}{m})
		}
	}
	for _, b := range batches {
		var msgs []interface{}
		for _, m := range b {
			msgs = append(msgs, clone(m))
		}
		var w *core.Walked
		var err error
		if p, pm, where := vh.Trap(func() { w, err = spec.Walk(context.Background(), st, msgs, nil, nil) }); p {
			c.Violation("C07/panic/variable-looking-message-value/"+where, fmt.Sprintf("pattern %s, messages %s: %s", rstep.Canon(cs.Pattern), rstep.Canon(cs.Msgs), pm), cs)
			return
		}
		if err != nil || w == nil {
			return
		}
		if to := w.To(); to != nil {
			st = to
		}
	}
	c.Nontrivial()
}

// C07: totality. All combinations of at most k hostile dimensions.
func C07(c *vh.Ctx) {
	if c.Replay != "" {
		var vc c07VarCase
		if c.LoadReplay(&vc) == nil && vc.VarLike {
			c07VarOne(c, vc)
			return
		}
		var bc c07BindsCase
		if c.LoadReplay(&bc) == nil && bc.DeclaredBinds != "" {
			c07Binds(c, nil)
			return
		}
		var cs c07Case
		if c.LoadReplay(&cs) == nil {
			c07One(c, cs)
		}
		return
	}
	k := c.Pick(2, 3)
	c.Bound("max_hostile_dimensions", k)
	c.Rule("dimensions spec-document / state / message / control / props / action behaviour / guard behaviour / error settings, each with a benign default and a list of hostile values; every combination with at most k non-default dimensions x every hostile value x base variant {Go structures with native actions, Go structures with ECMAScript, JSON text, YAML via jsccast/yaml, YAML via yaml.v2} x call {Walk, Step}; every call under a panic trap (+60 s hang horizon; scripts that loop run under a 25 ms deadline); where the reference walk/step is defined the result must equal it (failures surfaced as error states with error/lastNode/lastBindings). Plus messages whose values look like pattern variables (\"?x\", \"??x\", \"?<x\", \"?\", as values, keys, array members, the whole message) in histories of two and three, to a machine that binds with one of seven patterns and goes on listening with what it has bound. Plus action and guard sources that declare what they bind (binds: none / an empty set / one / two sets) x ten script endings (results, throws, scalar, null, nothing, endless loop, unexportable, NaN) x context live / cancelled x error routing: no panic, and the declaration does not change the outcome. Duplicate-free odometer; non-trivial = combination exists in that base variant.")
	bases := []string{"go-native", "go-js", "json", "yaml-jsccast", "yaml-v2"}
	var idx uint64
	c07Binds(c, &idx)
	// messages whose values look like pattern variables, in histories of up to three
	for _, pat := range c07VarPatterns {
		for _, m1 := range c07VarMsgs {
			for _, m2 := range c07VarMsgs {
				for _, batch := range []bool{true, false} {
					idx++
					if !c.Mine(idx) || c.Expired() {
						continue
					}
					c07VarOne(c, c07VarCase{VarLike: true, Pattern: pat, Msgs: []interface{}{m1, m2}, Batch: batch})
					c07VarOne(c, c07VarCase{VarLike: true, Pattern: pat, Msgs: []interface{}{m1, m2, m1}, Batch: batch})
				}
			}
		}
	}
	var rec func(start int, left int, cs c07Case)
	emit := func(cs c07Case) {
		for _, b := range bases {
			for _, call := range []string{"walk", "step"} {
				idx++
				if !c.Mine(idx) || c.Expired() {
					continue
				}
				cs.Base, cs.Call = b, call
				c07One(c, cs)
				if c.WantSample() && cs.Act != "" && cs.State != "" {
					c.Sample(cs)
				}
			}
		}
	}
	rec = func(start, left int, cs c07Case) {
		emit(cs)
		if left == 0 {
			return
		}
		for d := start; d < len(c07Dims); d++ {
			for _, v := range c07Dims[d].Vals {
				cs2 := cs
				cs2.set(c07Dims[d].Name, v)
				rec(d+1, left-1, cs2)
			}
		}
	}
	rec(0, k, c07Case{})
}

// ---- declared binds: an action or guard source may declare what it binds ("binds"); the declaration describes,
// it does not change what happens - in particular not when the script fails -------------------------------------

type c07BindsCase struct {
	DeclaredBinds string `json:"declared_binds"` // none | empty-set | one | two
	Script        string `json:"script"`
	Where         string `json:"where"` // action | guard
	Ctx           string `json:"ctx"`   // live | cancelled
	Routing       string `json:"routing"`
}

var c07BindsScripts = map[string]string{
	"ok":           `return {x: 1};`,
	"ok-other":     `return {y: 2, z: [1]};`,
	"throws":       `throw "no";`,
	"throws-error": `throw new Error("no");`,
	"scalar":       `return 7;`,
	"null":         `return null;`,
	"nothing":      `var a = 1;`,
	"loop":         `while (true) {}`,
	"unexportable": `return {f: function() {}};`,
	"nan":          `return {n: 0/0};`,
}

var c07BindsScriptOrder = []string{"ok", "ok-other", "throws", "throws-error", "scalar", "null", "nothing", "loop", "unexportable", "nan"}

func c07BindsSpec(cs c07BindsCase) *core.Spec {
	var binds []match.Bindings
	switch cs.DeclaredBinds {
	case "empty-set":
		binds = []match.Bindings{}
	case "one":
		binds = []match.Bindings{{"x": 1.0}}
	case "two":
		binds = []match.Bindings{{"x": "?v"}, {"y": 2.0}}
	}
	src := &core.ActionSource{Interpreter: "ecmascript", Source: c07BindsScripts[cs.Script], Binds: binds}
	spec := &core.Spec{Name: "binds", Nodes: map[string]*core.Node{
		"start": {Branches: &core.Branches{Type: "message", Branches: []*core.Branch{{Pattern: M{"go": "?g"}, Target: "act"}}}},
		"done":  {},
		"errh":  {},
	}}
	if cs.Where == "action" {
		spec.Nodes["act"] = &core.Node{ActionSource: src, Branches: &core.Branches{Branches: []*core.Branch{{Target: "done"}}}}
	} else {
		spec.Nodes["act"] = &core.Node{Branches: &core.Branches{Type: "bindings", Branches: []*core.Branch{{GuardSource: src, Target: "done"}, {Target: "errh"}}}}
	}
	switch cs.Routing {
	case "aen":
		spec.ActionErrorNode = "errh"
	case "aeb":
		spec.ActionErrorBranches = true
	}
	return spec
}

func c07BindsObs(cs c07BindsCase) (string, bool, string) {
	spec := c07BindsSpec(cs)
	if err := spec.Compile(context.Background(), nil, true); err != nil {
		return "compile: " + err.Error(), false, ""
	}
	ctx, cancel := context.WithCancel(context.Background())
	defer cancel()
	if cs.Ctx == "cancelled" {
		cancel()
	} else if cs.Script == "loop" {
		var c2 context.CancelFunc
		ctx, c2 = context.WithTimeout(ctx, 25*time.Millisecond)
		defer c2()
	}
	o := doWalkCtx(ctx, spec, "start", M{"k": 1.0}, []interface{}{M{"go": 1.0}}, 10, "")
	if o.Panicked {
		return "", true, o.PMsg + " @" + o.Where
	}
	if o.Err != nil {
		return "err: " + o.Err.Error(), false, ""
	}
	to := o.W.To()
	if to == nil {
		return "nowhere", false, ""
	}
	return to.NodeName + "/" + rstep.Canon(rstep.MaskErrors(M(to.Bs))) + "/" + rstep.Canon(nz(emittedOf(o.W))), false, ""
}

func c07Binds(c *vh.Ctx, idx *uint64) {
	one := func(cs c07BindsCase) {
		c.Eval()
		base := cs
		base.DeclaredBinds = "none"
		want, bp, _ := c07BindsObs(base)
		got, p, pm := c07BindsObs(cs)
		c.Nontrivial()
		if p {
			c.Violation("C07/declared-binds/panic/"+cs.Where+"-"+cs.Script, fmt.Sprintf("%+v: Walk panicked: %s", cs, pm), cs)
			return
		}
		if bp {
			return // reported for the base case
		}
		if cs.Script == "loop" || cs.Ctx == "cancelled" {
			return // where the interruption lands is not fixed; only totality is asked here
		}
		if got != want {
			c.Violation("C07/declared-binds/changes-the-outcome/"+cs.Where+"-"+cs.Script, fmt.Sprintf("%+v: with the declaration the walk gives %s, without it %s", cs, got, want), cs)
		}
	}
	if c.Replay != "" {
		var cs c07BindsCase
		if c.LoadReplay(&cs) == nil && cs.DeclaredBinds != "" {
			one(cs)
		}
		return
	}
	for _, script := range c07BindsScriptOrder {
		for _, where := range []string{"action", "guard"} {
			for _, decl := range []string{"none", "empty-set", "one", "two"} {
				for _, cx := range []string{"live", "cancelled"} {
					for _, routing := range []string{"none", "aen", "aeb"} {
						*idx++
						if c.Mine(*idx) && !c.Expired() {
							one(c07BindsCase{DeclaredBinds: decl, Script: script, Where: where, Ctx: cx, Routing: routing})
						}
					}
				}
			}
		}
	}
}
