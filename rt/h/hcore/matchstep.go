package hcore

import (
	"context"
	"fmt"
	"sort"
	"strings"

	"github.com/Comcast/sheens/core"
	"github.com/Comcast/sheens/interpreters/ecmascript"
	"github.com/Comcast/sheens/match"
	"github.com/Comcast/sheens/verifrt/jgen"
	"github.com/Comcast/sheens/verifrt/ref/rmatch"
	"github.com/Comcast/sheens/verifrt/ref/rstep"
	"github.com/Comcast/sheens/verifrt/vh"
)

// ---- matching as the engine and the scripts use it ----
//
// C01step / C02step: a branch's pattern is matched by Branch.try - with the machine's bindings as the given bindings
// and the pending message as the message.  What a user of the engine sees of a match is the state the step arrives
// at and the candidates a guard is offered; they must be what Match gives for those very arguments.
// C03js: scripts reach the matcher through _.match of the extended environment.

type msCaseStep struct {
	P interface{} `json:"p"`
	M interface{} `json:"m"`
	B M           `json:"b"`
}

func stepPatterns() []interface{} {
	ps := &jgen.Spec{Atoms: []interface{}{1.0, "a"}, Vars: []string{"?x", "?y", "?"}, Keys: []string{"a", "b"}, PropVars: []string{"?x", "?k"}, MaxArr: 2}
	return ps.UpTo(3)
}

func stepMessages() []interface{} {
	ms := &jgen.Spec{Atoms: []interface{}{1.0, 2.0, "a"}, Keys: []string{"a", "b"}, MaxArr: 2}
	return ms.UpTo(3)
}

// stepBindings: nothing; each variable of the pattern (and one stranger) bound to scalars, to key names, to a map.
func stepBindings(p interface{}) []M {
	vs := map[string]bool{}
	rmatch.Vars(p, vs)
	names := []string{"?other"}
	for v := range vs {
		if v != "?" {
			names = append(names, v)
		}
	}
	sort.Strings(names)
	out := []M{{}}
	for _, v := range names {
		for _, val := range []interface{}{1.0, "a", "b", "zz", M{"a": 1.0}} {
			out = append(out, M{v: val})
		}
	}
	if len(names) >= 3 {
		out = append(out, M{names[1]: "a", names[2]: 1.0}, M{names[1]: "b", names[2]: "a"})
	}
	return out
}

func canonBs(bss []match.Bindings) []string {
	var out []string
	for _, bs := range bss {
		out = append(out, rstep.Canon(map[string]interface{}(bs)))
	}
	sort.Strings(out)
	return out
}

// C01step: the state a step arrives at through a branch is a sound match of the branch's pattern.
func C01step(c *vh.Ctx) {
	one := func(cs msCaseStep) {
		c.Eval()
		spec := &core.Spec{Name: "m", Nodes: map[string]*core.Node{
			"n0": {Branches: &core.Branches{Type: "message", Branches: []*core.Branch{{Pattern: clone(cs.P), Target: "n1"}}}},
			"n1": {Branches: &core.Branches{Type: "message"}}}}
		if err := spec.Compile(context.Background(), nil, true); err != nil {
			return
		}
		want, werr := match.Match(clone(cs.P), clone(cs.M), match.Bindings(cloneM(cs.B)))
		st := &core.State{NodeName: "n0", Bs: match.Bindings(cloneM(cs.B))}
		var stride *core.Stride
		var err error
		if p, pm, where := vh.Trap(func() { stride, err = spec.Step(context.Background(), st, clone(cs.M), nil, nil) }); p {
			c.Violation("C01/step/panic/"+where, pm, cs)
			return
		}
		moved := err == nil && stride != nil && stride.To != nil && stride.To.NodeName == "n1"
		if moved {
			c.Nontrivial()
			r := M(stride.To.Bs)
			if why := rmatch.Valid(cs.P, cs.M, cs.B, r); why != "" {
				c.Violation("C01/step/"+why, fmt.Sprintf("a machine with bindings %s at a node whose branch has the pattern %s was given the message %s and followed the branch with bindings %s", rstep.Canon(cs.B), rstep.Canon(cs.P), rstep.Canon(cs.M), rstep.Canon(r)), cs)
				return
			}
		}
		// the engine follows the branch exactly when Match (same arguments) yields one binding set, with that set
		switch {
		case werr != nil:
			// an invalid pattern: whatever the engine makes of it, it must not follow the branch
			if moved {
				c.Violation("C01/step/followed-a-branch-whose-pattern-is-invalid", fmt.Sprintf("pattern %s, message %s, bindings %s: Match fails (%v) but the step followed the branch", rstep.Canon(cs.P), rstep.Canon(cs.M), rstep.Canon(cs.B), werr), cs)
			}
		case len(want) == 0 && moved:
			c.Violation("C01/step/followed-a-branch-that-does-not-match", fmt.Sprintf("pattern %s, message %s, bindings %s: Match gives no binding set but the step followed the branch with %s", rstep.Canon(cs.P), rstep.Canon(cs.M), rstep.Canon(cs.B), rstep.Canon(M(stride.To.Bs))), cs)
		case len(want) == 1 && !moved:
			c.Violation("C01/step/did-not-follow-a-branch-that-matches", fmt.Sprintf("pattern %s, message %s, bindings %s: Match gives %s but the step did not follow the branch (err=%v)", rstep.Canon(cs.P), rstep.Canon(cs.M), rstep.Canon(cs.B), canonBs(want), err), cs)
		case len(want) == 1 && moved && rstep.Canon(M(stride.To.Bs)) != canonBs(want)[0]:
			c.Violation("C01/step/arrived-with-other-bindings-than-the-match", fmt.Sprintf("pattern %s, message %s, bindings %s: Match gives %s, the step arrived with %s", rstep.Canon(cs.P), rstep.Canon(cs.M), rstep.Canon(cs.B), canonBs(want), rstep.Canon(M(stride.To.Bs))), cs)
		}
	}
	if c.Replay != "" {
		var cs msCaseStep
		if c.LoadReplay(&cs) == nil {
			one(cs)
		}
		return
	}
	pats, msgs := stepPatterns(), stepMessages()
	c.Bound("step_pattern_nodes_max", 3)
	c.Bound("step_message_nodes_max", 3)
	c.Rule("(matching as the engine does it) every pattern up to 3 nodes (variables ?x ?y ?, property variables ?x ?k) as the pattern of the only branch of a message node, every message up to 3 nodes as the pending message, the machine's bindings = {} / each variable of the pattern and a stranger bound to scalars, key names and a map / pairs: whenever Spec.Step follows the branch the state it arrives with is a sound match of (pattern, message, the machine's bindings) by the reference relation, and the step follows the branch exactly when match.Match on those very arguments yields one binding set, arriving with that set. non-trivial = the branch was followed.")
	var idx uint64
	for _, p := range pats {
		vs := map[string]bool{}
		rmatch.Vars(p, vs)
		if len(vs) == 0 {
			continue
		}
		bs := stepBindings(p)
		for _, m := range msgs {
			idx++
			if !c.Mine(idx) || c.Expired() {
				continue
			}
			for _, b := range bs {
				one(msCaseStep{P: p, M: m, B: b})
			}
		}
	}
}

// C02step: a guard is offered every embedding of its branch's pattern, each once.
func C02step(c *vh.Ctx) {
	one := func(cs msCaseStep) {
		c.Eval()
		var offered []string
		guard := &core.FuncAction{F: func(ctx context.Context, bs match.Bindings, props core.StepProps) (*core.Execution, error) {
			offered = append(offered, rstep.Canon(map[string]interface{}(bs)))
			return core.NewExecution(nil), nil // reject: the engine goes on to the next candidate
		}}
		spec := &core.Spec{Name: "m", Nodes: map[string]*core.Node{
			"n0": {Branches: &core.Branches{Type: "message", Branches: []*core.Branch{{Pattern: clone(cs.P), Guard: guard, Target: "n1"}}}},
			"n1": {Branches: &core.Branches{Type: "message"}}}}
		if err := spec.Compile(context.Background(), nil, true); err != nil {
			return
		}
		want, werr := match.Match(clone(cs.P), clone(cs.M), match.Bindings(cloneM(cs.B)))
		if werr != nil {
			return
		}
		st := &core.State{NodeName: "n0", Bs: match.Bindings(cloneM(cs.B))}
		if p, pm, where := vh.Trap(func() { spec.Step(context.Background(), st, clone(cs.M), nil, nil) }); p {
			c.Violation("C02/step/panic/"+where, pm, cs)
			return
		}
		sort.Strings(offered)
		if len(want) > 1 {
			c.Nontrivial()
		}
		if w := canonBs(want); strings.Join(offered, " ") != strings.Join(w, " ") {
			kind := "guard-not-offered-every-embedding"
			if len(offered) > len(w) {
				kind = "guard-offered-more-than-the-embeddings"
			}
			c.Violation("C02/step/"+kind, fmt.Sprintf("pattern %s, message %s, bindings %s: Match gives %v; the branch's guard was offered %v", rstep.Canon(cs.P), rstep.Canon(cs.M), rstep.Canon(cs.B), w, offered), cs)
		}
	}
	if c.Replay != "" {
		var cs msCaseStep
		if c.LoadReplay(&cs) == nil {
			one(cs)
		}
		return
	}
	c.Rule("(matching as the engine does it) a message node whose only branch has the pattern and a native guard that records and rejects every candidate: the candidates offered are exactly the binding sets match.Match yields for (pattern, message, the machine's bindings), each once - over every pattern up to 3 nodes x every message up to 4 nodes, and a family with several embeddings whose values look alike when printed (1 / \"1\", true / \"true\", null / \"null\", [\"a b\"] / [\"a\",\"b\"]) under array variables, structured array elements and property variables. non-trivial = more than one embedding.")
	var idx uint64
	ms := &jgen.Spec{Atoms: []interface{}{1.0, 2.0, "a"}, Keys: []string{"a", "b"}, MaxArr: 3}
	msgs := ms.UpTo(4)
	for _, p := range stepPatterns() {
		vs := map[string]bool{}
		rmatch.Vars(p, vs)
		if len(vs) == 0 {
			continue
		}
		for _, m := range msgs {
			idx++
			if !c.Mine(idx) || c.Expired() {
				continue
			}
			one(msCaseStep{P: p, M: m, B: M{}})
		}
	}
	alike := []interface{}{1.0, "1", true, "true", nil, "null", "<nil>", []interface{}{"a b"}, []interface{}{"a", "b"}, M{"k": 1.0}, M{"k": "1"}}
	for i, a := range alike {
		for j, b := range alike {
			if i == j {
				continue
			}
			// sibling branches whose patterns differ only in such a value: each message goes where its own value says
			if c.Mine(idx + 1) {
				c.Eval()
				spec := &core.Spec{Name: "siblings", Nodes: map[string]*core.Node{
					"n0":    {Branches: &core.Branches{Type: "message", Branches: []*core.Branch{{Pattern: M{"code": clone(a)}, Target: "first"}, {Pattern: M{"code": clone(b)}, Target: "second"}}}},
					"first": {Branches: &core.Branches{Type: "message"}}, "second": {Branches: &core.Branches{Type: "message"}}}}
				if err := spec.Compile(context.Background(), nil, true); err == nil {
					for want, v := range map[string]interface{}{"first": a, "second": b} {
						stride, err := spec.Step(context.Background(), &core.State{NodeName: "n0", Bs: match.NewBindings()}, M{"code": clone(v), "extra": 1.0}, nil, nil)
						got := "<nowhere>"
						if err == nil && stride != nil && stride.To != nil {
							got = stride.To.NodeName
						}
						if got != want {
							c.Violation("C02/step/sibling-branch-pattern-not-found", fmt.Sprintf("a node with the branches {code:%s} -> first and {code:%s} -> second was given {code:%s}: it went to %s (err=%v)", rstep.Canon(a), rstep.Canon(b), rstep.Canon(v), got, err), msCaseStep{P: []interface{}{a, b}, M: v})
							break
						}
					}
				}
			}
			idx++
			if !c.Mine(idx) {
				continue
			}
			one(msCaseStep{P: M{"likes": []interface{}{"?x"}}, M: M{"likes": []interface{}{a, b}, "extra": true}, B: M{}})
			one(msCaseStep{P: M{"likes": []interface{}{M{"v": "?x"}}}, M: M{"likes": []interface{}{M{"v": a}, M{"v": b}}}, B: M{}})
			one(msCaseStep{P: M{"?k": "?x"}, M: M{"p": a, "q": b}, B: M{}})
			one(msCaseStep{P: M{"a": []interface{}{"?x"}, "b": "?y"}, M: M{"a": []interface{}{a, b}, "b": a}, B: M{"?other": b}})
		}
	}
}

// C03js: _.match is the matcher: evaluating it again with equal arguments gives the same sets, whatever the script
// did to the sets it got before.
func C03js(c *vh.Ctx) {
	interp := ecmascript.NewInterpreter()
	interp.Extended = true
	one := func(cs msCaseStep) {
		c.Eval()
		want, werr := match.Match(clone(cs.P), clone(cs.M), match.Bindings(cloneM(cs.B)))
		if werr != nil || len(want) == 0 {
			return
		}
		c.Nontrivial()
		src := fmt.Sprintf(`var P = %s, M = %s, B = %s;
var r1 = _.match(P, M, B);
for (var i = 0; i < r1.length; i++) { r1[i]["?scribbled"] = i; for (var k in r1[i]) { if (k != "?scribbled") { r1[i][k] = "changed"; } } }
r1.push({"?extra": 1});
var r2 = _.match(P, M, B);
var fresh = JSON.parse(JSON.stringify(r2));
for (var i = 0; i < r2.length; i++) { r2[i]["?again"] = true; }
var r3 = _.match(P, M, B);
return {second: fresh, third: r3, inputs: [P, M, B]};`, rstep.Canon(cs.P), rstep.Canon(cs.M), rstep.Canon(cs.B))
		var exe *core.Execution
		var err error
		if p, pm, where := vh.Trap(func() { exe, err = interp.Exec(context.Background(), match.NewBindings(), nil, src, nil) }); p {
			c.Violation("C03/js/panic/"+where, pm, cs)
			return
		}
		if err != nil {
			c.Count("js_match_errors", 1)
			return
		}
		asSets := func(x interface{}) []string {
			var out []string
			if l, ok := x.([]interface{}); ok {
				for _, e := range l {
					out = append(out, rstep.Canon(e))
				}
			}
			sort.Strings(out)
			return out
		}
		w := canonBs(want)
		for _, which := range []string{"second", "third"} {
			if got := asSets(exe.Bs[which]); strings.Join(got, " ") != strings.Join(w, " ") {
				c.Violation("C03/js/repeated-evaluation-differs/"+which, fmt.Sprintf("_.match(%s, %s, %s) evaluated again after the script had edited the sets of an earlier evaluation gives %v; Match gives %v", rstep.Canon(cs.P), rstep.Canon(cs.M), rstep.Canon(cs.B), got, w), cs)
				return
			}
		}
		if got, wantIn := rstep.Canon(exe.Bs["inputs"]), rstep.Canon([]interface{}{cs.P, cs.M, cs.B}); got != wantIn {
			c.Violation("C03/js/arguments-modified", fmt.Sprintf("after _.match the script's pattern / message / bindings objects are %s, were %s", got, wantIn), cs)
		}
	}
	if c.Replay != "" {
		var cs msCaseStep
		if c.LoadReplay(&cs) == nil {
			one(cs)
		}
		return
	}
	c.Rule("(matching as scripts do it) a script calls _.match of the extended environment three times with equal arguments, editing every set of the first result (changing values, adding keys, pushing a set) and adding a key to the sets of the second in between: the second and third results must be what match.Match yields, and the script's argument objects must be unchanged - over every pattern up to 3 nodes x every message up to 3 nodes x {} / one variable pre-bound. non-trivial = the pattern matches.")
	var idx uint64
	msgs := stepMessages()
	for _, p := range stepPatterns() {
		vs := map[string]bool{}
		rmatch.Vars(p, vs)
		if len(vs) == 0 {
			continue
		}
		for _, m := range msgs {
			idx++
			if !c.Mine(idx) || c.Expired() {
				continue
			}
			one(msCaseStep{P: p, M: m, B: M{}})
			one(msCaseStep{P: p, M: m, B: M{"?x": 1.0}})
		}
	}
	// Match is a function of its arguments - not of what else the process has done: the outcome (sets, or error)
	// for valid and for refused patterns is the same before and after specifications have been compiled and walked
	if c.Shard == 0 || c.Shards == 1 {
		probes := []msCaseStep{
			{P: M{"$type": "reading", "?sensor": M{"value": "?v"}}, M: M{"kitchen": M{"value": 20.0}}, B: M{}},
			{P: M{"?k": 1.0, "z": 2.0}, M: M{"a": 1.0, "z": 2.0}, B: M{}},
			{P: M{"a": []interface{}{"?x", "?y"}}, M: M{"a": []interface{}{1.0, 2.0}}, B: M{}},
			{P: M{"a": "?<n"}, M: M{"a": 1.0}, B: M{"?<n": 2.0}},
			{P: M{"?k": "?v"}, M: M{"p": 1.0, "q": 2.0}, B: M{}},
			{P: []interface{}{"?x", 1.0}, M: []interface{}{1.0, 2.0, 3.0}, B: M{}},
			{P: M{"a": "??o"}, M: M{}, B: M{}},
		}
		outcome := func(cs msCaseStep) string {
			bss, err := match.Match(clone(cs.P), clone(cs.M), match.Bindings(cloneM(cs.B)))
			if err != nil {
				return "error"
			}
			return strings.Join(canonBs(bss), " ")
		}
		var before []string
		for _, pr := range probes {
			before = append(before, outcome(pr))
		}
		// what a host does in between: compile and walk specifications of several kinds
		for _, as := range []*rstep.ASpec{
			{Nodes: map[string]*rstep.ANode{"n0": {Type: "message", Branches: []rstep.ABranch{{Pattern: M{"?k": "?v"}, Target: "n0"}, {Pattern: M{"a": "?<n"}, Target: "n0"}}}}},
			{Nodes: map[string]*rstep.ANode{"n0": {Type: "message", Branches: []rstep.ABranch{{Pattern: M{"a": []interface{}{"?x"}}, Guard: prog(false, Op{K: "set", A: "g", V: 1.0}), Target: "n0"}}}}},
		} {
			if spec, err := as.Build(); err == nil {
				spec.Walk(context.Background(), &core.State{NodeName: "n0", Bs: match.NewBindings()}, []interface{}{M{"a": 1.0}, M{"p": 1.0}}, nil, nil)
			}
		}
		for i, pr := range probes {
			c.Eval()
			if after := outcome(pr); after != before[i] {
				c.Violation("C03/js/outcome-depends-on-what-the-process-did-before", fmt.Sprintf("Match(%s, %s, %s): before any specification was compiled in this process: [%s]; after: [%s]", rstep.Canon(pr.P), rstep.Canon(pr.M), rstep.Canon(pr.B), before[i], after), pr)
			}
		}
	}
}
