package hcore

import (
	"context"
	"encoding/json"
	"fmt"

	"github.com/Comcast/sheens/core"
	"github.com/Comcast/sheens/match"
	"github.com/Comcast/sheens/verifrt/actlang"
	"github.com/Comcast/sheens/verifrt/ref/rstep"
	"github.com/Comcast/sheens/verifrt/vh"
)

type c09Case struct {
	History []string `json:"history"` // message names
	Saves   []bool   `json:"saves"`   // Saves[i]: round-trip the state through JSON after message i
	Limit   int      `json:"limit"`   // step limit of every Walk call (0: 20); small limits stop walks at action nodes
}

var c09Producers = []struct{ Name, JS string }{
	{"int", `bs.n = 1;`},
	{"frac", `bs.n = 1.5;`},
	{"ints-in-array", `bs.xs = [1, 2];`},
	{"nested", `bs.o = {a: [1, {b: 2}]};`},
	{"null", `bs.z = null;`},
	{"push", `if (!bs.xs) { bs.xs = []; } bs.xs.push(3);`},
	{"throw", `throw "boom";`},
	{"big", `bs.big = 3000000000; bs.neg = -1; bs.to = 1000001;`},
	{"strbool", `bs.s = "str"; bs.b = true; bs.e = []; bs.em = {};`},
	{"objs-in-array", `bs.ys = [{k: 1}, {k: 2, j: [1]}];`},
	{"ineq-bound", `bs["?<m"] = 2;`},
	{"computed", `bs.c = 4 / 2; bs.d = Math.floor(7 / 2); bs.xs2 = [0.5 + 0.5];`},
	{"reset", `bs = {};`},
	// a pattern variable bound by a script to an array of whole numbers: the bound value is the pattern next time
	{"bind-codes", `bs["?codes"] = [100, 200]; bs["?one"] = 7;`},
	// a script that looks into what the engine recorded about a failure
	{"read-last", `var lb = bs.lastBindings; bs.sawLast = lb ? (lb.n === undefined ? "no n" : lb.n) : "none"; bs.sawKeys = lb ? Object.keys(lb).sort().join(",") : "none"; bs.sawNode = (typeof bs.lastNode) + ":" + bs.lastNode;`},
	// failures whose text is long and not ASCII: the text lands in the bindings ("error", "actionError")
	{"throw-long-0", `throw Array(401).join("\u20ac");`},
	{"throw-long-1", `throw "a" + Array(401).join("\u20ac");`},
	{"throw-long-2", `throw "ab" + Array(401).join("\u20ac");`},
	{"throw-huge-1", `throw "a" + Array(1500).join("\u00e9\u20ac");`},
	{"text-long", `bs.txt = Array(401).join("\u20ac") + "\ud83d\ude00"; bs.lone = "\ud83d";`},
}

var c09Inspectors = []struct {
	Name    string
	Pattern interface{}
}{
	{"xs-has-1", M{"xs": []interface{}{1.0}}},
	{"xs-var", M{"xs": []interface{}{"?e", 1.0, 2.0}}},
	{"o-a-1", M{"o": M{"a": []interface{}{1.0}}}},
	{"o-a-b2", M{"o": M{"a": []interface{}{M{"b": 2.0}}}}},
	{"n-lt", M{"n": "?<m"}},
	{"n-is-1", M{"n": 1.0}},
	{"last-n", M{"lastBindings": M{"n": "?v"}}},
	{"last-node", M{"lastNode": "?l"}},
	{"last-xs", M{"lastBindings": M{"xs": []interface{}{2.0}}}},
	{"big", M{"big": 3000000000.0, "neg": -1.0}},
	{"z-null", M{"z": nil}},
	{"ys-k1", M{"ys": []interface{}{M{"k": 1.0}}}},
	{"ys-j", M{"ys": []interface{}{M{"j": []interface{}{1.0}}}}},
	{"xs-3", M{"xs": []interface{}{3.0}}},
	{"computed", M{"c": 2.0, "d": 3.0, "xs2": []interface{}{1.0}}},
	{"empty", M{"e": []interface{}{}, "em": M{}, "s": "str", "b": true}},
}

func c09Spec() *rstep.ASpec {
	var hub []rstep.ABranch
	nodes := map[string]*rstep.ANode{}
	for _, p := range c09Producers {
		hub = append(hub, rstep.ABranch{Pattern: M{"do": p.Name}, Target: "p-" + p.Name})
		nodes["p-"+p.Name] = &rstep.ANode{Action: &actlang.Prog{Ops: []Op{{K: actlang.Raw, A: p.JS}}}, Branches: []rstep.ABranch{{Target: "idle"}}}
	}
	for _, i := range c09Inspectors {
		hub = append(hub, rstep.ABranch{Pattern: M{"ask": i.Name}, Target: "i-" + i.Name})
		nodes["i-"+i.Name] = &rstep.ANode{Type: "bindings", Branches: []rstep.ABranch{{Pattern: i.Pattern, Target: "y-" + i.Name}, {Target: "n-" + i.Name}}}
		nodes["y-"+i.Name] = &rstep.ANode{Action: &actlang.Prog{Ops: []Op{{K: actlang.Emit, V: M{"inspector": i.Name, "matched": true}}}}, Branches: []rstep.ABranch{{Target: "idle"}}}
		nodes["n-"+i.Name] = &rstep.ANode{Action: &actlang.Prog{Ops: []Op{{K: actlang.Emit, V: M{"inspector": i.Name, "matched": false}}}}, Branches: []rstep.ABranch{{Target: "idle"}}}
	}
	// branches whose patterns re-use variables a script may have bound
	hub = append(hub, rstep.ABranch{Pattern: M{"codes": "?codes"}, Target: "y-codes"}, rstep.ABranch{Pattern: M{"one": []interface{}{"?one"}}, Target: "y-codes"})
	nodes["y-codes"] = &rstep.ANode{Action: &actlang.Prog{Ops: []Op{{K: actlang.Emit, V: M{"granted": true}}}}, Branches: []rstep.ABranch{{Target: "idle"}}}
	// a branch whose target is taken from a binding (a number, if a script put one there: whatever the engine makes
	// of that, it makes the same of it after a reload); there is a node with the number's name
	hub = append(hub, rstep.ABranch{Pattern: M{"jump": "?j"}, Target: "@to"})
	nodes["1000001"] = &rstep.ANode{Action: &actlang.Prog{Ops: []Op{{K: actlang.Emit, V: M{"arrived": true}}}}, Branches: []rstep.ABranch{{Target: "idle"}}}
	// a branch without a pattern: any other message is consumed by it (followed only with non-nil bindings)
	hub = append(hub, rstep.ABranch{Target: "dflt"})
	nodes["dflt"] = &rstep.ANode{Action: &actlang.Prog{Ops: []Op{{K: actlang.Emit, V: M{"unexpected": true}}}}, Branches: []rstep.ABranch{{Target: "idle"}}}
	nodes["idle"] = &rstep.ANode{Type: "message", Branches: hub}
	nodes["error"] = &rstep.ANode{Type: "message", Branches: hub} // the machine stays usable at the error node
	return &rstep.ASpec{Nodes: nodes}
}

func c09Msg(name string) interface{} {
	if name == "other" {
		return M{"zzz": 1.0}
	}
	if name == "codes-msg" {
		return M{"codes": []interface{}{100.0, 200.0, 300.0}}
	}
	if name == "one-msg" {
		return M{"one": []interface{}{7.0, 8.0}}
	}
	if name == "jump-msg" {
		return M{"jump": 1.0}
	}
	for _, p := range c09Producers {
		if p.Name == name {
			return M{"do": name}
		}
	}
	return M{"ask": name}
}

type c09Step struct {
	Node    string
	Bs      string
	Emitted string
	Err     string
}

func c09RunHistory(spec *core.Spec, cs c09Case, roundTrip bool) ([]c09Step, string) {
	st := &core.State{NodeName: "idle", Bs: match.NewBindings()}
	limit := cs.Limit
	if limit == 0 {
		limit = 20
	}
	var out []c09Step
	for i, name := range cs.History {
		var w *core.Walked
		var err error
		if p, pm, where := vh.Trap(func() {
			w, err = spec.Walk(context.Background(), st, []interface{}{c09Msg(name)}, &core.Control{Limit: limit}, nil)
		}); p {
			return out, "panic/" + where + ": " + pm
		}
		s := c09Step{}
		if err != nil {
			s.Err = err.Error()
		} else {
			if to := w.To(); to != nil {
				st = to
			}
			s.Emitted = rstep.Canon(nz(emittedOf(w)))
		}
		s.Node, s.Bs = st.NodeName, rstep.Canon(M(st.Bs))
		out = append(out, s)
		if roundTrip && cs.Saves[i] {
			js, merr := json.Marshal(st)
			if merr != nil {
				return out, "state-not-serialisable: " + merr.Error()
			}
			var st2 core.State
			if uerr := json.Unmarshal(js, &st2); uerr != nil {
				return out, "state-not-readable: " + uerr.Error()
			}
			// plain data survives the trip unchanged: same strings byte for byte, same numbers, same structure
			if why := sameData(map[string]interface{}(st.Bs), map[string]interface{}(st2.Bs), "bindings"); why != "" && st.NodeName == st2.NodeName {
				return out, "state-is-not-plain-data: after message #" + fmt.Sprint(i) + " (" + name + ") saving and reloading the state changes it: " + why
			}
			st = &st2
		}
	}
	return out, ""
}

func c09One(c *vh.Ctx, spec *core.Spec, cs c09Case) {
	c.Eval()
	c.R.Traces++
	a, ea := c09RunHistory(spec, cs, false)
	b, eb := c09RunHistory(spec, cs, true)
	c.R.Transitions += int64(len(a) + len(b))
	if ea != "" || eb != "" {
		c.Violation("C09/"+firstWord(ea+eb), fmt.Sprintf("history %v saves %v: %s %s", cs.History, cs.Saves, ea, eb), cs)
		return
	}
	anySave := false
	for _, s := range cs.Saves {
		anySave = anySave || s
	}
	if anySave {
		c.Nontrivial()
	}
	for i := range a {
		c.Outcome("step", a[i].Node+a[i].Bs+a[i].Emitted)
		if a[i] != b[i] {
			// which save point and which later message reveal it
			saved := -1
			for j := 0; j < i; j++ {
				if cs.Saves[j] {
					saved = j
				}
			}
			after := "?"
			if saved >= 0 {
				after = cs.History[saved]
			}
			c.Violation(fmt.Sprintf("C09/persisted-state-behaves-differently/saved-after-%s/observed-by-%s", producedBy(cs, saved), cs.History[i]),
				fmt.Sprintf("history %v, state saved+reloaded after message #%d (%s): at message #%d (%s) in memory -> %s/%s emitting %s; after reload -> %s/%s emitting %s",
					cs.History, saved, after, i, cs.History[i], a[i].Node, a[i].Bs, a[i].Emitted, b[i].Node, b[i].Bs, b[i].Emitted), cs)
			return
		}
	}
}

// sameData compares a value in memory with its reloaded copy: "" or where they differ.
func sameData(a, b interface{}, path string) string {
	num := func(x interface{}) (float64, bool) {
		switch v := x.(type) {
		case float64:
			return v, true
		case float32:
			return float64(v), true
		case int:
			return float64(v), true
		case int64:
			return float64(v), true
		case int32:
			return float64(v), true
		case uint:
			return float64(v), true
		case uint64:
			return float64(v), true
		}
		return 0, false
	}
	asMap := func(x interface{}) (map[string]interface{}, bool) {
		switch v := x.(type) {
		case map[string]interface{}:
			return v, true
		case match.Bindings:
			return map[string]interface{}(v), true
		}
		return nil, false
	}
	if fa, ok := num(a); ok {
		if fb, ok := num(b); ok && fa == fb {
			return ""
		}
		return fmt.Sprintf("%s: number %v reloads as %v", path, a, b)
	}
	if ma, ok := asMap(a); ok {
		mb, ok := asMap(b)
		if !ok && !(len(ma) == 0 && b == nil) {
			return fmt.Sprintf("%s: a map reloads as %T", path, b)
		}
		if len(ma) != len(mb) {
			return fmt.Sprintf("%s: %d entries reload as %d", path, len(ma), len(mb))
		}
		for k, va := range ma {
			vb, have := mb[k]
			if !have {
				return fmt.Sprintf("%s: entry %q is lost", path, k)
			}
			if why := sameData(va, vb, path+"."+k); why != "" {
				return why
			}
		}
		return ""
	}
	switch va := a.(type) {
	case nil:
		if b == nil {
			return ""
		}
		if mb, ok := asMap(b); ok && len(mb) == 0 {
			return ""
		}
		return fmt.Sprintf("%s: null reloads as %T", path, b)
	case bool:
		if vb, ok := b.(bool); ok && va == vb {
			return ""
		}
		return fmt.Sprintf("%s: %v reloads as %v", path, a, b)
	case string:
		if vb, ok := b.(string); ok && va == vb {
			return ""
		}
		vb, _ := b.(string)
		return fmt.Sprintf("%s: a string of %d bytes reloads as a different string of %d bytes (%q... vs %q...)", path, len(va), len(vb), clipS(va), clipS(vb))
	case []interface{}:
		vb, ok := b.([]interface{})
		if !ok && !(len(va) == 0 && b == nil) {
			return fmt.Sprintf("%s: an array reloads as %T", path, b)
		}
		if len(va) != len(vb) {
			return fmt.Sprintf("%s: %d elements reload as %d", path, len(va), len(vb))
		}
		for i := range va {
			if why := sameData(va[i], vb[i], fmt.Sprintf("%s[%d]", path, i)); why != "" {
				return why
			}
		}
		return ""
	}
	return fmt.Sprintf("%s: a value of type %T is not plain data", path, a)
}

func clipS(s string) string {
	if len(s) > 12 {
		return s[len(s)-12:]
	}
	return s
}

// producedBy: the producers that ran before the save point (the values whose representation matters).
func producedBy(cs c09Case, saved int) string {
	s := ""
	for j := 0; j <= saved && j < len(cs.History); j++ {
		for _, p := range c09Producers {
			if p.Name == cs.History[j] {
				if s != "" {
					s += "+"
				}
				s += p.Name
			}
		}
	}
	if s == "" {
		return "none"
	}
	return s
}

func firstWord(s string) string {
	for i, r := range s {
		if r == ':' || r == ' ' {
			return s[:i]
		}
	}
	return s
}

// C09: persisting and restoring a machine at any message boundary is unobservable.
func C09(c *vh.Ctx) {
	as := c09Spec()
	spec, err := as.Build()
	if err != nil {
		c.Violation("C09/compile-failed", err.Error(), nil)
		return
	}
	if c.Replay != "" {
		var cs c09Case
		if c.LoadReplay(&cs) == nil {
			c09One(c, spec, cs)
		}
		return
	}
	maxLen := c.Pick(3, 4)
	var names []string
	for _, p := range c09Producers {
		names = append(names, p.Name)
	}
	for _, i := range c09Inspectors {
		names = append(names, i.Name)
	}
	names = append(names, "other", "codes-msg", "one-msg", "jump-msg")
	limits := []int{20, 2}
	if c.Tier == "thorough" {
		limits = []int{20, 1, 2, 3}
	}
	c.Bound("step_limits", limits)
	c.Bound("history_max", maxLen)
	c.Bound("messages", len(names))
	c.Rule(fmt.Sprintf("one specification with %d ECMAScript producer actions (integers, fractions, arrays of numbers / objects, nested objects, nulls, in-place edits, computed numbers, a failing action, reset) and %d inspector branches (patterns over the produced values, incl. lastBindings/lastNode at the error node and an inequality); every message history up to the bound over all %d messages (incl. one consumed by a pattern-less default branch, arrays met by patterns that re-use script-bound variables, and one whose branch takes its target from a binding that a script set to a large whole number - there is a node of that name) x every step limit of the bound (small limits stop a walk at an action node, which is then also a save point) x every subset of message boundaries as save points (state -> JSON -> state); oracle: per message equal (node, canonical bindings, emitted) between the in-memory run and the persisted run, and at every save point the state equals its reloaded copy strictly (strings byte for byte, numbers by value, same structure) - a state that a JSON trip changes is not plain data. states = histories, transitions = messages processed; non-trivial = at least one save point.", len(c09Producers), len(c09Inspectors), len(names)))
	var idx uint64
	var rec func(h []string)
	rec = func(h []string) {
		if len(h) > 0 {
			idx++
			if c.Mine(idx) && !c.Expired() {
				c.R.States++
				n := len(h)
				for mask := 0; mask < 1<<uint(n-1); mask++ { // a save after the last message is unobservable
					saves := make([]bool, n)
					for j := 0; j < n-1; j++ {
						saves[j] = mask&(1<<uint(j)) != 0
					}
					cs := c09Case{History: append([]string{}, h...), Saves: saves}
					for _, lim := range limits {
						cs.Limit = lim
						c09One(c, spec, cs)
					}
					if c.WantSample() && n == maxLen && mask == 1<<uint(n-1)-1 {
						c.Sample(cs)
					}
				}
			}
		}
		if len(h) == maxLen {
			return
		}
		for _, n := range names {
			rec(append(h, n))
		}
	}
	rec(nil)
}
