package hcore

import (
	"context"
	"encoding/json"
	"fmt"
	"strings"

	"github.com/Comcast/sheens/core"
	"github.com/Comcast/sheens/interpreters/noop"
	"github.com/Comcast/sheens/match"
	"github.com/Comcast/sheens/verifrt/actlang"
	"github.com/Comcast/sheens/verifrt/ref/rstep"
	"github.com/Comcast/sheens/verifrt/snap"
	"github.com/Comcast/sheens/verifrt/vh"
	jyaml "github.com/jsccast/yaml"
	yaml2 "gopkg.in/yaml.v2"
)

type c13Case struct {
	P1, P2 int    // indexes into c13Patterns
	Flavor string // plain | guard | throw-aen | throw-aeb
	Rep    string // go | json | yaml-jsccast | yaml-v2
	Syntax string // none | json | explicit-none (patternSyntax: "none" written out)
	Comp   string // once | twice-force | twice-noforce | reload | reload-yaml | parse-... | after-permissive
	Bad    string // "" | unknown-interpreter | unknown-guard-interpreter | unknown-branchtype | unknown-patternsyntax
	// BadName: the name written where Bad says ("" = cobol / weird / xml).  A name that differs from a known
	// one only in case or surrounding blanks is either rejected or honoured like the known one - never
	// accepted and then treated as something else.
	BadName string `json:"bad_name,omitempty"`
}

var c13Patterns = []interface{}{
	M{"a": "?x"},
	M{"a": 1.0},
	[]interface{}{1.0, "?y"},
	7.0,
	true,
	"s",
	"?v",
	M{"a": M{"b": []interface{}{1.0}}},
	"1",
	M{"k": "true"},
	M{"g": []interface{}{[]interface{}{"r", M{"x": "?x"}}}},
	[]interface{}{[]interface{}{M{"a": M{"b": "?y"}}}, M{"c": []interface{}{M{"d": 1.0}}}},
}

var c13Msgs = []interface{}{M{"a": 1.0}, M{"a": M{"b": []interface{}{1.0, 2.0}}}, []interface{}{1.0, 2.0}, 7.0, true, "s", "t", 1.0, "1", M{"k": "true"}, M{"k": true},
	M{"g": []interface{}{[]interface{}{"r", M{"x": 5.0}}, []interface{}{"q"}}}, []interface{}{[]interface{}{M{"a": M{"b": 2.0}}}, M{"c": []interface{}{M{"d": 1.0}}}}}

func c13Abstract(cs c13Case) *rstep.ASpec {
	b2 := rstep.ABranch{Pattern: c13Patterns[cs.P2], Target: "n2"}
	act := &actlang.Prog{Ops: []Op{{K: actlang.Emit, V: M{"at": "n1"}}, {K: actlang.Set, A: "seen", V: 1.0}}}
	as := &rstep.ASpec{}
	switch cs.Flavor {
	case "guard":
		b2.Guard = &actlang.Prog{Ops: []Op{{K: actlang.Set, A: "g", V: 1.0}}}
	case "throw-aen":
		act = &actlang.Prog{Ops: []Op{{K: actlang.Throw}}}
		as.ActionErrorNode = "errh"
	case "throw-aeb":
		act = &actlang.Prog{Ops: []Op{{K: actlang.Throw}}}
		as.ActionErrorBranches = true
	}
	as.Nodes = map[string]*rstep.ANode{
		"n0":   {Type: "message", Branches: []rstep.ABranch{{Pattern: c13Patterns[cs.P1], Target: "n1"}, b2}},
		"n1":   {Action: act, Branches: []rstep.ABranch{{Pattern: M{"actionError": "?e"}, Target: "errh"}, {Target: "n0"}}},
		"n2":   {Type: "message", Branches: []rstep.ABranch{{Target: "n0"}}},
		"errh": {Type: "message", Branches: []rstep.ABranch{{Target: "n0"}}},
	}
	return as
}

// c13Load renders and loads the spec in the requested representation (not yet compiled).
func c13Load(cs c13Case) (*core.Spec, error) {
	as := c13Abstract(cs)
	jsonPats := cs.Syntax == "json"
	var spec *core.Spec
	if cs.Rep == "go" {
		spec = as.Raw()
		if cs.Syntax == "explicit-none" {
			spec.PatternSyntax = "none"
		}
		if jsonPats {
			spec.PatternSyntax = "json"
			for _, n := range spec.Nodes {
				if n.Branches == nil {
					continue
				}
				for _, b := range n.Branches.Branches {
					if b.Pattern != nil {
						js, _ := json.Marshal(b.Pattern)
						b.Pattern = string(js)
					}
				}
			}
		}
		switch cs.Bad {
		case "unknown-interpreter":
			spec.Nodes["n2"].ActionSource = &core.ActionSource{Interpreter: cs.badName("cobol"), Source: "x"}
			spec.Nodes["n2"].Branches.Type = "bindings"
		case "unknown-guard-interpreter":
			spec.Nodes["errh"].Branches.Branches[0].GuardSource = &core.ActionSource{Interpreter: cs.badName("cobol"), Source: "x"}
		case "unknown-branchtype":
			spec.Nodes[cs.branchTypeNode()].Branches.Type = cs.badName("weird")
		case "unknown-patternsyntax":
			spec.PatternSyntax = cs.badName("xml")
		}
		return spec, nil
	}
	format := "json"
	if cs.Rep != "json" {
		format = "yaml"
	}
	doc, ok := as.Doc(format, jsonPats)
	if !ok {
		return nil, fmt.Errorf("not renderable")
	}
	if cs.Syntax == "explicit-none" {
		if format == "json" {
			doc["patternSyntax"] = "none"
		} else {
			doc["patternsyntax"] = "none"
		}
	}
	nodes := doc["nodes"].(map[string]interface{})
	switch cs.Bad {
	case "unknown-interpreter":
		n2 := nodes["n2"].(map[string]interface{})
		n2["action"] = M{"interpreter": cs.badName("cobol"), "source": "x"}
		n2["branching"].(map[string]interface{})["type"] = "bindings"
	case "unknown-guard-interpreter":
		nodes["errh"].(map[string]interface{})["branching"].(map[string]interface{})["branches"].([]interface{})[0].(map[string]interface{})["guard"] = M{"interpreter": cs.badName("cobol"), "source": "x"}
	case "unknown-branchtype":
		nodes[cs.branchTypeNode()].(map[string]interface{})["branching"].(map[string]interface{})["type"] = cs.badName("weird")
	case "unknown-patternsyntax":
		if format == "json" {
			doc["patternSyntax"] = cs.badName("xml")
		} else {
			doc["patternsyntax"] = cs.badName("xml")
		}
	}
	spec = &core.Spec{}
	var err error
	switch cs.Rep {
	case "json":
		js, _ := json.Marshal(doc)
		err = json.Unmarshal(js, spec)
	case "yaml-jsccast":
		err = jyaml.Unmarshal([]byte(rstep.YAML(doc)), spec)
	case "yaml-v2":
		err = yaml2.Unmarshal([]byte(rstep.YAML(doc)), spec)
	}
	return spec, err
}

func (cs c13Case) badName(def string) string {
	if cs.BadName != "" {
		return cs.BadName
	}
	return def
}

// canonicalOf: the known name that BadName is a case/blank variant of ("" if none).
func (cs c13Case) canonicalOf() string {
	if cs.BadName == "" {
		return ""
	}
	l := strings.ToLower(strings.TrimSpace(cs.BadName))
	if l == cs.BadName {
		return ""
	}
	var known []string
	switch cs.Bad {
	case "unknown-interpreter", "unknown-guard-interpreter":
		known = []string{"ecmascript", "ecmascript-ext"}
	case "unknown-branchtype":
		known = []string{"message", "bindings"}
	case "unknown-patternsyntax":
		known = []string{"json", "none"}
	}
	for _, k := range known {
		if k == l {
			return k
		}
	}
	return ""
}

// branchTypeNode: a near-miss of a known type is written on the start node (where the type matters on every
// message), a plainly unknown one on the error handler.
func (cs c13Case) branchTypeNode() string {
	if cs.BadName != "" {
		return "n0"
	}
	return "errh"
}

// c13Compile applies the compile variant; returns the spec to use.
func c13Compile(cs c13Case, spec *core.Spec) (*core.Spec, string, error) {
	ctx := context.Background()
	switch cs.Comp {
	case "after-permissive":
		// what a tool does that only wants the structure (tools.ReadAndRenderSpecPage): compile with interpreters
		// that accept every name and do nothing; what that produced must not leak into a later real compilation,
		// neither of the same object nor of a copy
		if err := spec.Copy("permissive").Compile(ctx, noop.NewInterpreters(), true); err != nil {
			return nil, "", fmt.Errorf("permissive Compile of a copy failed: %v", err)
		}
		if err := spec.Compile(ctx, noop.NewInterpreters(), true); err != nil {
			return nil, "", fmt.Errorf("permissive Compile failed: %v", err)
		}
	case "parse-then-compile", "parse-reload-compile":
		// what a tool does that parses the patterns itself before compiling (cmd/spectool), possibly writing
		// the spec out and reading it back in between
		if err := spec.ParsePatterns(ctx); err != nil {
			return nil, "", fmt.Errorf("ParsePatterns failed: %v", err)
		}
		if cs.Comp == "parse-reload-compile" {
			js, err := json.Marshal(spec)
			if err != nil {
				return nil, "", fmt.Errorf("spec with parsed patterns does not serialise: %v", err)
			}
			s2 := &core.Spec{}
			if err := json.Unmarshal(js, s2); err != nil {
				return nil, "", fmt.Errorf("serialised spec with parsed patterns does not load: %v", err)
			}
			spec = s2
		}
	}
	if err := spec.Compile(ctx, nil, true); err != nil {
		return nil, "", err
	}
	switch cs.Comp {
	case "twice-force", "twice-noforce":
		before := snap.Of(spec)
		if err := spec.Compile(ctx, nil, cs.Comp == "twice-force"); err != nil {
			return nil, "", fmt.Errorf("second Compile failed: %v", err)
		}
		if after := snap.Of(spec); after != before {
			return spec, "recompile-changed-spec", nil
		}
	case "reload":
		js, err := json.Marshal(spec)
		if err != nil {
			return nil, "", fmt.Errorf("compiled spec does not serialise: %v", err)
		}
		s2 := &core.Spec{}
		if err := json.Unmarshal(js, s2); err != nil {
			return nil, "", fmt.Errorf("serialised spec does not load: %v", err)
		}
		if err := s2.Compile(ctx, nil, true); err != nil {
			return nil, "", fmt.Errorf("reloaded spec does not compile: %v", err)
		}
		return s2, "", nil
	case "reload-yaml":
		ys, err := yaml2.Marshal(spec)
		if err != nil {
			return nil, "", fmt.Errorf("compiled spec does not serialise to YAML: %v", err)
		}
		s2 := &core.Spec{}
		if err := yaml2.Unmarshal(ys, s2); err != nil {
			return nil, "", fmt.Errorf("YAML-serialised spec does not load: %v", err)
		}
		if err := s2.Compile(ctx, nil, true); err != nil {
			return nil, "", fmt.Errorf("YAML-reloaded spec does not compile: %v", err)
		}
		return s2, "", nil
	}
	return spec, "", nil
}

// c13Trace walks every message sequence and renders the behaviour.
func c13Trace(spec *core.Spec, maxLen int) string {
	var out string
	var rec func(st *core.State, depth int, prefix string)
	rec = func(st *core.State, depth int, prefix string) {
		if depth == maxLen {
			return
		}
		for i, m := range c13Msgs {
			w, err := spec.Walk(context.Background(), st.Copy(), []interface{}{clone(m)}, &core.Control{Limit: 20}, nil)
			key := fmt.Sprintf("%s%d", prefix, i)
			if err != nil {
				out += key + ":ERR;"
				continue
			}
			ns := st
			if to := w.To(); to != nil {
				ns = to
			}
			out += fmt.Sprintf("%s:%s/%s/%s;", key, ns.NodeName, rstep.Canon(rstep.MaskErrors(M(ns.Bs))), rstep.Canon(nz(emittedOf(w))))
			rec(ns, depth+1, key+".")
		}
	}
	rec(&core.State{NodeName: "n0", Bs: match.NewBindings()}, 0, "")
	return out
}

func c13Behaviour(cs c13Case, maxLen int) (trace string, note string, err error) {
	var spec *core.Spec
	var perr string
	p, pm, where := vh.Trap(func() {
		var s0 *core.Spec
		s0, err = c13Load(cs)
		if err != nil {
			err = fmt.Errorf("load: %v", err)
			return
		}
		spec, note, err = c13Compile(cs, s0)
		if err != nil {
			return
		}
		trace = c13Trace(spec, maxLen)
	})
	if p {
		perr = "panic/" + where + ": " + pm
		return "", "", fmt.Errorf("%s", perr)
	}
	return
}

func patShape(i int) string {
	return []string{"map-var", "map-const", "array", "number", "bool", "bare-string", "bare-variable", "nested", "numeric-looking-string", "map-with-keyword-string", "array-in-array-in-map", "maps-in-nested-arrays"}[i]
}

// C13: representation independence and idempotent compilation.
func C13(c *vh.Ctx) {
	maxLen := c.Pick(2, 3)
	one := func(cs c13Case) {
		base := cs
		base.Rep, base.Syntax, base.Comp = "go", "none", "once"
		c.Eval()
		bt, _, berr := c13Behaviour(base, maxLen)
		vt, note, verr := c13Behaviour(cs, maxLen)
		c.Nontrivial()
		sig := fmt.Sprintf("rep=%s/syntax=%s/compile=%s/patterns=%s+%s", cs.Rep, cs.Syntax, cs.Comp, patShape(cs.P1), patShape(cs.P2))
		if cs.Bad != "" {
			if verr == nil {
				if canon := cs.canonicalOf(); canon != "" {
					// accepted: then it has to be honoured exactly like the known name it resembles
					twin := cs
					twin.BadName = canon
					tt, _, terr := c13Behaviour(twin, maxLen)
					if terr == nil && tt == vt {
						c.Count("near_miss_names_accepted_and_honoured", 1)
						return
					}
					c.Violation("C13/accepted-at-compile-time-but-not-honoured/"+cs.Bad+"/rep="+cs.Rep, fmt.Sprintf("a spec using %q where %q is the known name compiled without error, but does not behave like the spec that says %q: %s", cs.BadName, canon, canon, firstDiff(tt, vt)), cs)
					return
				}
				c.Violation("C13/accepted-at-compile-time/"+cs.Bad+"/rep="+cs.Rep, fmt.Sprintf("a spec using an %s (%q) compiled without error", cs.Bad, cs.badName("cobol / weird / xml")), cs)
			} else {
				c.Count("unknown_names_rejected", 1)
			}
			return
		}
		if berr != nil {
			c.Violation("C13/baseline-does-not-compile/patterns="+patShape(cs.P1)+"+"+patShape(cs.P2), "Go-structure rendering failed: "+berr.Error(), cs)
			return
		}
		if verr != nil {
			c.Violation("C13/fails-in-this-representation/"+sig, fmt.Sprintf("compiles as Go structures but not as %s (syntax %s, %s): %v", cs.Rep, cs.Syntax, cs.Comp, verr), cs)
			return
		}
		if note != "" {
			c.Violation("C13/"+note+"/"+sig, "compiling a compiled specification again changed it", cs)
			return
		}
		c.Outcome("trace", bt)
		if vt != bt {
			c.Violation("C13/behaves-differently/"+sig, fmt.Sprintf("behaviour differs from the Go-structure rendering; first difference near: %s", firstDiff(bt, vt)), cs)
		}
	}
	if c.Replay != "" {
		var cs c13Case
		if c.LoadReplay(&cs) == nil {
			one(cs)
		}
		return
	}
	c.Bound("message_sequence_max", maxLen)
	c.Rule("specs = (first pattern, second pattern) over 12 JSON shapes (map with variable, map constant, array, number, bool, bare string, bare variable, nested, numeric-looking string, keyword-looking string, array in array in map, maps inside nested arrays) x flavour {plain, guarded, throwing action + ActionErrorNode, + ActionErrorBranches}; each rendered as Go structures / JSON / YAML via jsccast / YAML via yaml.v2 x pattern syntax {inline, json text, inline with patternSyntax none written out} x compile variant {once, twice forced, twice unforced, compile-serialise(JSON)-reload-compile, compile-serialise(YAML, yaml.v2)-reload-compile, ParsePatterns-then-compile, ParsePatterns-serialise-reload-compile, compile after the spec and a copy were compiled with the do-nothing interpreters that accept every name}; behaviour = full tree of walks over all message sequences up to the bound over 13 messages, compared with the Go-structure/inline/once rendering; plus unknown-interpreter / guard-interpreter / branch-type / pattern-syntax variants per representation - plainly unknown names (cobol, weird, xml, msg, yaml, goja ...) must fail to compile; near misses of the known names (other letter case, surrounding blanks) must either fail to compile or behave exactly like the known name. non-trivial = every case (each is a distinct rendering).")
	reps := []string{"go", "json", "yaml-jsccast", "yaml-v2"}
	var idx uint64
	for p1 := range c13Patterns {
		for p2 := range c13Patterns {
			for _, fl := range []string{"plain", "guard", "throw-aen", "throw-aeb"} {
				idx++
				if !c.Mine(idx) {
					continue
				}
				if c.Expired() {
					return
				}
				if c.Quick() && fl != "plain" && (p1+p2)%3 != 0 {
					continue
				}
				for _, rep := range reps {
					for _, syn := range []string{"none", "json", "explicit-none"} {
						for _, comp := range []string{"once", "twice-force", "twice-noforce", "reload", "reload-yaml", "parse-then-compile", "parse-reload-compile"} {
							if comp == "once" && syn == "none" && fl != "plain" {
								one(c13Case{P1: p1, P2: p2, Flavor: fl, Rep: rep, Syntax: syn, Comp: "after-permissive"})
							}
							if rep == "go" && syn == "none" && comp == "once" {
								continue
							}
							cs := c13Case{P1: p1, P2: p2, Flavor: fl, Rep: rep, Syntax: syn, Comp: comp}
							one(cs)
							if c.WantSample() && p1 == 5 && rep == "yaml-jsccast" {
								c.Sample(cs)
							}
						}
					}
					if p1 == 0 && p2 == 1 {
						for _, bad := range []string{"unknown-interpreter", "unknown-guard-interpreter", "unknown-branchtype", "unknown-patternsyntax"} {
							one(c13Case{P1: p1, P2: p2, Flavor: fl, Rep: rep, Syntax: "none", Comp: "once", Bad: bad})
							one(c13Case{P1: p1, P2: p2, Flavor: fl, Rep: rep, Syntax: "none", Comp: "after-permissive", Bad: bad})
						}
						// near misses of the known names
						for _, nm := range []string{"ECMAScript", "Ecmascript", "ecmascript ", " ecmascript", "goja", "js", "ecmascript-EXT"} {
							one(c13Case{P1: p1, P2: p2, Flavor: fl, Rep: rep, Syntax: "none", Comp: "once", Bad: "unknown-interpreter", BadName: nm})
							one(c13Case{P1: p1, P2: p2, Flavor: fl, Rep: rep, Syntax: "none", Comp: "once", Bad: "unknown-guard-interpreter", BadName: nm})
						}
						for _, nm := range []string{"Message", "MESSAGE", "message ", " message", "Bindings", "BINDINGS", "msg", "messages", "default"} {
							one(c13Case{P1: p1, P2: p2, Flavor: fl, Rep: rep, Syntax: "none", Comp: "once", Bad: "unknown-branchtype", BadName: nm})
						}
						for _, nm := range []string{"JSON", "Json", "json ", " json"} {
							one(c13Case{P1: p1, P2: p2, Flavor: fl, Rep: rep, Syntax: "json", Comp: "once", Bad: "unknown-patternsyntax", BadName: nm})
						}
						for _, nm := range []string{"None", "NONE", "yaml", "inline"} {
							one(c13Case{P1: p1, P2: p2, Flavor: fl, Rep: rep, Syntax: "none", Comp: "once", Bad: "unknown-patternsyntax", BadName: nm})
						}
					}
				}
			}
		}
	}
}

func firstDiff(a, b string) string {
	n := len(a)
	if len(b) < n {
		n = len(b)
	}
	i := 0
	for i < n && a[i] == b[i] {
		i++
	}
	lo := i - 80
	if lo < 0 {
		lo = 0
	}
	ha, hb := i+120, i+120
	if ha > len(a) {
		ha = len(a)
	}
	if hb > len(b) {
		hb = len(b)
	}
	return fmt.Sprintf("baseline …%s… vs …%s…", a[lo:ha], b[lo:hb])
}
