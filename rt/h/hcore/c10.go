package hcore

import (
	"context"
	"fmt"
	"os"

	"github.com/Comcast/sheens/core"
	"github.com/Comcast/sheens/interpreters/ecmascript"
	"github.com/Comcast/sheens/match"
	"github.com/Comcast/sheens/verifrt/ref/rstep"
	"github.com/Comcast/sheens/verifrt/snap"
	"github.com/Comcast/sheens/verifrt/vh"
)

type jsProg struct {
	Name string
	Src  string
}

var c10Polluters = []jsProg{
	{"bindings-depth1", `_.bindings.a = 99; delete _.bindings.keep; return {};`},
	{"bindings-arrays-of-scalars", `if (_.bindings.nums) { _.bindings.nums[0] = 9; _.bindings.nums.sort(); _.bindings.flags.reverse(); _.bindings.flags[1] = "changed"; } if (_.bindings["list!"]) { _.bindings["list!"][1] = "changed"; } return {};`},
	{"bindings-arrays-of-scalars-then-throw", `if (_.bindings.nums) { _.bindings.nums[1] = 8; _.bindings.nums.reverse(); } throw "after";`},
	{"bindings-depth2", `_.bindings.o.x = 99; return {};`},
	{"bindings-depth3", `_.bindings.o.l[0].z = 99; _.bindings.o.l.push(7); return {};`},
	{"bindings-go-typed", `_.bindings.tags[0] = "changed"; _.bindings.labels.a = "changed"; _.bindings.recs[0].k = 2; return {};`},
	{"bindings-go-typed-only", `if (_.bindings.tags) { _.bindings.tags[0] = "changed"; } if (_.bindings.labels) { _.bindings.labels.a = "changed"; } if (_.bindings.nums) { _.bindings.nums[0] = 9; } return {};`},
	{"bindings-permanent-value", `_.bindings["cfg!"].limit = 0; _.bindings["cfg!"].deep[0].z = "changed"; _.bindings["cfg!"].deep.push(9); _.bindings["list!"][0] = "changed"; return _.bindings;`},
	{"bindings-by-computed-name", `var b = _["bind" + "ings"]; b.a = 99; delete b.keep; b.o.x = 99; b.o.l.push(8); return {};`},
	{"bindings-by-enumeration", `for (var k in _) { var v = _[k]; if (v && typeof v == "object" && v.keep !== undefined) { v.keep = "gone"; v.o.x = 98; } } return {};`},
	{"props-by-computed-name", `var p = _["pro" + "ps"]; if (p.cfg) { p.cfg.x = 97; } p.viaComputed = 1; return {};`},
	{"props-nested", `_.props.cfg.x = 99; _.props.list.push(1); return {};`},
	{"props-top", `_.props.top = 1; delete _.props.cfg; return {};`},
	{"props-array-of-maps", `_.props.hosts[0].up = false; _.props.hosts[0].tags.push("t"); _.props.hosts[1][0].deep = 2; return {};`},
	{"props-top-whatever-the-props", `_.props.top = 1; _.props.leak = {a: 1}; delete _.props.s; return {};`},
	{"implicit-global", `leak = 42; return {};`},
	{"this-global", `this.leak2 = 43; return {};`},
	{"object-prototype", `Object.prototype.polluted = 1; return {};`},
	{"array-prototype", `Array.prototype.polluted = function() { return 1; }; return {};`},
	{"json-builtin", `JSON.stringify = function() { return "hacked"; }; return {};`},
	{"replace-out", `_.out = function(x) { return "swallowed"; }; return {};`},
	{"replace-bindings-props", `_.bindings = {evil: 1}; _.props = {evil: 1}; return {};`},
	{"null-env", `_ = null; return {};`},
	{"math-string", `Math.floor = function() { return 0; }; String.prototype.x = 1; return {};`},
	{"pollute-then-throw", `Object.prototype.p2 = 1; leak3 = 1; _.props.cfg.y = 5; throw "x";`},
	{"pollute-then-bad-return", `leak4 = 1; Array.prototype.p3 = 1; return 7;`},
	{"define-property", `Object.defineProperty(Object.prototype, "sneaky", {value: 1, enumerable: false}); return {};`},
	{"freeze-env", `Object.freeze(_.bindings); Object.freeze(_); return {};`},
	// what the environment's functions hand back belongs to this execution: editing it must stay here
	{"out-result-edited", `var r = _.out({m: 1}); if (r && typeof r == "object") { r.m = 2; r.leak = {a: 1}; } var r2 = _.out({m: 1, l: [1, {z: 1}]}); if (r2 && r2.l) { r2.l[1].z = 99; r2.l.push("more"); } return {};`},
	{"out-result-edited-then-throw", `var r = _.out({m: 1}); if (r && typeof r == "object") { r.m = 3; delete r.m; r.gone = true; } throw "after editing";`},
	{"match-result-edited", `if (_.match) { var r = _.match({"a": "?x"}, {"a": {"k": 1}}, {}); if (r && r[0] && r[0]["?x"]) { r[0]["?x"].k = 2; r[0].extra = 1; r.push({"?y": 1}); } } return {};`},
	// a helper of the extended environment that fails hands the script an exception: whatever that value inherits from
	// belongs to this execution; so do the helper functions themselves
	{"helper-failure-edited", `var errs = []; function grab(f) { try { f(); } catch (e) { errs.push(e); } }
if (_.cronNext) { grab(function() { _.cronNext(7); }); grab(function() { _.cronNext("not a cron expression"); }); }
for (var i = 0; i < errs.length; i++) { var p = errs[i]; if (p && typeof p == "object") { p.marker = "own"; p = Object.getPrototypeOf(p); while (p) { p.marker = "leaked"; p.toString = function() { return "hijacked"; }; p.message = "hijacked"; p = Object.getPrototypeOf(p); } } }
if (_.cronNext) { _.cronNext.calls = 1; Object.getPrototypeOf(_.cronNext).fnleak = 1; }
if (_.match) { _.match.calls = 1; }
_.out.calls = 1; return {};`},
}

var c10Probes = []jsProg{
	{"helper-failure", `var seen = []; function look(f) { try { f(); seen.push("no failure"); } catch (e) { seen.push(typeof e + ":" + String(e) + ":" + (e && e.marker) + ":" + (e && e.message)); } }
if (_.cronNext) { look(function() { _.cronNext(7); }); look(function() { _.cronNext("not a cron expression"); }); }
return {seen: seen, calls: [_.cronNext ? _.cronNext.calls : null, _.match ? _.match.calls : null, _.out.calls], fnleak: (function() {}).fnleak === undefined, om: ({}).marker === undefined};`},
	{"helper-failure-uncaught", `if (_.cronNext) { _.cronNext("not a cron expression"); } return {};`},
	{"globals", `return {leak: typeof leak, leak2: typeof leak2, leak3: typeof leak3, leak4: typeof leak4};`},
	{"prototypes", `var o = {}; return {polluted: o.polluted === undefined, ap: [].polluted === undefined, p2: o.p2 === undefined, p3: [].p3 === undefined, sx: "".x === undefined, sneaky: o.sneaky === undefined};`},
	{"out", `var r = _.out({m: 1}); return {outType: typeof _.out, echo: r};`},
	{"props", `return {props: _.props};`},
	{"bindings", `return {bs: _.bindings};`},
	{"builtins", `return {json: JSON.stringify({a: 1}), floor: Math.floor(1.5)};`},
	{"env-writable", `_.bindings.w = 1; _.marker = 2; return {w: _.bindings.w, marker: _.marker};`},
	{"out-nested", `var r = _.out({m: 1, l: [1, {z: 1}]}); var r1 = _.out({m: 1}); return {echo: r, echo1: r1};`},
	{"match", `return {r: _.match ? _.match({"a": "?x"}, {"a": {"k": 1}}, {}) : "no match function"};`},
}

// self-probing programs: executing the same compiled source twice, the second run must see nothing of the first
var c10Self = []jsProg{
	{"self-global", `var was = typeof selfleak; selfleak = 1; return {was: was};`},
	{"self-prototype", `var was = ({}).selfp === undefined; Object.prototype.selfp = 1; return {was: was};`},
	{"self-env", `var was = _.marker === undefined; _.marker = 1; return {was: was};`},
	{"self-props-nested", `var was = _.props.cfg.x; _.props.cfg.x = 99; return {was: was};`},
	{"self-props-top", `var was = _.props.selfmark === undefined; _.props.selfmark = 1; return {was: was};`},
	{"self-permanent-value", `var was = _.bindings["cfg!"].limit; _.bindings["cfg!"].limit = 0; _.bindings["list!"].push("more"); return {was: was, n: _.bindings["list!"].length};`},
	{"self-bindings-nested", `var was = _.bindings.o.x; _.bindings.o.x = 99; return {was: was};`},
	{"self-out-result", `var r = _.out({self: [1, {z: 1}]}); var was = JSON.stringify(r); if (r && r.self) { r.self[1].z = 2; r.mark = 1; } return {was: was};`},
}

func c10Bindings() match.Bindings {
	// besides JSON-shaped values, composites of other Go types that a Go host or a native action can bind
	return match.Bindings{"a": 1.0, "keep": "k", "o": M{"x": 1.0, "l": []interface{}{M{"z": 1.0}, 2.0}},
		// permanent bindings: restored by the engine after the action - which must not tempt anybody to hand
		// their values to a script uncopied
		"cfg!": M{"limit": 5.0, "deep": []interface{}{M{"z": 1.0}}}, "list!": []interface{}{"a", "b"},
		"tags": []string{"x", "y"}, "labels": map[string]string{"a": "b"}, "recs": []map[string]interface{}{{"k": 1.0}}}
}

func c10Props() core.StepProps {
	return core.StepProps{"cfg": M{"x": 1.0}, "list": []interface{}{"p"}, "s": "v",
		"hosts": []interface{}{M{"name": "a", "up": true, "tags": []interface{}{"x"}}, []interface{}{M{"deep": 1.0}}}}
}

type c10Case struct {
	Seq   []string `json:"seq"`             // program names, executed in order on fresh copies of the same inputs
	Via   string   `json:"via"`             // exec | walk
	Share bool     `json:"share"`           // the caller hands the same bindings/props objects to every execution
	Props string   `json:"props,omitempty"` // "" populated | nil | empty : the step properties the caller supplies
	// Typed: the caller's bindings hold nothing but collections of Go types a JSON decoder does not produce
	Typed bool `json:"typed,omitempty"`
	// Plain: the caller's bindings hold nothing but what a JSON decoder produces (maps, arrays - also arrays of
	// scalars only -, strings, float64 numbers, booleans, null)
	Plain bool `json:"plain,omitempty"`
}

func (cs c10Case) bindings() match.Bindings {
	if cs.Plain {
		return match.Bindings{"a": 1.0, "keep": "k", "o": M{"x": 1.0, "l": []interface{}{M{"z": 1.0}, 2.0}},
			"cfg!": M{"limit": 5.0, "deep": []interface{}{M{"z": 1.0}}}, "list!": []interface{}{"a", "b"},
			"nums": []interface{}{3.0, 1.0, 2.0}, "flags": []interface{}{true, nil, "s"}}
	}
	if cs.Typed {
		return match.Bindings{"keep": "k", "tags": []string{"x", "y"}, "labels": map[string]string{"a": "b"}, "nums": []int{1, 2}}
	}
	return c10Bindings()
}

func (cs c10Case) props() core.StepProps {
	switch cs.Props {
	case "nil":
		return nil
	case "empty":
		return core.StepProps{}
	}
	return c10Props()
}

func c10Find(name string) jsProg {
	for _, l := range [][]jsProg{c10Polluters, c10Probes, c10Self} {
		for _, p := range l {
			if p.Name == name {
				return p
			}
		}
	}
	return jsProg{}
}

type c10Obs struct {
	Result string
	Err    bool
}

// c10Run executes the sequence; returns the observation of the last program and any caller-side damage.
func c10Run(interp *ecmascript.Interpreter, compiled map[string]interface{}, cs c10Case) (last c10Obs, damage []string) {
	bs, props := cs.bindings(), cs.props()
	bsSnap, propsSnap := snap.Of(bs), snap.Of(props)
	for i, name := range cs.Seq {
		p := c10Find(name)
		if !cs.Share {
			bs, props = cs.bindings(), cs.props()
		}
		var obs c10Obs
		if cs.Via == "exec" {
			var exe *core.Execution
			var err error
			if pn, pm, where := vh.Trap(func() { exe, err = interp.Exec(context.Background(), bs, props, p.Src, compiled[name]) }); pn {
				damage = append(damage, "panic:"+pm+"@"+where)
				return
			}
			if err != nil {
				obs.Err = true
				obs.Result = "error: " + err.Error() // what the host is told is an observation too
			} else {
				obs.Result = rstep.Canon(M(exe.Bs)) + "|" + rstep.Canon(nz(exe.Emitted))
			}
		} else {
			spec := &core.Spec{Name: "t", Nodes: map[string]*core.Node{
				"start": {ActionSource: &core.ActionSource{Interpreter: "ecmascript", Source: p.Src}, Branches: &core.Branches{Branches: []*core.Branch{{Target: "end"}}}},
				"end":   {},
			}}
			if err := spec.Compile(context.Background(), nil, true); err != nil {
				damage = append(damage, "compile:"+err.Error())
				return
			}
			w, err := spec.Walk(context.Background(), &core.State{NodeName: "start", Bs: bs}, nil, &core.Control{Limit: 5}, props)
			if err != nil || w.To() == nil || w.To().NodeName == "error" {
				obs.Err = true
			} else {
				obs.Result = rstep.Canon(M(w.To().Bs)) + "|" + rstep.Canon(nz(emittedOf(w)))
			}
		}
		if i == len(cs.Seq)-1 {
			last = obs
		}
		if cs.Share {
			if snap.Of(bs) != bsSnap {
				damage = append(damage, "caller-bindings-modified-by:"+name)
				bs, bsSnap = cs.bindings(), ""
				bsSnap = snap.Of(bs)
			}
			if snap.Of(props) != propsSnap {
				damage = append(damage, "caller-props-modified-by:"+name)
				props = cs.props()
				propsSnap = snap.Of(props)
			}
		}
	}
	return
}

// C10: ECMAScript isolation (sequential half).
func C10(c *vh.Ctx) {
	interp := ecmascript.NewInterpreter()
	interp.Extended = true // as the hosts configure it: the environment also has _.match and friends
	compiled := map[string]interface{}{}
	for _, l := range [][]jsProg{c10Polluters, c10Probes, c10Self} {
		for _, p := range l {
			x, err := interp.Compile(context.Background(), p.Src)
			if err != nil {
				c.Violation("C10/compile-failed/"+p.Name, err.Error(), nil)
				return
			}
			compiled[p.Name] = x
		}
	}
	// baselines: every probe alone, before anything has been polluted in this process
	base := map[string]c10Obs{}
	for _, via := range []string{"exec", "walk"} {
		for _, pv := range []string{"", "nil", "empty"} {
			for _, l := range [][]jsProg{c10Probes, c10Self} {
				for _, p := range l {
					o, _ := c10Run(interp, compiled, c10Case{Seq: []string{p.Name}, Via: via, Props: pv})
					base[via+"/"+pv+"/"+p.Name] = o
					if pv == "" {
						o, _ := c10Run(interp, compiled, c10Case{Seq: []string{p.Name}, Via: via, Props: pv, Plain: true})
						base["plain/"+via+"/"+pv+"/"+p.Name] = o
					}
				}
			}
		}
	}
	one := func(cs c10Case) {
		c.Eval()
		c.Nontrivial()
		last, damage := c10Run(interp, compiled, cs)
		probe := cs.Seq[len(cs.Seq)-1]
		c.Outcome("probe", probe+last.Result)
		for _, d := range damage {
			c.Violation("C10/"+d+"/via-"+cs.Via, fmt.Sprintf("sequence %v via %s: %s", cs.Seq, cs.Via, d), cs)
		}
		if cs.Typed {
			return // only the caller's objects are judged here (the baselines are those of the usual bindings)
		}
		want, haveBase := base[cs.Via+"/"+cs.Props+"/"+probe]
		if cs.Plain {
			want, haveBase = base["plain/"+cs.Via+"/"+cs.Props+"/"+probe]
		}
		if !haveBase {
			return // the last program is not a probe (a polluter run twice): only the caller's objects are judged
		}
		if os.Getenv("VERIF_DEBUG") != "" {
			os.WriteFile("/tmp/c10dbg.log", []byte(fmt.Sprintf("LAST %+v\nWANT %+v\n", last, want)), 0o644)
		}
		if last != want {
			c.Violation(fmt.Sprintf("C10/later-execution-sees-earlier-one/%s-after-%s/via-%s", probe, cs.Seq[len(cs.Seq)-2], cs.Via),
				fmt.Sprintf("sequence %v via %s: the last program returned %s (err=%v); run alone it returns %s (err=%v)", cs.Seq, cs.Via, last.Result, last.Err, want.Result, want.Err), cs)
		}
	}
	if c.Replay != "" {
		var cs c10Case
		if c.LoadReplay(&cs) == nil && len(cs.Seq) > 0 {
			one(cs)
		} else {
			c10FailingGuardWalks(c) // a case of that (small) family: run it whole
		}
		return
	}
	c.Rule(fmt.Sprintf("%d polluting scripts (in-place mutation of bindings at depth 1-3 (also of the values of permanent '!' bindings), of nested and top-level props, implicit and this-globals, Object/Array/String prototypes, JSON/Math built-ins, replacing or freezing members of the environment object, editing what _.out and _.match returned, polluting then failing) x %d probes + %d self-probing scripts; every ordered pair (polluter, probe), every triple (polluter, polluter, probe), and every self-probing script twice; through Interpreter.Exec with a shared compiled program and through Spec.Walk; with fresh and with shared caller bindings/props objects (also bindings that hold nothing but collections of Go types a JSON decoder does not produce, and bindings that hold nothing but plain JSON values incl. arrays of scalars, which the scripts sort, reverse and assign into); pairs and self-probes also with nil and with empty step properties; plus walks of several messages in which an earlier message is consumed without moving the machine and a later one meets a guard that fails; oracle: the probe's bindings and emissions equal its solo result, the caller's bindings and props are snapshot-equal afterwards. non-trivial = every sequence.", len(c10Polluters), len(c10Probes), len(c10Self)))
	var idx uint64
	// the caller's bindings hold nothing but collections of Go types: whoever writes into them writes into a copy
	for _, via := range []string{"exec", "walk"} {
		for _, pol := range []string{"bindings-go-typed-only", "bindings-depth1", "bindings-by-enumeration"} {
			idx++
			if c.Mine(idx) {
				one(c10Case{Seq: []string{pol, pol}, Via: via, Share: true, Typed: true})
			}
		}
	}
	// the caller's bindings hold nothing but plain JSON values (for which a copy could be skimped)
	for _, via := range []string{"exec", "walk"} {
		for _, share := range []bool{false, true} {
			for _, p1 := range c10Polluters {
				idx++
				if c.Mine(idx) {
					one(c10Case{Seq: []string{p1.Name, p1.Name}, Via: via, Share: share, Plain: true})
				}
				for _, q := range c10Probes {
					idx++
					if c.Mine(idx) {
						one(c10Case{Seq: []string{p1.Name, q.Name}, Via: via, Share: share, Plain: true})
					}
				}
			}
		}
	}
	if c.Shard == 0 || c.Shards == 1 {
		c10FailingGuardWalks(c)
	}
	// the caller supplies no step properties (nil) or empty ones: pairs and self-probes
	for _, via := range []string{"exec", "walk"} {
		for _, pv := range []string{"nil", "empty"} {
			for _, share := range []bool{false, true} {
				for _, s := range c10Self {
					idx++
					if c.Mine(idx) {
						one(c10Case{Seq: []string{s.Name, s.Name}, Via: via, Share: share, Props: pv})
					}
				}
				for _, p1 := range c10Polluters {
					for _, q := range c10Probes {
						idx++
						if c.Mine(idx) {
							one(c10Case{Seq: []string{p1.Name, q.Name}, Via: via, Share: share, Props: pv})
						}
					}
				}
			}
		}
	}
	for _, via := range []string{"exec", "walk"} {
		for _, share := range []bool{false, true} {
			for _, s := range c10Self {
				idx++
				if c.Mine(idx) {
					one(c10Case{Seq: []string{s.Name, s.Name}, Via: via, Share: share})
				}
			}
			for _, p1 := range c10Polluters {
				for _, q := range c10Probes {
					idx++
					if c.Mine(idx) {
						cs := c10Case{Seq: []string{p1.Name, q.Name}, Via: via, Share: share}
						one(cs)
						if c.WantSample() {
							c.Sample(cs)
						}
					}
					if c.Quick() && via == "walk" {
						continue
					}
					for _, p2 := range c10Polluters {
						idx++
						if c.Mine(idx) && !c.Expired() {
							one(c10Case{Seq: []string{p1.Name, p2.Name, q.Name}, Via: via, Share: share})
						}
					}
				}
			}
		}
	}
}

// c10FailingGuardWalks: a walk of several messages in which an earlier one is consumed without moving the machine
// and a later one meets a guard that fails: whatever the script threw, the caller's state is as it was.
func c10FailingGuardWalks(c *vh.Ctx) {
	for gi, guard := range []string{`throw "the guard's secret";`, `return 7;`, `_.bindings.a = 99; throw {toString: function() { return "object thrown"; }};`, `return null;`} {
		for _, msgs := range [][]interface{}{{M{"zzz": 1.0}, M{"go": 1.0}}, {M{"go": 1.0}}, {M{"zzz": 1.0}, M{"zzz": 2.0}, M{"go": 1.0}, M{"go": 2.0}}} {
			c.Eval()
			spec := &core.Spec{Name: "t", Nodes: map[string]*core.Node{
				"start": {Branches: &core.Branches{Type: "message", Branches: []*core.Branch{{Pattern: M{"go": "?g"}, GuardSource: &core.ActionSource{Interpreter: "ecmascript", Source: guard}, Target: "end"}}}},
				"end":   {Branches: &core.Branches{Type: "message"}}}}
			if err := spec.Compile(context.Background(), nil, true); err != nil {
				continue
			}
			st := &core.State{NodeName: "start", Bs: c10Bindings()}
			before := snap.Of(st)
			if p, pm, where := vh.Trap(func() { spec.Walk(context.Background(), st, msgs, &core.Control{Limit: 10}, c10Props()) }); p {
				c.Violation("C10/panic/walk-with-failing-guard/"+where, pm, map[string]interface{}{"guard": guard, "msgs": msgs})
				continue
			}
			if snap.Of(st) != before {
				c.Violation(fmt.Sprintf("C10/caller-state-modified-by-a-failing-guard/guard-%d", gi), fmt.Sprintf("a walk over %s with the guard %q changed the state it was given: bindings are now %s", rstep.Canon(msgs), guard, rstep.Canon(M(st.Bs))), map[string]interface{}{"guard": guard, "msgs": msgs})
			}
		}
	}

}
