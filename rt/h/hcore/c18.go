package hcore

import (
	"context"
	"fmt"
	"strings"

	"github.com/Comcast/sheens/core"
	"github.com/Comcast/sheens/match"
	"github.com/Comcast/sheens/verifrt/actlang"
	"github.com/Comcast/sheens/verifrt/ref/rstep"
	"github.com/Comcast/sheens/verifrt/vh"
)

func c18Progs(native bool) []*actlang.Prog {
	ps := []*actlang.Prog{
		nil,
		prog(native),
		prog(native, Op{K: actlang.Del, A: "k!"}),
		prog(native, Op{K: actlang.Set, A: "k!", V: "other"}),
		prog(native, Op{K: actlang.Set, A: "cfg!", V: M{"a": []interface{}{2.0}}}),
		prog(native, Op{K: actlang.Clear}),
		prog(native, Op{K: actlang.Clear}, Op{K: actlang.Set, A: "z", V: 1.0}),
		prog(native, Op{K: actlang.RetFresh, V: M{"z": 1.0}}),
		prog(native, Op{K: actlang.RetFresh, V: M{"k!": 2.0}}),
		prog(native, Op{K: actlang.RetSame}),
		prog(native, Op{K: actlang.RetEmpty}),
		prog(native, Op{K: actlang.RetNull}),
		prog(native, Op{K: actlang.Throw}),
		prog(native, Op{K: actlang.RetScalar}),
		prog(native, Op{K: actlang.Del, A: "k!"}, Op{K: actlang.Del, A: "cfg!"}, Op{K: actlang.Throw}),
		// a permanent binding made by the branch's own pattern (a variable whose name ends in '!') is present
		// before the guard runs like any other
		prog(native, Op{K: actlang.Del, A: "?dev!"}),
		prog(native, Op{K: actlang.Set, A: "?dev!", V: "changed"}, Op{K: actlang.Del, A: "k!"}),
	}
	if native {
		ps = append(ps, prog(true, Op{K: actlang.NativeNilExec}), prog(true, Op{K: actlang.NativeErrPartial}))
		// a Go action that edits the very map it was given (the bs.Extend idiom) and hands back another one
		ps = append(ps,
			prog(true, Op{K: actlang.InPlace}, Op{K: actlang.Del, A: "k!"}, Op{K: actlang.Del, A: "cfg!"}, Op{K: actlang.RetFresh, V: M{"z": 1.0}}),
			prog(true, Op{K: actlang.InPlace}, Op{K: actlang.Set, A: "k!", V: "other"}, Op{K: actlang.RetEmpty}),
			prog(true, Op{K: actlang.InPlace}, Op{K: actlang.Del, A: "k!"}, Op{K: actlang.Clear}, Op{K: actlang.Set, A: "z", V: 1.0}),
			prog(true, Op{K: actlang.InPlace}, Op{K: actlang.Del, A: "k!"}, Op{K: actlang.Set, A: "cfg!", V: 0.0}, Op{K: actlang.RetNull}),
			prog(true, Op{K: actlang.InPlace}, Op{K: actlang.Del, A: "k!"}, Op{K: actlang.Throw}))
		// the same programs as sources for an interpreter written in Go (which hands them the caller's map)
		for _, p := range ps[1:] {
			q := *p
			q.ViaSource = true
			ps = append(ps, &q)
		}
		ps = append(ps,
			&actlang.Prog{Native: true, ViaSource: true, Ops: []Op{{K: actlang.InPlace}, {K: actlang.Del, A: "k!"}, {K: actlang.Set, A: "cfg!", V: "other"}, {K: actlang.Set, A: "z", V: 1.0}}},
			&actlang.Prog{Native: true, ViaSource: true, Ops: []Op{{K: actlang.InPlace}, {K: actlang.Set, A: "k!", V: "other"}, {K: actlang.RetSame}}},
			&actlang.Prog{Native: true, ViaSource: true, Ops: []Op{{K: actlang.InPlace}, {K: actlang.Del, A: "?dev!"}, {K: actlang.Del, A: "k!"}}})
	} else {
		ps = append(ps, prog(false, Op{K: actlang.MutateDeep, A: "cfg!.a"}),
			prog(false, Op{K: actlang.MutateDeep, A: "cfg!.a.1.b"}),
			prog(false, Op{K: actlang.MutateDeep, A: "cfg!.a.1.b"}, Op{K: actlang.Throw}),
			prog(false, Op{K: actlang.MutateDeep, A: "cfg!.a.1.b"}, Op{K: actlang.RetNull}))
	}
	return ps
}

var c18States = []M{
	{},
	{"a": 1.0},
	{"k!": 1.0},
	{"k!": 1.0, "a": 1.0},
	{"cfg!": M{"a": []interface{}{1.0, M{"b": nil}}}},
	{"k!": "v", "cfg!": M{"a": []interface{}{1.0}}, "a": 1.0, "b": "x"},
	{"k!": nil, "a": 1.0},
	// a permanent binding that names a node (a "return address")
	{"to!": "n1", "k!": 1.0, "a": 1.0},
}

// C18: permanent bindings survive every action and guard behaviour.
func C18(c *vh.Ctx) {
	check := func(spec *core.Spec, cs stepCase) {
		c.Eval()
		st := &core.State{NodeName: cs.Node, Bs: match.Bindings(cloneM(cs.Bs))}
		var stride *core.Stride
		var err error
		hasPerm := false
		for k := range cs.Bs {
			if strings.HasSuffix(k, "!") {
				hasPerm = true
			}
		}
		if hasPerm {
			c.Nontrivial()
		}
		if p, msg, where := vh.Trap(func() { stride, err = spec.Step(context.Background(), st, clone(cs.Pending), nil, nil) }); p {
			c.Violation("C18/panic/"+where, "Step panicked with permanent bindings present: "+msg, cs)
			return
		}
		c.Outcome("step", rstep.Observe(stride, err).Key())
		if stride == nil || stride.To == nil {
			return
		}
		for k, v := range cs.Bs {
			if !strings.HasSuffix(k, "!") {
				continue
			}
			got, have := stride.To.Bs[k]
			if !have {
				c.Violation("C18/permanent-binding-lost/"+c18sit(cs), fmt.Sprintf("permanent binding %s lost: state after the step is %s/%s", k, stride.To.NodeName, rstep.Canon(M(stride.To.Bs))), cs)
				return
			}
			if rstep.Canon(got) != rstep.Canon(v) {
				c.Violation("C18/permanent-binding-changed/"+c18sit(cs), fmt.Sprintf("permanent binding %s changed from %s to %s", k, rstep.Canon(v), rstep.Canon(got)), cs)
				return
			}
		}
		// the whole step must also be one the reference allows (an action that edits its input in place edits
		// what the engine reports as lastBindings too: action behaviour, outside the reference)
		if c18EditsInPlace(cs.Spec) {
			return
		}
		refs := cs.Spec.Step(cs.Node, cs.Bs, cs.Pending)
		if obs := rstep.Observe(stride, err); !allowed(obs, refs) {
			c.Violation("C18/differs-from-reference/"+c18sit(cs), fmt.Sprintf("Step gave %s; reference allows %v", obs.Key(), keys(refs)), cs)
		}
	}
	// the same step as a later step of a walk (from the node in front): every state the walk passes through after it
	// has the permanent bindings too
	checkWalk := func(spec *core.Spec, cs stepCase) {
		if _, have := cs.Spec.Nodes["pre"]; !have || cs.Node != "n0" {
			return
		}
		hasPerm := false
		for k := range cs.Bs {
			if strings.HasSuffix(k, "!") {
				hasPerm = true
			}
		}
		if !hasPerm {
			return
		}
		c.Eval()
		o := doWalk(spec, "pre", cs.Bs, []interface{}{cs.Pending}, 3, "")
		if o.Panicked {
			c.Violation("C18/panic/walk/"+o.Where, "Walk panicked with permanent bindings present: "+o.PMsg, cs)
			return
		}
		if o.W == nil {
			return
		}
		for i, sd := range o.W.Strides {
			if sd == nil || sd.To == nil {
				continue
			}
			for k, v := range cs.Bs {
				if !strings.HasSuffix(k, "!") {
					continue
				}
				got, have := sd.To.Bs[k]
				if !have || rstep.Canon(got) != rstep.Canon(v) {
					c.Violation("C18/walk/permanent-binding-lost-or-changed/"+c18sit(cs), fmt.Sprintf("a walk from the node in front of n0: after stride %d the state is %s/%s; permanent binding %s was %s", i+1, sd.To.NodeName, rstep.Canon(M(sd.To.Bs)), k, rstep.Canon(v)), cs)
					return
				}
			}
		}
	}
	if c.Replay != "" {
		var cs stepCase
		if c.LoadReplay(&cs) == nil {
			if spec, err := cs.Spec.Build(); err == nil {
				check(spec, cs)
				checkWalk(spec, cs)
			}
		}
		return
	}
	c.Rule("states with 0-2 permanent ('k!', 'cfg!') and 0-2 ordinary bindings x action and guard programs (delete / overwrite / clear / fresh object / same object / empty / null / throw / non-object / native nil execution / partial execution / deep mutation; native and ECMAScript) x branch pattern (none; binding an ordinary variable; binding a permanent variable '?dev!'; an empty map, which binds nothing) x node shape (action node with guarded branch and a fallback; message node with guarded branch; action node whose only branch is guarded, so that it may follow no branch; action node without branches) - Go actions also editing the map they were given and handing back another x the guarded branch's target (a node; the branch-target variable '@to!', a permanent binding that names a node) x error routing; oracle: every permanent binding present before is present and equal in any resulting state, no crash, and the step is one the reference allows; each step also as the second step of a walk that starts at a node in front (every state the walk passes through keeps the permanent bindings). non-trivial = state has a permanent binding.")
	var idx uint64
	for _, native := range []bool{true, false} {
		ps := c18Progs(native)
		for _, act := range ps {
			for _, g := range ps {
				idx++
				if !c.Mine(idx) {
					continue
				}
				if c.Expired() {
					return
				}
				for _, pat := range []interface{}{nil, M{"a": "?x"}, M{"a": "?dev!"}, M{}} {
					for shape := 0; shape < 8; shape++ {
						// shapes 4-7: the guarded branch's target is a branch-target variable that names a permanent binding
						n1 := "n1"
						if shape >= 4 {
							n1 = "@to!"
							if pat != nil && rstep.Canon(pat) != rstep.Canon(M{"a": "?x"}) && rstep.Canon(pat) != rstep.Canon(M{}) {
								continue
							}
						}
						shape := shape % 4
						var node *rstep.ANode
						if shape == 0 {
							node = &rstep.ANode{Action: act, Type: "bindings", Branches: []rstep.ABranch{{Pattern: pat, Guard: g, Target: n1}, {Target: "n2"}}}
						} else if shape == 2 {
							// no fallback: when the pattern does not match or the guard says no, the action node has
							// followed no branch and the machine goes to the error state
							if act == nil {
								continue
							}
							node = &rstep.ANode{Action: act, Type: "bindings", Branches: []rstep.ABranch{{Pattern: pat, Guard: g, Target: n1}}}
						} else if shape == 3 {
							if act == nil || g != nil || pat != nil || n1 != "n1" {
								continue
							}
							node = &rstep.ANode{Action: act, NoBranches: true}
						} else {
							if act != nil {
								continue
							}
							node = &rstep.ANode{Type: "message", Branches: []rstep.ABranch{{Pattern: pat, Guard: g, Target: n1}, {Target: "n2"}}}
						}
						// "pre": a node in front of n0, so that a walk reaches n0 as its second step
						as := &rstep.ASpec{Nodes: map[string]*rstep.ANode{"n0": node, "n1": {NoBranches: true}, "n2": {NoBranches: true}, "errh": {NoBranches: true},
							"pre": {Type: "bindings", Branches: []rstep.ABranch{{Target: "n0"}}}}}
						spec, err := as.Build()
						if err != nil {
							c.Violation("C18/compile-failed", err.Error(), as)
							continue
						}
						for _, aeb := range []bool{false, true} {
							for _, aen := range []string{"", "errh"} {
								as2 := *as
								as2.ActionErrorBranches, as2.ActionErrorNode = aeb, aen
								spec.ActionErrorBranches, spec.ActionErrorNode = aeb, aen
								for _, bs := range c18States {
									cs := stepCase{Spec: &as2, Node: "n0", Bs: bs, Pending: M{"a": 2.0}}
									check(spec, cs)
									checkWalk(spec, cs)
									if c.WantSample() && act != nil && g != nil && len(bs) > 2 {
										c.Sample(cs)
									}
								}
							}
						}
					}
				}
			}
		}
	}
}

func c18EditsInPlace(as *rstep.ASpec) bool {
	in := func(p *actlang.Prog) bool { return p != nil && len(p.Ops) > 0 && p.Ops[0].K == actlang.InPlace }
	for _, n := range as.Nodes {
		if in(n.Action) {
			return true
		}
		for _, b := range n.Branches {
			if in(b.Guard) {
				return true
			}
		}
	}
	return false
}

func c18sit(cs stepCase) string {
	n := cs.Spec.Nodes[cs.Node]
	a, g := "none", "none"
	if n.Action != nil {
		a = opsKey(n.Action)
	}
	if len(n.Branches) > 0 && n.Branches[0].Guard != nil {
		g = opsKey(n.Branches[0].Guard)
	}
	return "action=" + a + "/guard=" + g
}

func opsKey(p *actlang.Prog) string {
	var ks []string
	for _, o := range p.Ops {
		ks = append(ks, o.K)
	}
	l := "js"
	if p.Native {
		l = "go"
	}
	if len(ks) == 0 {
		return l + ":identity"
	}
	return l + ":" + strings.Join(ks, "+")
}
