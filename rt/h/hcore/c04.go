package hcore

import (
	"context"
	"fmt"

	"github.com/Comcast/sheens/core"
	"github.com/Comcast/sheens/match"
	"github.com/Comcast/sheens/verifrt/actlang"
	"github.com/Comcast/sheens/verifrt/ref/rstep"
	"github.com/Comcast/sheens/verifrt/vh"
)

// stepCase is one replayable C04 case.
type stepCase struct {
	Spec    *rstep.ASpec `json:"spec"`
	Node    string       `json:"node"`
	Bs      M            `json:"bs"`
	Pending interface{}  `json:"pending"`
	// Setup says how the specification object was prepared (see c04Setups); "" = compiled once.
	Setup string `json:"setup,omitempty"`
}

// c04Setups: other ways to arrive at "the compiled specification" that must not change what a step does:
// compiled twice (forced / not forced), and an ErrorNode named by the author (the default name written
// out, or a node of the author's own).  ErrorNode says where a machine goes that followed no branch after
// an action; it is not one of the three action-error settings.
var c04Setups = []string{"twice", "twice-unforced", "errornode=error", "errornode=errh"}

func c04Build(as *rstep.ASpec, setup string) (*core.Spec, error) {
	spec := as.Raw()
	switch setup {
	case "uncompiled":
		// C06 only: a specification nobody compiled (what a host gets from json.Unmarshal)
		return spec, nil
	case "errornode=error":
		spec.ErrorNode = "error"
	case "errornode=errh":
		spec.ErrorNode = "errh"
	}
	if err := spec.Compile(context.Background(), nil, true); err != nil {
		return nil, err
	}
	switch setup {
	case "twice":
		if err := spec.Compile(context.Background(), nil, true); err != nil {
			return nil, err
		}
	case "twice-unforced":
		if err := spec.Compile(context.Background(), nil, false); err != nil {
			return nil, err
		}
	case "late-source":
		// C06 only: the sources of the nodes arrived after the specification had been compiled
		for _, n := range spec.Nodes {
			if n.ActionSource != nil {
				n.Action = nil
			}
			if n.Branches != nil {
				for _, b := range n.Branches.Branches {
					if b.GuardSource != nil {
						b.Guard = nil
					}
				}
			}
		}
	}
	return spec, nil
}

func c04Actions(native bool) []*actlang.Prog {
	acts := []*actlang.Prog{
		nil,
		prog(native, Op{K: actlang.Set, A: "a", V: 1.0}),
		prog(native, Op{K: actlang.Del, A: "a"}),
		prog(native, Op{K: actlang.Clear}, Op{K: actlang.Set, A: "b", V: 2.0}),
		prog(native, Op{K: actlang.Emit, V: M{"e": 1.0}}, Op{K: actlang.Set, A: "a", V: 2.0}),
		prog(native, Op{K: actlang.Throw}),
		prog(native, Op{K: actlang.RetNull}),
		prog(native, Op{K: actlang.Emit, V: M{"e": 2.0}}, Op{K: actlang.Throw}),
		prog(native, Op{K: actlang.Set, A: "t", V: "n1"}, Op{K: actlang.Emit, V: "x"}, Op{K: actlang.Emit, V: "y"}),
		prog(native, Op{K: actlang.RetSame}),
	}
	if !native {
		// a script that scribbles over whatever step properties it was given, at every depth
		acts = append(acts, prog(false, Op{K: actlang.Raw, A: `if (_.props.cfg) { _.props.cfg.x = 99; if (_.props.cfg.l) { _.props.cfg.l.push(2); } } if (_.props.hosts) { _.props.hosts[0].up = false; _.props.hosts[0].tags.push("t"); } _.props.added = 1;`}))
	}
	return acts
}

func c04Guards(native bool) []*actlang.Prog {
	gs := []*actlang.Prog{
		nil,
		prog(native),
		prog(native, Op{K: actlang.Set, A: "g", V: 1.0}),
		prog(native, Op{K: actlang.RetNull}),
		prog(native, Op{K: actlang.Throw}),
		prog(native, Op{K: actlang.Set, A: "t", V: "n2"}, Op{K: actlang.Emit, V: "guard-emits"}),
	}
	if native {
		// a native guard that works on the very map it is handed (the repository's own native actions do) and then
		// says no: what it was handed is the candidate's bindings, not the machine's
		gs = append(gs, prog(true, Op{K: actlang.InPlace}, Op{K: actlang.Set, A: "a", V: 9.0}, Op{K: actlang.Del, A: "t"}, Op{K: actlang.RetNull}))
	}
	if !native {
		// a script that writes into a structured binding it was handed (an empty object, say) and then says no
		gs = append(gs, prog(false, Op{K: actlang.MutateDeep, A: "o.x"}, Op{K: actlang.RetNull}))
	}
	return gs
}

// guards that look at the candidate they are offered (only combined with patterns that can give several)
func c04CandidateGuards(native bool, v string) []*actlang.Prog {
	return []*actlang.Prog{
		prog(native, Op{K: actlang.RejectUnless, A: v, V: "b"}),
		prog(native, Op{K: actlang.ThrowIf, A: v, V: "b"}),
		prog(native, Op{K: actlang.ThrowIf, A: v, V: "b"}, Op{K: actlang.RejectUnless, A: v, V: "a"}),
		prog(native, Op{K: actlang.ThrowIf, A: v, V: "a"}, Op{K: actlang.Set, A: "t", V: "n2"}),
	}
}

var c04MultiPattern = M{"l": []interface{}{"?x"}}

var c04Patterns = []interface{}{
	nil,
	M{"a": "?x"},
	M{"a": 1.0},
	"?m",
	M{"t": "?t"},
	M{"actionError": "?e"},
	M{"a": "?x", "b": "?x"},
	M{"?k": 1.0},
	M{"a": "?<n"},
	// an array pattern whose variable stands before a constant
	M{"l": []interface{}{"?e", "b"}},
}

var c04Targets = []string{"n1", "n2", "@t", "@?t", "missing"}

func c04Branches(native bool, thorough bool) [][]rstep.ABranch {
	var first []rstep.ABranch
	for _, p := range c04Patterns {
		for _, g := range c04Guards(native) {
			if p == nil && g != nil && len(g.Ops) > 0 && g.Ops[0].K == actlang.InPlace {
				// without a pattern the guard is handed the step's own bindings: what an ill-behaved native guard
				// does to them is the guard's doing (as with native actions that edit their input)
				continue
			}
			for _, t := range c04Targets {
				first = append(first, rstep.ABranch{Pattern: p, Guard: g, Target: t})
			}
		}
	}
	for _, t := range c04Targets {
		for _, g := range c04Guards(native) {
			first = append(first, rstep.ABranch{Pattern: c04MultiPattern, Guard: g, Target: t})
		}
		for _, g := range c04CandidateGuards(native, "?x") {
			first = append(first, rstep.ABranch{Pattern: c04MultiPattern, Guard: g, Target: t})
		}
		for _, g := range c04CandidateGuards(native, "?k") {
			first = append(first, rstep.ABranch{Pattern: M{"?k": 1.0}, Guard: g, Target: t})
		}
	}
	var second []rstep.ABranch
	if thorough {
		for _, p := range c04Patterns {
			for _, g := range []*actlang.Prog{nil, prog(native, Op{K: actlang.RetNull}), prog(native, Op{K: actlang.Set, A: "g", V: 2.0})} {
				second = append(second, rstep.ABranch{Pattern: p, Guard: g, Target: "n2"})
			}
		}
	} else {
		second = []rstep.ABranch{{Target: "n2"}, {Pattern: M{"a": "?x"}, Target: "n2"}, {Pattern: M{"b": "?y"}, Guard: prog(native, Op{K: actlang.Set, A: "g", V: 2.0}), Target: "n2"}}
	}
	lists := [][]rstep.ABranch{{}}
	for _, b := range first {
		lists = append(lists, []rstep.ABranch{b})
	}
	for _, b := range first {
		for _, b2 := range second {
			lists = append(lists, []rstep.ABranch{b, b2})
		}
		// after a guard that wrote into a structured binding: a branch that looks at that binding
		if g := b.Guard; g != nil && len(g.Ops) > 0 && g.Ops[0].K == actlang.MutateDeep {
			lists = append(lists, []rstep.ABranch{b, {Pattern: M{"o": M{"x": "?v"}}, Target: "n2"}})
		}
	}
	return lists
}

var c04States = []M{
	{},
	{"a": 1.0},
	{"t": "n2"},
	{"?x": 2.0, "a": 2.0},
	{"k!": 1.0, "a": 1.0, "b": 1.0},
	{"?t": "n2", "t": "n1"},
	{"?<n": 5.0, "a": 1.0},
	{"l": []interface{}{"a", "b", "c"}, "t": "n1"},
	// what an earlier failed action left behind (under actionErrorBranches the machine goes on with it)
	{"actionError": "earlier", "a": 1.0},
	// an empty object among the bindings
	{"o": M{}, "a": 1.0},
}

var c04Pendings = []interface{}{
	nil,
	M{"a": 1.0},
	M{"a": 2.0, "b": 2.0},
	M{"b": 1.0},
	M{"t": "n1", "a": 1.0},
	M{"l": []interface{}{"b", "a"}, "a": 1.0},
}

func stepOnce(spec *core.Spec, cs stepCase) (obs rstep.Outcome, panicked bool, pmsg, where string) {
	obs, _, panicked, pmsg, where = stepOnceLogged(spec, cs)
	return
}

// stepOnceLogged also returns the bindings the native action and guards were called with, in call order.
func stepOnceLogged(spec *core.Spec, cs stepCase) (obs rstep.Outcome, log []string, panicked bool, pmsg, where string) {
	st := &core.State{NodeName: cs.Node, Bs: match.Bindings(cloneM(cs.Bs))}
	var stride *core.Stride
	var err error
	actlang.Trace = &log
	panicked, pmsg, where = vh.Trap(func() {
		stride, err = spec.Step(context.Background(), st, clone(cs.Pending), nil, nil)
	})
	actlang.Trace = nil
	if panicked {
		return
	}
	obs = rstep.Observe(stride, err)
	return
}

func checkStep(c *vh.Ctx, spec *core.Spec, cs stepCase) {
	c.Eval()
	refs := cs.Spec.Step(cs.Node, cs.Bs, cs.Pending)
	obs, log, panicked, pmsg, where := stepOnceLogged(spec, cs)
	if panicked {
		c.Violation("C04/panic/"+where, fmt.Sprintf("Step panicked: %s (at %s); reference allows %v", pmsg, where, keys(refs)), cs)
		return
	}
	if obs.HasTo || obs.Err != "" || obs.Consumed || len(obs.Emitted) > 0 {
		c.Nontrivial()
	}
	c.Outcome("step", obs.Key())
	if len(refs) > 1 {
		// several candidates for a guard: the one the guard decided on FIRST, in the order the engine
		// actually offered them, is the one that counts
		if want, ok := cs.Spec.StepLogged(cs.Node, cs.Bs, cs.Pending, log); ok {
			c.Count("guard_order_checked", 1)
			refs = []rstep.Outcome{want}
		}
	}
	if !allowed(obs, refs) {
		// re-execute: the machinery is deterministic
		o2, p2, _, _ := stepOnce(spec, cs)
		if p2 || o2.Key() != obs.Key() {
			c.Count("unreproduced", 1)
			c.NotExhaustive("a violation did not reproduce on re-execution; not reported")
			return
		}
		c.Violation("C04/"+classify(obs, refs), fmt.Sprintf("Step gave %s; the documented rule allows %v", obs.Key(), keys(refs)), cs)
	}
}

// classify names the clause that differs (structural key for known findings).
func classify(obs rstep.Outcome, refs []rstep.Outcome) string {
	r := refs[0]
	switch {
	case obs.Err != "" && r.Err == "":
		return "unexpected-error/" + obs.Err
	case obs.Err == "" && r.Err != "":
		return "missing-error/" + r.Err
	case obs.Err != "" && r.Err != "":
		return "error-class/" + obs.Err + "-vs-" + r.Err
	case obs.HasTo != r.HasTo:
		return fmt.Sprintf("transition-taken-%v-expected-%v", obs.HasTo, r.HasTo)
	case obs.Node != r.Node:
		return "target-node"
	case obs.Consumed != r.Consumed:
		return "consumed"
	case rstep.Canon(obs.Emitted) != rstep.Canon(r.Emitted):
		return "emitted"
	default:
		return "bindings"
	}
}

func clone(x interface{}) interface{} {
	switch v := x.(type) {
	case map[string]interface{}:
		m := make(map[string]interface{}, len(v))
		for k, e := range v {
			m[k] = clone(e)
		}
		return m
	case []interface{}:
		a := make([]interface{}, len(v))
		for i, e := range v {
			a[i] = clone(e)
		}
		return a
	}
	return x
}

func cloneM(m M) M {
	if m == nil {
		return nil
	}
	return clone(m).(M)
}

// C04: one step follows the documented rule; all node configurations of the
// vocabulary x error settings x states x pendings, against rstep.Step.
func C04(c *vh.Ctx) {
	if c.Replay != "" {
		var cs stepCase
		if err := c.LoadReplay(&cs); err != nil {
			c.NotExhaustive("cannot load replay: " + err.Error())
			return
		}
		spec, err := c04Build(cs.Spec, cs.Setup)
		if err != nil {
			c.NotExhaustive("replay spec does not compile: " + err.Error())
			return
		}
		checkStep(c, spec, cs)
		return
	}
	c.Rule("every node configuration = language {native, ecmascript} x action (10) x branching type {message, bindings, default} x branch list (none | one of patterns x guards x targets | that followed by a second branch) x error settings (ActionErrorBranches x ActionErrorNode) x preparation of the specification object (compiled once; for every 5th branch list [all] also compiled twice forced/unforced, ErrorNode written out as \"error\" or set to a node of the author) x state bindings x pending message, plus an unknown current node; each executed on the real Spec.Step and compared with the reference rule (set of allowed outcomes). Odometer enumeration, duplicate-free; non-trivial = the step moved, consumed, emitted or failed.")
	forEachStepCase(c, !c.Quick(), func(spec *core.Spec, cs stepCase, li int) {
		checkStep(c, spec, cs)
		if c.WantSample() && cs.Spec.Nodes["n0"].Action != nil && li > 200 {
			c.Sample(cs)
		}
	})
}

// forEachStepCase enumerates the C04 case space (sharded) and calls f for each case.
func forEachStepCase(c *vh.Ctx, thorough bool, f func(spec *core.Spec, cs stepCase, li int)) {
	types := []string{"message", "bindings", ""}
	var idx uint64
	for _, native := range []bool{true, false} {
		lists := c04Branches(native, thorough)
		if c.Shard == 0 {
			c.Count("branch_lists", int64(len(lists)))
		}
		for _, act := range c04Actions(native) {
			for _, typ := range types {
				for li := -1; li < len(lists); li++ {
					idx++
					if !c.Mine(idx) {
						continue
					}
					if c.Expired() {
						return
					}
					node := &rstep.ANode{Action: act, Type: typ}
					if li < 0 {
						node.NoBranches = true
					} else {
						node.Branches = lists[li]
					}
					as := &rstep.ASpec{Nodes: map[string]*rstep.ANode{"n0": node, "n1": {NoBranches: true}, "n2": {NoBranches: true}, "errh": {NoBranches: true}}}
					spec, err := as.Build()
					if err != nil {
						c.Violation(c.R.Check+"/compile-failed", "generated spec does not compile: "+err.Error(), as)
						continue
					}
					for _, aeb := range []bool{false, true} {
						for _, aen := range []string{"", "errh"} {
							as2 := *as
							as2.ActionErrorBranches, as2.ActionErrorNode = aeb, aen
							spec.ActionErrorBranches, spec.ActionErrorNode = aeb, aen
							if act == nil && (aeb || aen != "") {
								continue // error settings are unobservable without an action
							}
							for _, bs := range c04States {
								if native && bs["o"] != nil {
									continue // the object binding is there for the script guard that writes into it
								}
								for _, p := range c04Pendings {
									cs := stepCase{Spec: &as2, Node: "n0", Bs: bs, Pending: p}
									f(spec, cs, li)
								}
							}
						}
					}
					// the same node in a specification object prepared differently (every 5th list in quick)
					if act != nil && (thorough || li < 0 || li%5 == 0) {
						for _, setup := range c04Setups {
							for _, aeb := range []bool{false, true} {
								for _, aen := range []string{"", "errh"} {
									as2 := *as
									as2.ActionErrorBranches, as2.ActionErrorNode = aeb, aen
									spec2, err := c04Build(&as2, setup)
									if err != nil {
										c.Violation(c.R.Check+"/compile-failed/"+setup, "generated spec does not compile ("+setup+"): "+err.Error(), as2)
										continue
									}
									for _, bs := range c04States {
										if native && bs["o"] != nil {
											continue
										}
										for _, p := range c04Pendings {
											f(spec2, stepCase{Spec: &as2, Node: "n0", Bs: bs, Pending: p, Setup: setup}, li)
										}
									}
								}
							}
						}
					}
					// unknown current node
					f(spec, stepCase{Spec: as, Node: "nowhere", Bs: M{"a": 1.0}, Pending: M{"a": 1.0}}, li)
				}
			}
		}
	}
}
