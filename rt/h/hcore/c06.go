package hcore

import (
	"context"
	"fmt"

	"github.com/Comcast/sheens/core"
	"github.com/Comcast/sheens/match"
	"github.com/Comcast/sheens/verifrt/ref/rstep"
	"github.com/Comcast/sheens/verifrt/snap"
	"github.com/Comcast/sheens/verifrt/vh"
)

func neverBreak(context.Context, *core.State) bool { return false }

// situation names the path a step takes (part of the violation key, so that a
// different leaking path is a different finding).
func situation(cs stepCase, refs []rstep.Outcome) string {
	n := cs.Spec.Nodes[cs.Node]
	if n != nil && n.Action != nil {
		if n.Action.Model(cs.Bs).Err {
			return "action-fails"
		}
	}
	r := refs[0]
	switch {
	case r.Err != "":
		return "step-error:" + r.Err
	case r.HasTo && r.Node == "error":
		return "ends-at-error-node"
	case r.HasTo:
		return "moves"
	}
	return "stays"
}

func c06Step(c *vh.Ctx, spec *core.Spec, cs stepCase) {
	c.Eval()
	refs := cs.Spec.Step(cs.Node, cs.Bs, cs.Pending)
	sit := situation(cs, refs)
	if cs.Setup == "uncompiled" || cs.Setup == "late-source" {
		sit = cs.Setup // the reference rule speaks about compiled specifications only
	}
	run := func() (string, []string) {
		st := &core.State{NodeName: cs.Node, Bs: match.Bindings(cloneM(cs.Bs))}
		pending := clone(cs.Pending)
		ctl := &core.Control{Limit: 5, Breakpoints: map[string]core.Breakpoint{"never": neverBreak}}
		props := core.StepProps{"cfg": M{"x": 1.0, "l": []interface{}{1.0}}, "s": "v", "hosts": []interface{}{M{"name": "a", "up": true, "tags": []interface{}{"x"}}, []interface{}{M{"deep": 1.0}}}}
		b := [5]string{snap.Of(st), snap.Of(pending), snap.Of(spec), snap.Of(ctl), snap.Of(props)}
		var stride *core.Stride
		var err error
		if p, msg, where := vh.Trap(func() { stride, err = spec.Step(context.Background(), st, pending, ctl, props) }); p {
			return "PANIC", []string{"panic/" + where + ": " + msg}
		}
		a := [5]string{snap.Of(st), snap.Of(pending), snap.Of(spec), snap.Of(ctl), snap.Of(props)}
		var bad []string
		for i, what := range []string{"state", "pending-message", "spec", "control", "props"} {
			if a[i] != b[i] {
				bad = append(bad, what+"-modified")
			}
		}
		if stride != nil {
			id := snap.MapID(st.Bs)
			if stride.To != nil && id != 0 && snap.MapID(stride.To.Bs) == id {
				bad = append(bad, "returned-To-shares-bindings-map")
			}
			if stride.From != nil && id != 0 && snap.MapID(stride.From.Bs) == id {
				bad = append(bad, "returned-From-shares-bindings-map")
			}
		}
		return rstep.Observe(stride, err).Key(), bad
	}
	k1, bad := run()
	if len(bad) > 0 {
		c.Nontrivial()
	}
	for _, b := range bad {
		if b == "spec-modified" {
			// a specification that was written to is not the same input any more: reproduce on a new one
			if s2, err := c04Build(cs.Spec, cs.Setup); err == nil {
				spec = s2
			}
		}
		_, bad2 := run()
		rep := false
		for _, x := range bad2 {
			if x == b {
				rep = true
			}
		}
		if !rep {
			c.Count("unreproduced", 1)
			c.NotExhaustive("a violation did not reproduce; not reported")
			continue
		}
		c.Violation("C06/step/"+keyOf(b)+"/"+sit, fmt.Sprintf("Spec.Step: %s (situation: %s)", b, sit), cs)
	}
	if sit != "stays" {
		c.Nontrivial()
	}
	if len(refs) == 1 && k1 != "PANIC" {
		k2, _ := run()
		if k1 != k2 {
			c.Violation("C06/step/repeat-differs/"+sit, fmt.Sprintf("two identical Step calls gave %s and %s", k1, k2), cs)
		}
	}
}

// c06HasSource: node n0 has an ECMAScript action or guard.
func c06HasSource(as *rstep.ASpec) bool {
	n := as.Nodes["n0"]
	if n == nil {
		return false
	}
	if n.Action != nil && !n.Action.Native {
		return true
	}
	for _, b := range n.Branches {
		if b.Guard != nil && !b.Guard.Native {
			return true
		}
	}
	return false
}

func keyOf(b string) string {
	if len(b) > 6 && b[:6] == "panic/" {
		for i := 0; i < len(b); i++ {
			if b[i] == ':' && i+1 < len(b) && b[i+1] == ' ' {
				return b[:i]
			}
		}
	}
	return b
}

func walkSituation(w *core.Walked) string {
	if w == nil {
		return "nil"
	}
	s := w.StoppedBecause.String()
	for _, st := range w.Strides {
		if st.To != nil && st.To.NodeName == "error" {
			return s + "+error-node"
		}
	}
	return s
}

func c06Walk(c *vh.Ctx, spec *core.Spec, cs walkCase) {
	c.Eval()
	run := func() (string, string, []string) {
		st := &core.State{NodeName: cs.Node, Bs: match.Bindings(cloneM(cs.Bs))}
		pend := make([]interface{}, len(cs.Msgs))
		for i, m := range cs.Msgs {
			pend[i] = clone(m)
		}
		ctl := &core.Control{Limit: cs.Limit, Breakpoints: map[string]core.Breakpoint{"never": neverBreak}}
		if cs.Bp != "" {
			bp := cs.Bp
			ctl.Breakpoints["bp"] = func(_ context.Context, s *core.State) bool { return s.NodeName == bp }
		}
		props := core.StepProps{"cfg": M{"x": 1.0}, "hosts": []interface{}{M{"name": "a", "up": true, "tags": []interface{}{"x"}}}}
		b := [5]string{snap.Of(st), snap.Of(pend), snap.Of(spec), snap.Of(ctl), snap.Of(props)}
		var w *core.Walked
		var err error
		ctx, cancel := context.WithCancel(context.Background())
		defer cancel()
		if cs.CtxEnded {
			cancel()
		}
		if p, msg, where := vh.Trap(func() { w, err = spec.Walk(ctx, st, pend, ctl, props) }); p {
			return "PANIC", "panic", []string{"panic/" + where + ": " + msg}
		}
		a := [5]string{snap.Of(st), snap.Of(pend), snap.Of(spec), snap.Of(ctl), snap.Of(props)}
		var bad []string
		for i, what := range []string{"state", "messages", "spec", "control", "props"} {
			if a[i] != b[i] {
				bad = append(bad, what+"-modified")
			}
		}
		key := ""
		if err != nil {
			key = "ERR:" + err.Error()
		}
		if w != nil {
			id := snap.MapID(st.Bs)
			for _, s := range w.Strides {
				if id != 0 && s.To != nil && snap.MapID(s.To.Bs) == id {
					bad = append(bad, "returned-To-shares-bindings-map")
					break
				}
			}
			for _, s := range w.Strides {
				key += rstep.Observe(s, nil).Key() + ";"
			}
			key += w.StoppedBecause.String() + rstep.Canon(nz(w.Remaining))
		}
		return key, walkSituation(w), bad
	}
	k1, sit, bad := run()
	if sit != "Done" {
		c.Nontrivial()
	}
	for _, b := range bad {
		_, _, bad2 := run()
		rep := false
		for _, x := range bad2 {
			if x == b {
				rep = true
			}
		}
		if !rep {
			c.Count("unreproduced", 1)
			c.NotExhaustive("a violation did not reproduce; not reported")
			continue
		}
		c.Violation("C06/walk/"+keyOf(b)+"/"+sit, fmt.Sprintf("Spec.Walk: %s (walk %s)", b, sit), cs)
	}
	if k1 != "PANIC" && !cs.CtxEnded { // (with an ended context a script may or may not be interrupted before it ends)
		if k2, _, _ := run(); k1 != k2 {
			c.Violation("C06/walk/repeat-differs/"+sit, fmt.Sprintf("two identical Walk calls differ:\n%s\n%s", k1, k2), cs)
		}
	}
}

// C06: the engine holds no state — snapshots of every argument before/after
// Step and Walk on the C04 and C05 case spaces, alias checks, repeat equality.
func C06(c *vh.Ctx) {
	if c.Replay != "" {
		var probe struct {
			Msgs   []interface{} `json:"msgs"`
			Limit  *int          `json:"limit"`
			Script string        `json:"script"`
		}
		c.LoadReplay(&probe)
		if probe.Script != "" {
			c06Retry(c) // the whole (small) retry family
			c06Typed(c)
			return
		}
		if probe.Limit != nil {
			var cs walkCase
			c.LoadReplay(&cs)
			if spec, err := cs.Spec.Build(); err == nil {
				c06Walk(c, spec, cs)
			}
			return
		}
		var cs stepCase
		c.LoadReplay(&cs)
		if spec, err := c04Build(cs.Spec, cs.Setup); err == nil {
			c06Step(c, spec, cs)
		}
		return
	}
	c.Rule("the C04 step space (quick vocabulary; in the quick tier every second single-branch list and every twenty-ninth two-branch list) and the C05 walk space (quick templates; in the quick tier every sixth spec, sequences up to the bound, limits {0,2,100}, breakpoints; plus message slices with nil entries, plus walks called with a context that has already ended) re-executed with deep snapshots (reflect, incl. unexported fields) of state, messages, spec, control and props before/after each call, map-identity checks on every returned state, and two identical calls compared (ECMAScript nodes also in a specification that was never compiled and in one whose sources arrived after Compile); plus a retry family: ECMAScript actions and guards that try to remember something outside their result (globals, built-in prototypes, members of the built-in objects, the properties object, also before failing) are walked several times with equal inputs, for one machine and for many machines in turn, with nil / empty / populated step properties - every attempt must give the result of the first; plus states and messages holding collections of Go types a JSON decoder does not produce ([]string, map[string]string, []int, slices of maps, a pointer to a struct), with nothing else structured beside them, handed to action and guard scripts that write into them; non-trivial = the step/walk did something other than stay / finish normally.")
	forEachStepCase(c, false, func(spec *core.Spec, cs stepCase, li int) {
		if c.Quick() && len(cs.Spec.Nodes["n0"].Branches) == 2 && li%29 != 0 {
			return // quick: every twenty-ninth two-branch list
		}
		if c.Quick() && len(cs.Spec.Nodes["n0"].Branches) == 1 && li%2 != 0 {
			return // quick: every second single-branch list (the lists differ in one of pattern / guard / target from their neighbours)
		}
		if c.Quick() && cs.Setup != "" && li >= 0 && li%29 != 0 {
			return // quick: differently prepared specification objects for every twenty-ninth list
		}
		c06Step(c, spec, cs)
		if cs.Setup == "" && c06HasSource(cs.Spec) && (li < 0 || li%29 == 0) {
			// the same node in a specification that was never compiled, or whose sources arrived after
			// Compile: whatever Step makes of it (it refuses the action), it writes nothing into it
			for _, setup := range []string{"uncompiled", "late-source"} {
				if s2, err := c04Build(cs.Spec, setup); err == nil {
					cs2 := cs
					cs2.Setup = setup
					c06Step(c, s2, cs2)
				}
			}
		}
		if c.WantSample() && li == 77 && cs.Spec.Nodes["n0"].Action != nil {
			c.Sample(cs)
		}
	})
	if c.Shard == 0 {
		c06Retry(c)
	}
	if c.Shard == 1 || c.Shards == 1 {
		c06Typed(c)
	}
	maxLen := c.Pick(2, 3)
	all := seqs(maxLen)
	c.Bound("walk_message_sequence_max", maxLen)
	var wi int
	forEachWalkSpec(c, false, func(as *rstep.ASpec, spec *core.Spec) {
		// (specifications with a native action that edits the bindings it is given in place are included: the engine
		// hands an action a copy, so that not even such an action reaches the caller's state)
		wi++
		if c.Quick() && wi%6 != 0 {
			return // quick: every sixth spec of this worker's share
		}
		// message slices with holes: a nil entry is "no message" to Step; whatever Walk makes of it, the slice is the caller's
		withHoles := [][]interface{}{{walkMsgs[0], nil, walkMsgs[1]}, {nil, walkMsgs[0]}, {walkMsgs[2], nil}, {walkMsgs[0], nil, nil, walkMsgs[0], walkMsgs[1]}}
		for _, sq := range withHoles {
			c06Walk(c, spec, walkCase{Spec: as, Node: "n0", Bs: M{}, Msgs: sq, Limit: 100})
		}
		for _, st := range walkStarts {
			for _, sq := range all {
				if len(sq) <= 1 {
					// a caller whose context has already ended: whatever Walk makes of that, the arguments are the caller's
					c06Walk(c, spec, walkCase{Spec: as, Node: st.Node, Bs: st.Bs, Msgs: sq, Limit: 100, CtxEnded: true})
				}
				for _, lim := range []int{0, 2, 100} {
					for _, bp := range []string{"", "n1"} {
						if bp != "" && lim != 100 {
							continue
						}
						c06Walk(c, spec, walkCase{Spec: as, Node: st.Node, Bs: st.Bs, Msgs: sq, Limit: lim, Bp: bp})
					}
				}
			}
		}
	})
}

// scripts that try to remember something outside their result; under isolation each is deterministic
var c06Rememberers = []string{
	`var n = (globalThis.seen || 0) + 1; globalThis.seen = n; return {n: n, who: _.bindings.who};`,
	`String.prototype.memo = (String.prototype.memo || "") + _.bindings.who; return {memo: "".memo};`,
	`Array.prototype.count = (Array.prototype.count || 0) + 1; return {n: [].count};`,
	`JSON.stash = (JSON.stash || 0) + 1; Math.stash = JSON.stash; return {n: JSON.stash};`,
	`Object.defineProperty(Object.prototype, "tainted", {value: (({}).tainted || 0) + 1, configurable: true, enumerable: false}); return {n: ({}).tainted};`,
	`var before = _.props.leak || 0; _.props.leak = before + 1; return {before: before};`,
	`var before = (_.props.cfg && _.props.cfg.leak) || 0; if (_.props.cfg) { _.props.cfg.leak = before + 1; } return {before: before};`,
	`var before = _.out.calls || 0; _.out.calls = before + 1; _.out({call: before}); return {before: before};`,
	`var n = (globalThis.seen2 || 0) + 1; globalThis.seen2 = n; if (n == 1) { throw "first attempt fails"; } return {n: n};`,
	`var old = JSON.stringify; var n = (JSON.wrapped || 0); JSON.stringify = function(x) { return old(x); }; JSON.wrapped = n + 1; return {n: n};`,
}

// c06Typed: states and messages built by a Go host - collections of Go types other than the ones a JSON decoder
// produces ([]string, map[string]string, []int, a slice of maps, a pointer to a struct), with nothing else structured
// beside them - handed to scripts that write into what they are given.
func c06Typed(c *vh.Ctx) {
	type rec struct {
		Name string   `json:"name"`
		Tags []string `json:"tags"`
	}
	mk := map[string]func() interface{}{
		"[]string":          func() interface{} { return []string{"homer", "marge"} },
		"map[string]string": func() interface{} { return map[string]string{"0": "homer"} },
		"[]int":             func() interface{} { return []int{1, 2} },
		"[]float64":         func() interface{} { return []float64{1, 2} },
		"[]map":             func() interface{} { return []map[string]interface{}{{"0": "homer"}} },
		"[][]string":        func() interface{} { return [][]string{{"homer"}} },
		"*struct":           func() interface{} { return &rec{Name: "homer", Tags: []string{"x"}} },
		"map[string][]int":  func() interface{} { return map[string][]int{"0": {1}} },
	}
	scripts := []string{
		`var t = _.bindings["?to"]; if (t) { t[0] = "changed"; if (t[0] && typeof t[0] == "object") { t[0][0] = "changed"; } t.name = "changed"; if (t.tags) { t.tags[0] = "changed"; } } return {done: true};`,
		`var t = _.bindings.held; if (t) { t[0] = "changed"; if (t[0] && typeof t[0] == "object") { t[0][0] = "changed"; } t.name = "changed"; if (t.tags) { t.tags[0] = "changed"; } } return {done: true};`,
	}
	for kind, f := range mk {
		for si, src := range scripts {
			for _, asGuard := range []bool{false, true} {
				raw := prog(false, Op{K: "raw", A: src})
				var as *rstep.ASpec
				if asGuard {
					as = &rstep.ASpec{Nodes: map[string]*rstep.ANode{
						"n0": {Type: "message", Branches: []rstep.ABranch{{Pattern: M{"to": "?to"}, Guard: raw, Target: "n1"}}}, "n1": {Type: "message"}}}
				} else {
					as = &rstep.ASpec{Nodes: map[string]*rstep.ANode{
						"n0": {Type: "message", Branches: []rstep.ABranch{{Pattern: M{"to": "?to"}, Target: "n1"}}},
						"n1": {Action: raw, Branches: []rstep.ABranch{{Target: "n0"}}}}}
				}
				spec, err := as.Build()
				if err != nil {
					c.Violation("C06/compile-failed", err.Error(), as)
					continue
				}
				c.Eval()
				c.Nontrivial()
				run := func() (string, []string) {
					st := &core.State{NodeName: "n0", Bs: match.Bindings{"held": f(), "who": "alice"}}
					pend := []interface{}{M{"to": f()}}
					b := [2]string{snap.Of(st), snap.Of(pend)}
					var w *core.Walked
					if p, msg, where := vh.Trap(func() { w, _ = spec.Walk(context.Background(), st, pend, nil, nil) }); p {
						return "PANIC " + where + " " + msg, nil
					}
					var bad []string
					if snap.Of(st) != b[0] {
						bad = append(bad, "state-modified")
					}
					if snap.Of(pend) != b[1] {
						bad = append(bad, "messages-modified")
					}
					key := ""
					if w != nil {
						for _, s := range w.Strides {
							key += rstep.Observe(s, nil).Key() + ";"
						}
					}
					return key, bad
				}
				k1, bad := run()
				k2, _ := run()
				what := "action"
				if asGuard {
					what = "guard"
				}
				cs := map[string]interface{}{"family": "typed", "kind": kind, "script": src, "as_guard": asGuard}
				for _, bd := range bad {
					c.Violation(fmt.Sprintf("C06/walk/%s/typed-%s/%s-script-%d", bd, kind, what, si), "a "+what+" script that writes into a value of Go type "+kind+" (from the state / from the message) changed the caller's "+bd, cs)
				}
				if k1 != k2 {
					c.Violation(fmt.Sprintf("C06/walk/retry-differs/typed-%s/%s-script-%d", kind, what, si), "two identical walks differ:\n"+k1+"\n"+k2, cs)
				}
			}
		}
	}
}

// c06Retry: a host may discard a result and retry, or process the same message against many machines,
// without any effect leaking from one attempt into the next.
func c06Retry(c *vh.Ctx) {
	propsList := []core.StepProps{nil, {}, {"cfg": M{"x": 1.0}}}
	for si, src := range c06Rememberers {
		for _, asGuard := range []bool{false, true} {
			var as *rstep.ASpec
			raw := prog(false, Op{K: "raw", A: src})
			if asGuard {
				as = &rstep.ASpec{Nodes: map[string]*rstep.ANode{
					"n0": {Type: "message", Branches: []rstep.ABranch{{Pattern: M{"a": "?x"}, Guard: raw, Target: "n1"}}},
					"n1": {Type: "message", Branches: []rstep.ABranch{{Pattern: M{"a": "?y"}, Guard: raw, Target: "n0"}}}}}
			} else {
				as = &rstep.ASpec{Nodes: map[string]*rstep.ANode{
					"n0": {Type: "message", Branches: []rstep.ABranch{{Pattern: M{"a": "?x"}, Target: "n1"}}},
					"n1": {Action: raw, Branches: []rstep.ABranch{{Target: "n0"}}}}}
			}
			spec, err := as.Build()
			if err != nil {
				c.Violation("C06/compile-failed", err.Error(), as)
				continue
			}
			for pi, props := range propsList {
				walk := func(who string) string {
					st := &core.State{NodeName: "n0", Bs: match.Bindings{"who": who}}
					var w *core.Walked
					var err error
					if p, msg, where := vh.Trap(func() {
						w, err = spec.Walk(context.Background(), st, []interface{}{M{"a": 1.0}, M{"a": 2.0}}, nil, props)
					}); p {
						return "PANIC " + where + " " + msg
					}
					key := ""
					if err != nil {
						key = "ERR"
					}
					if w != nil {
						for _, s := range w.Strides {
							key += rstep.Observe(s, nil).Key() + ";"
						}
					}
					return key
				}
				c.Eval()
				c.Nontrivial()
				first := map[string]string{}
				for attempt := 0; attempt < 4; attempt++ {
					for _, who := range []string{"alice", "bob"} {
						k := walk(who)
						if attempt == 0 {
							first[who] = k
							continue
						}
						if k != first[who] {
							what := "action"
							if asGuard {
								what = "guard"
							}
							c.Violation(fmt.Sprintf("C06/walk/retry-differs/%s-script-%d", what, si),
								fmt.Sprintf("walking machine %q over the same spec with equal inputs (props variant %d), attempt %d gave\n%s\nbut the first attempt gave\n%s\nscript: %s", who, pi, attempt+1, k, first[who], src),
								map[string]interface{}{"script": src, "as_guard": asGuard, "props_variant": pi})
							break
						}
					}
				}
			}
		}
	}
}
