package hcore

import (
	"context"
	"fmt"

	"github.com/Comcast/sheens/core"
	"github.com/Comcast/sheens/match"
	"github.com/Comcast/sheens/verifrt/ref/rstep"
	"github.com/Comcast/sheens/verifrt/snap"
	"github.com/Comcast/sheens/verifrt/vh"
)

func neverBreak(context.Context, *core.State) bool { return false }

// situation names the path a step takes (part of the violation key, so that a
// different leaking path is a different finding).
func situation(cs stepCase, refs []rstep.Outcome) string {
	n := cs.Spec.Nodes[cs.Node]
	if n != nil && n.Action != nil {
		if n.Action.Model(cs.Bs).Err {
			return "action-fails"
		}
	}
	r := refs[0]
	switch {
	case r.Err != "":
		return "step-error:" + r.Err
	case r.HasTo && r.Node == "error":
		return "ends-at-error-node"
	case r.HasTo:
		return "moves"
	}
	return "stays"
}

func c06Step(c *vh.Ctx, spec *core.Spec, cs stepCase) {
	c.Eval()
	refs := cs.Spec.Step(cs.Node, cs.Bs, cs.Pending)
	sit := situation(cs, refs)
	run := func() (string, []string) {
		st := &core.State{NodeName: cs.Node, Bs: match.Bindings(cloneM(cs.Bs))}
		pending := clone(cs.Pending)
		ctl := &core.Control{Limit: 5, Breakpoints: map[string]core.Breakpoint{"never": neverBreak}}
		props := core.StepProps{"cfg": M{"x": 1.0, "l": []interface{}{1.0}}, "s": "v", "hosts": []interface{}{M{"name": "a", "up": true, "tags": []interface{}{"x"}}, []interface{}{M{"deep": 1.0}}}}
		b := [5]string{snap.Of(st), snap.Of(pending), snap.Of(spec), snap.Of(ctl), snap.Of(props)}
		var stride *core.Stride
		var err error
		if p, msg, where := vh.Trap(func() { stride, err = spec.Step(context.Background(), st, pending, ctl, props) }); p {
			return "PANIC", []string{"panic/" + where + ": " + msg}
		}
		a := [5]string{snap.Of(st), snap.Of(pending), snap.Of(spec), snap.Of(ctl), snap.Of(props)}
		var bad []string
		for i, what := range []string{"state", "pending-message", "spec", "control", "props"} {
			if a[i] != b[i] {
				bad = append(bad, what+"-modified")
			}
		}
		if stride != nil {
			id := snap.MapID(st.Bs)
			if stride.To != nil && id != 0 && snap.MapID(stride.To.Bs) == id {
				bad = append(bad, "returned-To-shares-bindings-map")
			}
			if stride.From != nil && id != 0 && snap.MapID(stride.From.Bs) == id {
				bad = append(bad, "returned-From-shares-bindings-map")
			}
		}
		return rstep.Observe(stride, err).Key(), bad
	}
	k1, bad := run()
	if len(bad) > 0 {
		c.Nontrivial()
	}
	for _, b := range bad {
		_, bad2 := run()
		rep := false
		for _, x := range bad2 {
			if x == b {
				rep = true
			}
		}
		if !rep {
			c.Count("unreproduced", 1)
			c.NotExhaustive("a violation did not reproduce; not reported")
			continue
		}
		c.Violation("C06/step/"+keyOf(b)+"/"+sit, fmt.Sprintf("Spec.Step: %s (situation: %s)", b, sit), cs)
	}
	if sit != "stays" {
		c.Nontrivial()
	}
	if len(refs) == 1 && k1 != "PANIC" {
		k2, _ := run()
		if k1 != k2 {
			c.Violation("C06/step/repeat-differs/"+sit, fmt.Sprintf("two identical Step calls gave %s and %s", k1, k2), cs)
		}
	}
}

func keyOf(b string) string {
	if len(b) > 6 && b[:6] == "panic/" {
		for i := 0; i < len(b); i++ {
			if b[i] == ':' && i+1 < len(b) && b[i+1] == ' ' {
				return b[:i]
			}
		}
	}
	return b
}

func walkSituation(w *core.Walked) string {
	if w == nil {
		return "nil"
	}
	s := w.StoppedBecause.String()
	for _, st := range w.Strides {
		if st.To != nil && st.To.NodeName == "error" {
			return s + "+error-node"
		}
	}
	return s
}

func c06Walk(c *vh.Ctx, spec *core.Spec, cs walkCase) {
	c.Eval()
	run := func() (string, string, []string) {
		st := &core.State{NodeName: cs.Node, Bs: match.Bindings(cloneM(cs.Bs))}
		pend := make([]interface{}, len(cs.Msgs))
		for i, m := range cs.Msgs {
			pend[i] = clone(m)
		}
		ctl := &core.Control{Limit: cs.Limit, Breakpoints: map[string]core.Breakpoint{"never": neverBreak}}
		if cs.Bp != "" {
			bp := cs.Bp
			ctl.Breakpoints["bp"] = func(_ context.Context, s *core.State) bool { return s.NodeName == bp }
		}
		props := core.StepProps{"cfg": M{"x": 1.0}, "hosts": []interface{}{M{"name": "a", "up": true, "tags": []interface{}{"x"}}}}
		b := [5]string{snap.Of(st), snap.Of(pend), snap.Of(spec), snap.Of(ctl), snap.Of(props)}
		var w *core.Walked
		var err error
		if p, msg, where := vh.Trap(func() { w, err = spec.Walk(context.Background(), st, pend, ctl, props) }); p {
			return "PANIC", "panic", []string{"panic/" + where + ": " + msg}
		}
		a := [5]string{snap.Of(st), snap.Of(pend), snap.Of(spec), snap.Of(ctl), snap.Of(props)}
		var bad []string
		for i, what := range []string{"state", "messages", "spec", "control", "props"} {
			if a[i] != b[i] {
				bad = append(bad, what+"-modified")
			}
		}
		key := ""
		if err != nil {
			key = "ERR:" + err.Error()
		}
		if w != nil {
			id := snap.MapID(st.Bs)
			for _, s := range w.Strides {
				if id != 0 && s.To != nil && snap.MapID(s.To.Bs) == id {
					bad = append(bad, "returned-To-shares-bindings-map")
					break
				}
			}
			for _, s := range w.Strides {
				key += rstep.Observe(s, nil).Key() + ";"
			}
			key += w.StoppedBecause.String() + rstep.Canon(nz(w.Remaining))
		}
		return key, walkSituation(w), bad
	}
	k1, sit, bad := run()
	if sit != "Done" {
		c.Nontrivial()
	}
	for _, b := range bad {
		_, _, bad2 := run()
		rep := false
		for _, x := range bad2 {
			if x == b {
				rep = true
			}
		}
		if !rep {
			c.Count("unreproduced", 1)
			c.NotExhaustive("a violation did not reproduce; not reported")
			continue
		}
		c.Violation("C06/walk/"+keyOf(b)+"/"+sit, fmt.Sprintf("Spec.Walk: %s (walk %s)", b, sit), cs)
	}
	if k1 != "PANIC" {
		if k2, _, _ := run(); k1 != k2 {
			c.Violation("C06/walk/repeat-differs/"+sit, fmt.Sprintf("two identical Walk calls differ:\n%s\n%s", k1, k2), cs)
		}
	}
}

// C06: the engine holds no state — snapshots of every argument before/after
// Step and Walk on the C04 and C05 case spaces, alias checks, repeat equality.
func C06(c *vh.Ctx) {
	if c.Replay != "" {
		var probe struct {
			Msgs  []interface{} `json:"msgs"`
			Limit *int          `json:"limit"`
		}
		c.LoadReplay(&probe)
		if probe.Limit != nil {
			var cs walkCase
			c.LoadReplay(&cs)
			if spec, err := cs.Spec.Build(); err == nil {
				c06Walk(c, spec, cs)
			}
			return
		}
		var cs stepCase
		c.LoadReplay(&cs)
		if spec, err := cs.Spec.Build(); err == nil {
			c06Step(c, spec, cs)
		}
		return
	}
	c.Rule("the C04 step space (quick vocabulary; in the quick tier every twenty-ninth two-branch list) and the C05 walk space (quick templates; in the quick tier every fourth spec, sequences up to the bound, limits {0,2,100}, breakpoints) re-executed with deep snapshots (reflect, incl. unexported fields) of state, messages, spec, control and props before/after each call, map-identity checks on every returned state, and two identical calls compared; non-trivial = the step/walk did something other than stay / finish normally.")
	forEachStepCase(c, false, func(spec *core.Spec, cs stepCase, li int) {
		if c.Quick() && len(cs.Spec.Nodes["n0"].Branches) == 2 && li%29 != 0 {
			return // quick: no / single-branch lists in full, every twenty-ninth two-branch list
		}
		c06Step(c, spec, cs)
		if c.WantSample() && li == 77 && cs.Spec.Nodes["n0"].Action != nil {
			c.Sample(cs)
		}
	})
	maxLen := c.Pick(2, 3)
	all := seqs(maxLen)
	c.Bound("walk_message_sequence_max", maxLen)
	var wi int
	forEachWalkSpec(c, false, func(as *rstep.ASpec, spec *core.Spec) {
		wi++
		if c.Quick() && wi%4 != 0 {
			return // quick: every fourth spec of this worker's share
		}
		for _, st := range walkStarts {
			for _, sq := range all {
				for _, lim := range []int{0, 2, 100} {
					for _, bp := range []string{"", "n1"} {
						if bp != "" && lim != 100 {
							continue
						}
						c06Walk(c, spec, walkCase{Spec: as, Node: st.Node, Bs: st.Bs, Msgs: sq, Limit: lim, Bp: bp})
					}
				}
			}
		}
	})
}
