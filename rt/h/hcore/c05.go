package hcore

import (
	"context"
	"fmt"

	"github.com/Comcast/sheens/core"
	"github.com/Comcast/sheens/match"
	"github.com/Comcast/sheens/verifrt/actlang"
	"github.com/Comcast/sheens/verifrt/ref/rstep"
	"github.com/Comcast/sheens/verifrt/vh"
)

type walkCase struct {
	Spec   *rstep.ASpec  `json:"spec"`
	Node   string        `json:"node"`
	Bs     M             `json:"bs"`
	Msgs   []interface{} `json:"msgs"`
	Limit  int           `json:"limit"`
	Bp     string        `json:"bp,omitempty"`
	Splits []int         `json:"splits,omitempty"` // batch sizes for the differential
	// CtxEnded (C06): the walk is called with a context that has already ended
	CtxEnded bool `json:"ctx_ended,omitempty"`
}

var walkNodes = []string{"n0", "n1", "n2"}

// walkTemplates returns the node templates for node `name`; full=false
// restricts the second target to the cyclic successor.
func walkTemplates(name string, full bool) []*rstep.ANode {
	next := map[string]string{"n0": "n1", "n1": "n2", "n2": "n0"}[name]
	ys := []string{next}
	if full {
		ys = walkNodes
	}
	var ts []*rstep.ANode
	add := func(n *rstep.ANode) { ts = append(ts, n) }
	add(&rstep.ANode{NoBranches: true})                                                                                                          // terminal
	add(&rstep.ANode{Type: "message", Branches: []rstep.ABranch{}})                                                                              // eats every message, never moves
	add(&rstep.ANode{Type: "message", Branches: []rstep.ABranch{{Target: next}}})                                                                // a gate: any message opens it, nothing else does
	add(&rstep.ANode{Action: prog(true, Op{K: actlang.Set, A: "s", V: name}), Branches: []rstep.ABranch{{Pattern: M{"zz": 1.0}, Target: next}}}) // action node that follows no branch
	// a node with an action *and* message branching: not a node the engine steps through (it refuses it) - wherever the
	// batches of a delivery end, the machine does the same
	add(&rstep.ANode{Action: prog(true, Op{K: actlang.Emit, V: M{"hello": name}}), Type: "message", Branches: []rstep.ABranch{{Pattern: M{"a": "?x"}, Target: next}}})
	for _, x := range walkNodes {
		for _, y := range ys {
			add(&rstep.ANode{Type: "message", Branches: []rstep.ABranch{{Pattern: M{"a": 1.0}, Target: x}, {Pattern: M{"a": "?x"}, Target: y}}})
			add(&rstep.ANode{Type: "bindings", Branches: []rstep.ABranch{{Pattern: M{"c": 1.0}, Target: x}, {Target: y}}})
			if full {
				add(&rstep.ANode{Type: "message", Branches: []rstep.ABranch{{Pattern: M{"a": "?x"}, Guard: prog(true, Op{K: actlang.RetNull}), Target: x}, {Pattern: M{"a": "?y"}, Target: y}}})
			}
		}
		add(&rstep.ANode{Type: "message", Branches: []rstep.ABranch{{Pattern: M{"b": "?y"}, Target: x}}})
		// a message node whose branch evaluation fails (the guard throws) for some messages
		add(&rstep.ANode{Type: "message", Branches: []rstep.ABranch{{Pattern: M{"a": 2.0}, Guard: prog(true, Op{K: actlang.Throw}), Target: x}, {Pattern: M{"a": "?x"}, Target: x}}})
		add(&rstep.ANode{Action: prog(true, Op{K: actlang.Emit, V: M{"at": name}}, Op{K: actlang.Set, A: "c", V: 1.0}), Branches: []rstep.ABranch{{Target: x}}})
		add(&rstep.ANode{Action: prog(false, Op{K: actlang.Emit, V: M{"js": name}}, Op{K: actlang.Del, A: "c"}, Op{K: actlang.Emit, V: M{"js2": name}}), Branches: []rstep.ABranch{{Target: x}}})
		add(&rstep.ANode{Action: prog(true, Op{K: actlang.Emit, V: "lost"}, Op{K: actlang.Throw}), Branches: []rstep.ABranch{{Target: x}}})
		// a native action that edits the bindings it is handed in place, as the repository's own native actions do
		// (bs.Extend): inside a walk it is handed the walk's working state, never a recorded one
		add(&rstep.ANode{Action: prog(true, Op{K: actlang.InPlace}, Op{K: actlang.Del, A: "c"}, Op{K: actlang.Set, A: "s", V: name}, Op{K: actlang.Set, A: "?x", V: 3.0}), Branches: []rstep.ABranch{{Target: x}}})
		if full {
			add(&rstep.ANode{Action: prog(true, Op{K: actlang.Del, A: "c"}), Type: "bindings", Branches: []rstep.ABranch{{Pattern: M{"?x": 1.0}, Target: x}, {Target: x}}})
		}
	}
	return ts
}

// editsInPlace: does some native action of the spec write into the map it is given?
func editsInPlace(as *rstep.ASpec) bool {
	for _, n := range as.Nodes {
		if n.Action != nil && len(n.Action.Ops) > 0 && n.Action.Ops[0].K == actlang.InPlace {
			return true
		}
	}
	return false
}

// canFail: can a step at this node fail (throwing action or guard, action node that follows no branch)?
func canFail(n *rstep.ANode) bool {
	has := func(p *actlang.Prog) bool {
		if p == nil {
			return false
		}
		for _, o := range p.Ops {
			if o.K == actlang.Throw {
				return true
			}
		}
		return false
	}
	if has(n.Action) || (n.Action != nil && n.Type == "message") {
		return true
	}
	for _, b := range n.Branches {
		if has(b.Guard) {
			return true
		}
	}
	return false
}

var walkMsgs = []interface{}{M{"a": 1.0}, M{"a": 2.0}, M{"b": 1.0}}

var walkStarts = []struct {
	Node string
	Bs   M
}{{"n0", M{}}, {"n1", M{"c": 1.0}}, {"n2", M{"?x": 2.0}}}

func seqs(maxLen int) [][]interface{} {
	out := [][]interface{}{{}}
	level := [][]interface{}{{}}
	for l := 1; l <= maxLen; l++ {
		var nl [][]interface{}
		for _, s := range level {
			for _, m := range walkMsgs {
				ns := append(append([]interface{}{}, s...), m)
				nl = append(nl, ns)
			}
		}
		out = append(out, nl...)
		level = nl
	}
	return out
}

// compositions of n into positive parts (all splits into consecutive batches)
func compositions(n int) [][]int {
	if n == 0 {
		return [][]int{{}}
	}
	var out [][]int
	for first := 1; first <= n; first++ {
		for _, rest := range compositions(n - first) {
			out = append(out, append([]int{first}, rest...))
		}
	}
	return out
}

type walkObs struct {
	W        *core.Walked
	Err      error
	Panicked bool
	PMsg     string
	Where    string
}

func doWalk(spec *core.Spec, node string, bs M, msgs []interface{}, limit int, bp string) walkObs {
	return doWalkCtx(context.Background(), spec, node, bs, msgs, limit, bp)
}

func doWalkCtx(ctx context.Context, spec *core.Spec, node string, bs M, msgs []interface{}, limit int, bp string) walkObs {
	st := &core.State{NodeName: node, Bs: match.Bindings(cloneM(bs))}
	ctl := &core.Control{Limit: limit}
	if bp != "" {
		ctl.Breakpoints = map[string]core.Breakpoint{"bp": func(_ context.Context, s *core.State) bool { return s.NodeName == bp }}
	}
	pend := make([]interface{}, len(msgs))
	for i, m := range msgs {
		pend[i] = clone(m)
	}
	var o walkObs
	o.Panicked, o.PMsg, o.Where = vh.Trap(func() {
		o.W, o.Err = spec.Walk(ctx, st, pend, ctl, nil)
	})
	return o
}

func emittedOf(w *core.Walked) []interface{} {
	var out []interface{}
	w.DoEmitted(func(x interface{}) error { out = append(out, x); return nil })
	return out
}

// walkInvariants checks (a)-(f) on one walk; returns clause and detail of the first failure.
func walkInvariants(spec *core.Spec, cs walkCase, o walkObs) (string, string) {
	if o.Panicked {
		return "panic/" + o.Where, "Walk panicked: " + o.PMsg
	}
	if o.Err != nil {
		return "walk-returned-error", o.Err.Error()
	}
	w := o.W
	// (b)
	if len(w.Strides) > cs.Limit {
		return "more-steps-than-limit", fmt.Sprintf("%d strides, limit %d", len(w.Strides), cs.Limit)
	}
	// (a) ordered exactly-once consumption
	k := 0
	for i, s := range w.Strides {
		if s.Consumed != nil {
			if k >= len(cs.Msgs) || rstep.Canon(s.Consumed) != rstep.Canon(cs.Msgs[k]) {
				return "consumption-order", fmt.Sprintf("stride %d consumed %s; expected message #%d of %s", i, rstep.Canon(s.Consumed), k, rstep.Canon(cs.Msgs))
			}
			k++
		}
	}
	// (c) truthful remainder
	if w.StoppedBecause == core.Limited || w.StoppedBecause == core.BreakpointReached {
		if rstep.Canon(nz(w.Remaining)) != rstep.Canon(nz(cs.Msgs[k:])) {
			return "remainder/" + w.StoppedBecause.String(), fmt.Sprintf("stopped %s with Remaining %s; unconsumed are %s", w.StoppedBecause, rstep.Canon(w.Remaining), rstep.Canon(cs.Msgs[k:]))
		}
	}
	// (d) chain continuity
	node, bs := cs.Node, cs.Bs
	for i, s := range w.Strides {
		if s.From == nil || s.From.NodeName != node || rstep.Canon(M(s.From.Bs)) != rstep.Canon(bs) {
			return "chain-continuity", fmt.Sprintf("stride %d starts from %v; previous state was %s/%s", i, s.From, node, rstep.Canon(bs))
		}
		if s.To != nil {
			node, bs = s.To.NodeName, M(s.To.Bs)
		}
	}
	// (e) Done => quiescent, and nothing dropped at a consuming node
	if w.StoppedBecause == core.Done {
		if cs.Limit > 0 {
			o2 := doWalk(spec, node, bs, nil, 100, "")
			if o2.Panicked || o2.Err != nil || (o2.W.StoppedBecause == core.Done && o2.W.To() != nil) {
				return "done-but-not-quiescent", fmt.Sprintf("reported Done at %s/%s but a further walk without messages moves", node, rstep.Canon(bs))
			}
		}
		if k < len(cs.Msgs) {
			if an, ok := cs.Spec.Nodes[node]; ok && an.Type == "message" && !an.NoBranches {
				return "dropped-at-consuming-node", fmt.Sprintf("Done with %d messages discarded at message-branching node %s", len(cs.Msgs)-k, node)
			}
		}
	}
	// (f) equality with the reference walk
	rw, ok := cs.Spec.Walk(cs.Node, cs.Bs, cs.Msgs, cs.Limit, cs.Bp)
	if cs.CtxEnded && w.StoppedBecause != core.Done {
		ok = false // a walk that stops early for a caller who has gone away, and says so, has accounted for everything
	}
	if ok {
		if rw.Stopped != w.StoppedBecause.String() {
			return "stop-reason", fmt.Sprintf("stopped %s; reference %s", w.StoppedBecause, rw.Stopped)
		}
		if len(rw.Strides) != len(w.Strides) {
			return "stride-count", fmt.Sprintf("%d strides; reference %d", len(w.Strides), len(rw.Strides))
		}
		for i, s := range w.Strides {
			obs := rstep.Observe(s, nil)
			if obs.Key() != rw.Strides[i].Out.Key() {
				return "stride-differs", fmt.Sprintf("stride %d: %s; reference %s", i, obs.Key(), rw.Strides[i].Out.Key())
			}
		}
		if rstep.Canon(nz(w.Remaining)) != rstep.Canon(nz(rw.Remaining)) {
			return "remaining-vs-reference", fmt.Sprintf("Remaining %s; reference %s", rstep.Canon(w.Remaining), rstep.Canon(rw.Remaining))
		}
	}
	return "", ""
}

func nz(x []interface{}) []interface{} {
	if len(x) == 0 {
		return []interface{}{}
	}
	return x
}

func finalOf(cs walkCase, w *core.Walked) (string, M) {
	node, bs := cs.Node, cs.Bs
	if to := w.To(); to != nil {
		node, bs = to.NodeName, M(to.Bs)
	}
	return node, bs
}

// splitDifferential: (g) any split into consecutive batches gives the same final state and emissions.
func splitDifferential(c *vh.Ctx, spec *core.Spec, cs walkCase, whole walkObs) {
	if whole.Panicked || whole.Err != nil || whole.W.StoppedBecause != core.Done {
		return
	}
	fn, fb := finalOf(cs, whole.W)
	fe := rstep.Canon(nz(emittedOf(whole.W)))
	for _, comp := range compositions(len(cs.Msgs)) {
		if len(comp) <= 1 {
			continue
		}
		node, bs := cs.Node, cs.Bs
		var em []interface{}
		off := 0
		limited := false
		for _, n := range comp {
			o := doWalk(spec, node, bs, cs.Msgs[off:off+n], cs.Limit, "")
			off += n
			c.Eval()
			if o.Panicked || o.Err != nil || o.W.StoppedBecause != core.Done {
				limited = true
				break
			}
			em = append(em, emittedOf(o.W)...)
			if to := o.W.To(); to != nil {
				node, bs = to.NodeName, M(to.Bs)
			}
		}
		if limited {
			continue
		}
		if node != fn || rstep.Canon(bs) != rstep.Canon(fb) || rstep.Canon(nz(em)) != fe {
			cs2 := cs
			cs2.Splits = comp
			c.Violation("C05/split-differs", fmt.Sprintf("delivering %s in batches %v ends at %s/%s emitting %s; all at once ends at %s/%s emitting %s",
				rstep.Canon(cs.Msgs), comp, node, rstep.Canon(bs), rstep.Canon(nz(em)), fn, rstep.Canon(fb), fe), cs2)
			return
		}
	}
}

// nativeOnly: no script anywhere in the specification (a script under an ended context is interrupted at a moment
// nobody controls).
func nativeOnly(as *rstep.ASpec) bool {
	for _, n := range as.Nodes {
		if n.Action != nil && !n.Action.Native {
			return false
		}
		for _, b := range n.Branches {
			if b.Guard != nil && !b.Guard.Native {
				return false
			}
		}
	}
	return true
}

func walkOnce(spec *core.Spec, cs walkCase) walkObs {
	if cs.CtxEnded {
		ctx, cancel := context.WithCancel(context.Background())
		cancel()
		return doWalkCtx(ctx, spec, cs.Node, cs.Bs, cs.Msgs, cs.Limit, cs.Bp)
	}
	return doWalk(spec, cs.Node, cs.Bs, cs.Msgs, cs.Limit, cs.Bp)
}

func checkWalk(c *vh.Ctx, spec *core.Spec, cs walkCase) walkObs {
	c.Eval()
	o := walkOnce(spec, cs)
	if !o.Panicked && o.Err == nil {
		c.R.Transitions += int64(len(o.W.Strides))
		if len(o.W.Strides) > 1 {
			c.Nontrivial()
		}
		c.Outcome("stop", o.W.StoppedBecause.String())
	}
	if clause, detail := walkInvariants(spec, cs, o); clause != "" {
		o2 := walkOnce(spec, cs)
		if c2, _ := walkInvariants(spec, cs, o2); c2 != clause {
			c.Count("unreproduced", 1)
			c.NotExhaustive("a violation did not reproduce on re-execution; not reported")
			return o
		}
		c.Violation("C05/"+clause, detail, cs)
	}
	return o
}

// forEachWalkSpec enumerates the 3-node specs (sharded) and calls f.
func forEachWalkSpec(c *vh.Ctx, full bool, f func(as *rstep.ASpec, spec *core.Spec)) {
	t0, t1, t2 := walkTemplates("n0", full), walkTemplates("n1", full), walkTemplates("n2", full)
	if c.Shard == 0 {
		c.Count("node_templates", int64(len(t0)))
		c.Count("specs", int64(len(t0)*len(t1)*len(t2)))
	}
	var idx uint64
	for _, a := range t0 {
		for _, b := range t1 {
			for _, d := range t2 {
				idx++
				if !c.Mine(idx) {
					continue
				}
				if c.Expired() {
					return
				}
				as := &rstep.ASpec{Nodes: map[string]*rstep.ANode{"n0": a, "n1": b, "n2": d}}
				spec, err := as.Build()
				if err != nil {
					c.Violation("C05/compile-failed", err.Error(), as)
					continue
				}
				c.R.States++
				f(as, spec)
				if canFail(a) || (full && (canFail(b) || canFail(d))) {
					// the same spec with an error node that is not a dead end: it listens and recovers
					as2 := &rstep.ASpec{Nodes: map[string]*rstep.ANode{"n0": a, "n1": b, "n2": d,
						"error": {Type: "message", Branches: []rstep.ABranch{{Pattern: M{"a": "?e1"}, Target: "n0"}, {Pattern: M{"b": "?e2"}, Target: "n1"}}}}}
					if spec2, err := as2.Build(); err == nil {
						c.R.States++
						f(as2, spec2)
					}
				}
			}
		}
	}
}

// C05: walk accounting over specs x start states x message sequences x limits x breakpoints x splits.
func C05(c *vh.Ctx) {
	if c.Replay != "" {
		var cs walkCase
		if err := c.LoadReplay(&cs); err != nil {
			c.NotExhaustive("cannot load replay: " + err.Error())
			return
		}
		spec, err := cs.Spec.Build()
		if err != nil {
			c.NotExhaustive("replay spec does not compile")
			return
		}
		o := checkWalk(c, spec, cs)
		if len(cs.Splits) > 0 {
			splitDifferential(c, spec, cs, o)
		}
		return
	}
	maxLen := c.Pick(2, 3)
	limits := []int{0, 1, 2, 3, 5, 100}
	if c.Quick() {
		limits = []int{0, 1, 3, 100}
	}
	bps := []string{"", "n1", "n2"}
	c.Bound("nodes", 3)
	c.Bound("message_sequence_max", maxLen)
	c.Bound("limits", limits)
	c.Rule("all assignments of node templates (message / bindings / action nodes incl. failing, stuck and cyclic ones, message nodes whose guard throws, native and ECMAScript; specs that can fail also with an error node that listens and recovers) to 3 nodes x 3 start states x all message sequences up to the bound over 3 messages x limits x breakpoints (none, at n1, at n2) x every split into consecutive batches; a family of specifications whose branch patterns use inequality variables bound in the machine's state next to other properties and guards; for every n-th spec also one batch of 700 messages under limits around and beyond a thousand steps; invariants (a)-(g) of DESIGN 6/C05 on every Walked, plus equality with the reference walk; script-free specifications also under a context that has already ended (the account must be truthful, and a walk that says Done must have done what the reference does). states = specs explored, transitions = strides executed; non-trivial = walk with more than one stride.")
	all := seqs(maxLen)
	// long walks: one batch of several hundred messages (and cyclic specs) under limits around and far beyond a
	// thousand steps - what holds for six strides has to hold for six thousand
	longEvery := c.Pick(150, 40)
	longLimits := []int{1024, 1025, 4097}
	if c.Quick() {
		longLimits = []int{1025, 4097}
	}
	var longSeq []interface{}
	for i := 0; i < 700; i++ {
		longSeq = append(longSeq, all[1+i%3][0])
	}
	c.Bound("long_walk_messages", len(longSeq))
	c.Bound("long_walk_limits", longLimits)
	c.Bound("long_walk_every_nth_spec", longEvery)
	// a small family around inequality variables: the machine holds the bound ("?<lim"), branch patterns use it next
	// to another property, so a message can satisfy the inequality and still fail the branch
	if c.Shard == 0 || c.Shards == 1 {
		ineqMsgs := []interface{}{M{"a": 1.0}, M{"a": 1.0, "b": 1.0}, M{"a": 0.0, "b": 1.0}, M{"a": 3.0, "b": 1.0}}
		ineqSpecs := []*rstep.ASpec{
			{Nodes: map[string]*rstep.ANode{
				"n0": {Type: "message", Branches: []rstep.ABranch{{Pattern: M{"a": "?<lim", "b": 1.0}, Target: "n1"}}},
				"n1": {Type: "message", Branches: []rstep.ABranch{{Pattern: M{"a": "?<lim"}, Target: "n0"}}},
				"n2": {NoBranches: true}}},
			{Nodes: map[string]*rstep.ANode{
				"n0": {Type: "message", Branches: []rstep.ABranch{{Pattern: M{"a": "?<lim"}, Guard: prog(true, Op{K: actlang.RetNull}), Target: "n2"}, {Pattern: M{"a": "?lim", "b": 1.0}, Target: "n1"}}},
				"n1": {Action: prog(true, Op{K: actlang.Emit, V: M{"at": "n1"}}), Branches: []rstep.ABranch{{Target: "n0"}}},
				"n2": {NoBranches: true}}},
			{Nodes: map[string]*rstep.ANode{
				"n0": {Type: "message", Branches: []rstep.ABranch{{Pattern: M{"a": "?>=lim", "b": 1.0}, Target: "n1"}, {Pattern: M{"a": "?!=lim"}, Target: "n0"}}},
				"n1": {Type: "bindings", Branches: []rstep.ABranch{{Pattern: M{"?lim": 3.0}, Target: "n2"}, {Target: "n0"}}},
				"n2": {Type: "message", Branches: []rstep.ABranch{{Pattern: M{"a": "?x"}, Target: "n0"}}}}},
		}
		var ineqSeqs [][]interface{}
		var recI func(cur []interface{})
		recI = func(cur []interface{}) {
			if len(cur) > 0 {
				ineqSeqs = append(ineqSeqs, append([]interface{}{}, cur...))
			}
			if len(cur) == 3 {
				return
			}
			for _, m := range ineqMsgs {
				recI(append(cur, m))
			}
		}
		recI(nil)
		for _, as := range ineqSpecs {
			spec, err := as.Build()
			if err != nil {
				c.NotExhaustive("an inequality spec does not compile: " + err.Error())
				continue
			}
			for _, start := range []M{{"?<lim": 2.0}, {"?>=lim": 1.0, "?!=lim": 1.0, "?<lim": 2.0}, {}} {
				for _, sq := range ineqSeqs {
					cs := walkCase{Spec: as, Node: "n0", Bs: start, Msgs: sq, Limit: 100}
					o := checkWalk(c, spec, cs)
					c.R.Traces++
					c.Count("inequality_family_walks", 1)
					if len(sq) >= 2 {
						splitDifferential(c, spec, cs, o)
					}
				}
			}
		}
	}
	nSpecs := 0
	forEachWalkSpec(c, !c.Quick(), func(as *rstep.ASpec, spec *core.Spec) {
		nSpecs++
		if nSpecs%longEvery == 0 && !c.Expired() {
			for _, st := range walkStarts {
				for _, lim := range longLimits {
					checkWalk(c, spec, walkCase{Spec: as, Node: st.Node, Bs: st.Bs, Msgs: longSeq, Limit: lim})
					c.R.Traces++
					c.Count("long_walks", 1)
				}
			}
		}
		for _, st := range walkStarts {
			for _, sq := range all {
				for _, lim := range limits {
					for _, bp := range bps {
						if bp != "" && lim != 100 && lim != 2 {
							continue
						}
						cs := walkCase{Spec: as, Node: st.Node, Bs: st.Bs, Msgs: sq, Limit: lim, Bp: bp}
						o := checkWalk(c, spec, cs)
						c.R.Traces++
						if lim == 100 && bp == "" && len(sq) >= 2 {
							splitDifferential(c, spec, cs, o)
						}
						if lim == 100 && bp == "" && len(sq) >= 1 && nativeOnly(as) {
							// the caller's context has ended (native actions do not look at it): whatever Walk makes of
							// that, its account is truthful - and if it says Done, everything was done
							cs2 := cs
							cs2.CtxEnded = true
							checkWalk(c, spec, cs2)
						}
						if c.WantSample() && len(sq) == 3 && lim == 100 && !o.Panicked && o.W != nil && len(o.W.Strides) > 4 {
							c.Sample(cs)
						}
					}
				}
			}
		}
	})
}
