package hcore

import (
	"context"
	"fmt"
	"runtime"
	"strings"
	"sync"
	"sync/atomic"
	"time"

	"github.com/Comcast/sheens/core"
	"github.com/Comcast/sheens/interpreters/ecmascript"
	"github.com/Comcast/sheens/match"
	"github.com/Comcast/sheens/verifrt/vh"
)

type c11Case struct {
	Shape   string `json:"shape"`
	Ticks   bool   `json:"ticks"`  // the loop body calls the harness tick
	Where   string `json:"where"`  // action | guard
	Mode    string `json:"mode"`   // cancelled | expired | tick | deadline
	K       int    `json:"k"`      // tick number (mode tick) or deadline in ms (mode deadline)
	Parent  string `json:"parent"` // "" | deadline-1h  (a far deadline somewhere in the context's ancestry)
	Routing string `json:"routing"`
	N       int    `json:"n"` // concurrent executions
}

var c11Shapes = map[string]string{
	"while":     `while (true) { TICK }`,
	"for-count": `for (var i = 0; ; i++) { if (i % 64 == 0) { TICK } }`,
	"recursion": `function f(n) { TICK return f(n + 1) + 1; } f(0);`,
	"push":      `var a = []; while (true) { a.push(1); if (a.length > 1000) { a = []; } TICK }`,
	"concat":    `var s = ""; while (true) { s += "x"; if (s.length > 1000) { s = ""; } TICK }`,
	"property":  `var o = {n: 0}; while (true) { o.n = o.n + 1; o["k" + (o.n % 10)] = o.n; TICK }`,
	"nested-fn": `function g(n) { if (n > 50) { return 0; } return g(n + 1) + 1; } while (true) { g(0); TICK }`,
	// the time is spent after the script proper has ended: in the string conversion of what it threw, in a
	// getter of what it returned
	"throw-tostring-loop": `throw {toString: function() { while (true) { TICK } }};`,
	"return-getter-loop":  `return {get a() { while (true) { TICK } }};`,
	"throw-message-loop":  `var e = new Error("x"); Object.defineProperty(e, "message", {get: function() { while (true) { TICK } }}); throw e;`,
}

var c11ShapeOrder = []string{"while", "for-count", "recursion", "push", "concat", "property", "nested-fn", "throw-tostring-loop", "return-getter-loop", "throw-message-loop"}

// afterDoneLimit: how many ticks a script may still make after its context is done.  Under
// GOMAXPROCS=1 the watcher only gets to run when the script goroutine is preempted, so the
// bound is generous; an implementation that does not watch the context never stops at all.
const afterDoneLimit = 30000000

// c11Ctx: a context whose Value("tick") counts ticks, cancels at tick k, and aborts the script
// (by panicking inside the host call, which the interpreter turns into a script exception) when
// the script keeps running long after the context was done.
type c11Ctx struct {
	context.Context
	cancel    context.CancelFunc
	cancelAt  int64
	ticks     int64
	afterDone int64
	Overrun   int32
}

func (c *c11Ctx) Value(key interface{}) interface{} {
	if s, ok := key.(string); ok && s == "tick" {
		n := atomic.AddInt64(&c.ticks, 1)
		if c.cancelAt > 0 && n == c.cancelAt {
			c.cancel()
		}
		if c.Context.Err() != nil {
			if atomic.AddInt64(&c.afterDone, 1) > afterDoneLimit {
				atomic.StoreInt32(&c.Overrun, 1)
				panic("verif: script still running long after its context was done")
			}
		}
		return n
	}
	return c.Context.Value(key)
}

func c11Source(cs c11Case) string {
	src := c11Shapes[cs.Shape]
	if cs.Ticks {
		return strings.ReplaceAll(src, "TICK", `_.ctx.Value("tick");`)
	}
	return strings.ReplaceAll(src, "TICK", ``)
}

func c11Spec(cs c11Case) (*core.Spec, error) {
	src := c11Source(cs) + "\nreturn _.bindings;"
	loop := &core.ActionSource{Interpreter: "ecmascript", Source: src}
	ok := &core.ActionSource{Interpreter: "ecmascript", Source: "_.bindings.ran = true; return _.bindings;"}
	spec := &core.Spec{Name: "t", Nodes: map[string]*core.Node{
		"start": {Branches: &core.Branches{Type: "message", Branches: []*core.Branch{{Pattern: map[string]interface{}{"go": "?g"}, Target: "act"}}}},
		"done":  {},
		"errh":  {},
	}}
	var errBranch []*core.Branch
	switch cs.Routing {
	case "aen":
		spec.ActionErrorNode = "errh"
	case "aeb":
		spec.ActionErrorBranches = true
		errBranch = []*core.Branch{{Pattern: map[string]interface{}{"actionError": "?e"}, Target: "errh"}}
	}
	if cs.Where == "action+errguard" {
		// the action loops, and so does the guard on the branch that handles the action's failure
		spec.ActionErrorBranches = true
		spec.Nodes["act"] = &core.Node{ActionSource: loop, Branches: &core.Branches{Branches: []*core.Branch{
			{Pattern: map[string]interface{}{"actionError": "?e"}, GuardSource: loop, Target: "errh"}, {Target: "done"}}}}
	} else if cs.Where == "action" {
		spec.Nodes["act"] = &core.Node{ActionSource: loop, Branches: &core.Branches{Branches: append(errBranch, &core.Branch{Target: "done"})}}
	} else {
		spec.Nodes["act"] = &core.Node{ActionSource: ok, Branches: &core.Branches{Branches: append(errBranch, &core.Branch{GuardSource: loop, Target: "done"})}}
	}
	return spec, spec.Compile(context.Background(), nil, true)
}

func goroutineIDs() map[string]bool {
	buf := make([]byte, 1<<20)
	n := runtime.Stack(buf, true)
	ids := map[string]bool{}
	for _, blk := range strings.Split(string(buf[:n]), "\n\n") {
		if strings.HasPrefix(blk, "goroutine ") {
			f := strings.Fields(blk)
			if len(f) > 1 {
				ids[f[1]] = true
			}
		}
	}
	return ids
}

// c11Run returns the violated clauses.
func c11Run(cs c11Case) (out [][2]string) {
	spec, err := c11Spec(cs)
	if err != nil {
		return [][2]string{{"compile-failed", err.Error()}}
	}
	before := goroutineIDs()
	type res struct {
		node    string
		errText string
		hang    bool
		panic_  string
		overrun bool
		walkErr string
	}
	results := make([]res, cs.N)
	var wg sync.WaitGroup
	for i := 0; i < cs.N; i++ {
		wg.Add(1)
		go func(i int) {
			defer wg.Done()
			parent := context.Background()
			var cancels []context.CancelFunc
			if cs.Parent == "deadline-1h" {
				p, c := context.WithTimeout(parent, time.Hour)
				parent, cancels = p, append(cancels, c)
			}
			var base context.Context
			var cancel context.CancelFunc
			switch cs.Mode {
			case "expired":
				base, cancel = context.WithDeadline(parent, time.Now().Add(-time.Second))
			case "deadline":
				base, cancel = context.WithTimeout(parent, time.Duration(cs.K)*time.Millisecond)
			default:
				base, cancel = context.WithCancel(parent)
			}
			cancels = append(cancels, cancel)
			ctx := &c11Ctx{Context: base, cancel: cancel}
			if cs.Mode == "tick" {
				ctx.cancelAt = int64(cs.K)
			}
			if cs.Mode == "cancelled" {
				cancel()
			}
			done := make(chan struct{})
			var w *core.Walked
			var werr error
			var pn bool
			var pm string
			go func() {
				defer close(done)
				pn, pm, _ = vh.Trap(func() {
					w, werr = spec.Walk(ctx, &core.State{NodeName: "start", Bs: match.NewBindings()}, []interface{}{map[string]interface{}{"go": 1.0}}, &core.Control{Limit: 10}, nil)
				})
			}()
			select {
			case <-done:
			case <-time.After(90 * time.Second):
				results[i].hang = true
				for _, c := range cancels {
					c()
				}
				return
			}
			for _, c := range cancels {
				c()
			}
			r := &results[i]
			r.overrun = atomic.LoadInt32(&ctx.Overrun) == 1
			if pn {
				r.panic_ = pm
				return
			}
			if werr != nil {
				r.walkErr = werr.Error()
				return
			}
			if to := w.To(); to != nil {
				r.node = to.NodeName
				if s, ok := to.Bs["error"].(string); ok {
					r.errText = s
				}
			}
		}(i)
	}
	wg.Wait()
	for i, r := range results {
		switch {
		case r.hang:
			out = append(out, [2]string{"did-not-return", fmt.Sprintf("execution %d of %d did not return within 90 s", i+1, cs.N)})
		case r.overrun:
			out = append(out, [2]string{"not-interrupted-after-context-done", fmt.Sprintf("execution %d of %d: the script made more than %d further ticks after its context was done", i+1, cs.N, afterDoneLimit)})
		case r.panic_ != "":
			out = append(out, [2]string{"panic", r.panic_})
		case r.walkErr != "":
			out = append(out, [2]string{"walk-returned-error", r.walkErr})
		default:
			wantNode := "error"
			if cs.Routing != "none" && cs.Where == "action" {
				wantNode = "errh"
			}
			// with the looping script in the guard, the (short) action before it runs under the same
			// context: when that context is already dead, or dies within a millisecond or so, the action
			// itself may be the one that times out, and is then routed as an action error
			alsoOK := ""
			if cs.Where == "guard" && cs.Routing != "none" {
				alsoOK = "errh"
			}
			if cs.Where == "action+errguard" {
				// the action's timeout is routed to the error branches, whose guard runs under the same dead
				// context: it is interrupted as well (error node), unless it is not reached
				wantNode, alsoOK = "error", "errh"
			}
			if r.node != wantNode && (alsoOK == "" || r.node != alsoOK) {
				out = append(out, [2]string{"timeout-not-routed-like-an-action-error", fmt.Sprintf("execution %d of %d ended at node %q (error %q); expected the %s node", i+1, cs.N, r.node, r.errText, wantNode)})
			} else if !strings.Contains(r.errText, "timeout") {
				out = append(out, [2]string{"error-is-not-the-timeout-error", fmt.Sprintf("execution %d of %d ended at %q with error %q", i+1, cs.N, r.node, r.errText)})
			}
		}
	}
	// leak check: everything started for the executions must be gone once they have returned
	deadline := time.Now().Add(10 * time.Second)
	for {
		leaked := 0
		for id := range goroutineIDs() {
			if !before[id] {
				leaked++
			}
		}
		if leaked == 0 {
			break
		}
		if time.Now().After(deadline) {
			out = append(out, [2]string{"goroutine-outlives-the-call", fmt.Sprintf("%d goroutine(s) started during the call are still alive 10 s after it returned", leaked)})
			break
		}
		time.Sleep(2 * time.Millisecond)
	}
	return
}

// ---- bystander family: cancellation must not wait for somebody else's execution ------------------------

// holdCtx: the context of a long-running "holder" execution.  It reports its first tick, counts ticks, and
// gives up (cancels itself) after holderLimit ticks so that a blocked victim is eventually released.
type holdCtx struct {
	context.Context
	cancel  context.CancelFunc
	started chan struct{}
	once    sync.Once
	ticks   int64
	GaveUp  int32
}

const holderLimit = 10000000

func (h *holdCtx) Value(key interface{}) interface{} {
	if s, ok := key.(string); ok && s == "tick" {
		n := atomic.AddInt64(&h.ticks, 1)
		h.once.Do(func() { close(h.started) })
		if n == holderLimit {
			atomic.StoreInt32(&h.GaveUp, 1)
			h.cancel()
		}
		return n
	}
	return h.Context.Value(key)
}

type c11ByCase struct {
	Kind   string `json:"bystander_kind"` // exec-source | exec-compiled | walk-shared-spec
	Victim string `json:"victim"`         // cancelled | expired | tick | deadline
	// Holders: how many never-cancelled executions are running (default 1); more than one are run with the
	// processor count set to 2, i.e. more executions than processors
	Holders int `json:"holders,omitempty"`
	// Recompile: while the holder runs, the host compiles the shared spec again (unforced - nothing is replaced),
	// as a host does that compiles a machine's spec for every message; the victim starts after that
	Recompile bool `json:"recompile,omitempty"`
}

const loopSrc = `while (true) { _.ctx.Value("tick"); }
return _.bindings;`

// c11Bystander: while one execution is busy (its context is never cancelled), a second execution on the
// same interpreter / compiled program / compiled spec whose context is cancelled or expires must stop
// while the first is still running.  Progress is measured in the holder's ticks, not in time.
func c11Bystander(cs c11ByCase) (out [][2]string) {
	if cs.Holders > 1 {
		// more executions at once than processors: the crowd is made by shrinking the processor count (an
		// interpreter may size itself by it), not by starting hundreds of scripts
		defer runtime.GOMAXPROCS(runtime.GOMAXPROCS(2))
	}
	interp := ecmascript.NewInterpreter()
	var compiled interface{}
	var spec *core.Spec
	switch cs.Kind {
	case "exec-compiled":
		x, err := interp.Compile(context.Background(), loopSrc)
		if err != nil {
			return [][2]string{{"compile-failed", err.Error()}}
		}
		compiled = x
	case "walk-shared-spec":
		sp, err := c11Spec(c11Case{Shape: "while", Ticks: true, Where: "action", Routing: "none"})
		if err != nil {
			return [][2]string{{"compile-failed", err.Error()}}
		}
		spec = sp
	}
	run := func(ctx context.Context) (string, bool, string) {
		var errText string
		pn, pm, _ := vh.Trap(func() {
			if spec != nil {
				w, err := spec.Walk(ctx, &core.State{NodeName: "start", Bs: match.NewBindings()}, []interface{}{map[string]interface{}{"go": 1.0}}, &core.Control{Limit: 10}, nil)
				if err != nil {
					errText = err.Error()
				} else if to := w.To(); to != nil {
					if s, ok := to.Bs["error"].(string); ok {
						errText = s
					}
				}
				return
			}
			_, err := interp.Exec(ctx, match.NewBindings(), nil, loopSrc, compiled)
			if err != nil {
				errText = err.Error()
			}
		})
		return errText, pn, pm
	}
	before := goroutineIDs()
	nh := cs.Holders
	if nh < 1 {
		nh = 1
	}
	var hs []*holdCtx
	hdone := make(chan struct{})
	var hwg sync.WaitGroup
	for i := 0; i < nh; i++ {
		hb, hc := context.WithCancel(context.Background())
		hx := &holdCtx{Context: hb, cancel: hc, started: make(chan struct{})}
		hs = append(hs, hx)
		hwg.Add(1)
		go func() { defer hwg.Done(); run(hx) }()
	}
	go func() { hwg.Wait(); close(hdone) }()
	h := hs[0]
	hcancel := func() {
		for _, hx := range hs {
			hx.cancel()
		}
	}
	select {
	case <-h.started:
	case <-time.After(60 * time.Second):
		hcancel()
		return [][2]string{{"harness-holder-did-not-start", "the holder execution made no tick within 60 s"}}
	}
	// a crowd of holders: give the others a moment to get going (how many do is not judged)
	for _, hx := range hs[1:] {
		select {
		case <-hx.started:
		case <-time.After(100 * time.Millisecond):
		}
	}
	if cs.Recompile && spec != nil {
		cdone := make(chan struct{})
		go func() { defer close(cdone); vh.Trap(func() { spec.Compile(context.Background(), nil, false) }) }()
		select {
		case <-cdone:
		case <-time.After(50 * time.Millisecond):
		}
	}
	var vb context.Context
	var vcancel context.CancelFunc
	switch cs.Victim {
	case "expired":
		vb, vcancel = context.WithDeadline(context.Background(), time.Now().Add(-time.Second))
	case "deadline":
		vb, vcancel = context.WithTimeout(context.Background(), 5*time.Millisecond)
	default:
		vb, vcancel = context.WithCancel(context.Background())
	}
	v := &c11Ctx{Context: vb, cancel: vcancel}
	switch cs.Victim {
	case "cancelled":
		vcancel()
	case "tick":
		v.cancelAt = 2
	}
	vdone := make(chan struct{})
	var verr string
	var vpanic bool
	var vpm string
	go func() { defer close(vdone); verr, vpanic, vpm = run(v) }()
	select {
	case <-vdone:
	case <-hdone:
		// the holder gave up (or ended) first
		<-vdone
	}
	gaveUp := false
	for _, hx := range hs {
		if atomic.LoadInt32(&hx.GaveUp) == 1 {
			gaveUp = true
		}
	}
	hcancel()
	<-hdone
	vcancel()
	switch {
	case gaveUp:
		out = append(out, [2]string{"cancellation-waits-for-another-execution", fmt.Sprintf("an execution whose context was %s did not stop while another execution (%s) was running: that one made %d ticks before the harness gave up", cs.Victim, cs.Kind, holderLimit)})
	case vpanic:
		out = append(out, [2]string{"panic", vpm})
	case atomic.LoadInt32(&v.Overrun) == 1:
		out = append(out, [2]string{"not-interrupted-after-context-done", "the cancelled execution kept ticking"})
	case !strings.Contains(verr, "timeout"):
		out = append(out, [2]string{"error-is-not-the-timeout-error", fmt.Sprintf("the cancelled execution ended with error %q", verr)})
	}
	deadline := time.Now().Add(10 * time.Second)
	for {
		leaked := 0
		for id := range goroutineIDs() {
			if !before[id] {
				leaked++
			}
		}
		if leaked == 0 {
			break
		}
		if time.Now().After(deadline) {
			out = append(out, [2]string{"goroutine-outlives-the-call", fmt.Sprintf("%d goroutine(s) started during the calls are still alive 10 s after they returned", leaked)})
			break
		}
		time.Sleep(2 * time.Millisecond)
	}
	return
}

// C11: action timeouts are enforced.

// ---- exit-path family: whatever was started for an execution is gone when the call has returned --------
//
// The last clause of the property does not depend on a timeout: an execution that ends by itself - on any
// of its exit paths - under a context that stays alive must leave nothing behind either.

type c11ExitCase struct {
	Exit string `json:"exit"`     // name of the script (c11Exits)
	Via  string `json:"exit_via"` // exec-source | exec-compiled | walk-action | walk-guard
	Ctx  string `json:"ctx"`      // background | cancel-later | deadline-1h
	Reps int    `json:"reps"`     // executions before the look at the goroutines
}

var c11Exits = map[string]string{
	"return-bindings":             `return _.bindings;`,
	"return-null":                 `return null;`,
	"return-nothing":              `var x = 1;`,
	"return-scalar":               `return 7;`,
	"return-array":                `return [1];`,
	"return-after-emitting":       `_.out({a: 1}); return {};`,
	"throw-string":                `throw "x";`,
	"throw-error":                 `throw new Error("x");`,
	"throw-object":                `throw {a: 1};`,
	"throw-tostring-throws":       `throw {toString: function() { throw new Error("no"); }};`,
	"return-getter-throws":        `return {get likes() { throw new Error("no chips"); }};`,
	"return-nested-getter-throws": `return {a: [1, {get b() { throw "deep"; }}]};`,
	"return-function-member":      `return {f: function() {}};`,
	"out-function":                `_.out(function() {}); return {};`,
	"out-getter-throws":           `_.out({get a() { throw new Error("no"); }}); return {};`,
	"reference-error":             `nosuch.x = 1; return {};`,
	"syntax-error":                `return {;`,
	"type-error-in-return":        `return null.x;`,
}

var c11ExitOrder = []string{"return-bindings", "return-null", "return-nothing", "return-scalar", "return-array", "return-after-emitting", "throw-string", "throw-error", "throw-object", "throw-tostring-throws", "return-getter-throws", "return-nested-getter-throws", "return-function-member", "out-function", "out-getter-throws", "reference-error", "syntax-error", "type-error-in-return"}

func c11Exit(cs c11ExitCase) (out [][2]string) {
	src := c11Exits[cs.Exit]
	interp := ecmascript.NewInterpreter()
	var compiled interface{}
	var spec *core.Spec
	switch cs.Via {
	case "exec-compiled":
		x, err := interp.Compile(context.Background(), src)
		if err != nil {
			return nil // a script that does not compile has no compiled form
		}
		compiled = x
	case "walk-action", "walk-guard":
		as := &core.ActionSource{Interpreter: "ecmascript", Source: src}
		spec = &core.Spec{Name: "t", ActionErrorNode: "errh", Nodes: map[string]*core.Node{
			"start": {Branches: &core.Branches{Type: "message", Branches: []*core.Branch{{Pattern: map[string]interface{}{"go": "?g"}, Target: "act"}}}},
			"done":  {}, "errh": {}}}
		if cs.Via == "walk-action" {
			spec.Nodes["act"] = &core.Node{ActionSource: as, Branches: &core.Branches{Branches: []*core.Branch{{Target: "done"}}}}
		} else {
			spec.Nodes["act"] = &core.Node{Branches: &core.Branches{Type: "bindings", Branches: []*core.Branch{{GuardSource: as, Target: "done"}, {Target: "errh"}}}}
		}
		if err := spec.Compile(context.Background(), nil, true); err != nil {
			return nil
		}
	}
	time.Sleep(2 * time.Millisecond)
	before := goroutineIDs()
	ctx, cancel := context.Background(), context.CancelFunc(func() {})
	switch cs.Ctx {
	case "cancel-later":
		ctx, cancel = context.WithCancel(ctx)
	case "deadline-1h":
		ctx, cancel = context.WithTimeout(ctx, time.Hour)
	}
	defer cancel()
	for i := 0; i < cs.Reps; i++ {
		done := make(chan struct{})
		var pn bool
		var pm, where string
		go func() {
			defer close(done)
			pn, pm, where = vh.Trap(func() {
				if spec != nil {
					spec.Walk(ctx, &core.State{NodeName: "start", Bs: match.NewBindings()}, []interface{}{map[string]interface{}{"go": 1.0}}, &core.Control{Limit: 10}, nil)
					return
				}
				interp.Exec(ctx, match.Bindings{"a": 1.0}, nil, src, compiled)
			})
		}()
		select {
		case <-done:
		case <-time.After(60 * time.Second):
			return [][2]string{{"execution-that-ends-by-itself-does-not-return", fmt.Sprintf("execution %d did not return within 60 s", i+1)}}
		}
		if pn {
			return [][2]string{{"panic/" + where, pm}}
		}
	}
	// the context is still alive: whatever waits for it would wait for ever
	leakedNow := func() int {
		n := 0
		for id := range goroutineIDs() {
			if !before[id] {
				n++
			}
		}
		return n
	}
	deadline := time.Now().Add(10 * time.Second)
	for leakedNow() > 0 {
		if time.Now().After(deadline) {
			out = append(out, [2]string{"goroutine-outlives-the-call", fmt.Sprintf("%d goroutine(s) started during %d execution(s) are still alive 10 s after the last one returned, while the context is alive", leakedNow(), cs.Reps)})
			break
		}
		time.Sleep(2 * time.Millisecond)
	}
	// ending the context afterwards must be uneventful (no late interrupt into a finished execution that panics)
	if pn, pm, where := vh.Trap(func() { cancel(); time.Sleep(2 * time.Millisecond) }); pn {
		out = append(out, [2]string{"panic-on-late-cancel/" + where, pm})
	}
	return
}

func C11(c *vh.Ctx) {
	ex := func(cs c11ExitCase) {
		c.InFlight(cs)
		c.Eval()
		c.Nontrivial()
		for _, v := range c11Exit(cs) {
			c.Violation(fmt.Sprintf("C11/%s/exit-%s/via-%s", v[0], cs.Exit, cs.Via), fmt.Sprintf("%+v: %s", cs, v[1]), cs)
		}
	}
	one := func(cs c11Case) {
		c.InFlight(cs)
		c.Eval()
		c.Nontrivial()
		vs := c11Run(cs)
		c.Outcome("c11", fmt.Sprint(len(vs)))
		for _, v := range vs {
			c.Violation(fmt.Sprintf("C11/%s/%s-%s/mode-%s/parent-%s", v[0], cs.Where, cs.Shape, cs.Mode, cs.Parent), fmt.Sprintf("%+v: %s", cs, v[1]), cs)
		}
	}
	by := func(cs c11ByCase) {
		c.InFlight(cs)
		c.Eval()
		c.Nontrivial()
		for _, v := range c11Bystander(cs) {
			c.Violation(fmt.Sprintf("C11/%s/bystander-%s/victim-%s", v[0], cs.Kind, cs.Victim), fmt.Sprintf("%+v: %s", cs, v[1]), cs)
		}
	}
	if c.Replay != "" {
		var ec c11ExitCase
		if c.LoadReplay(&ec) == nil && ec.Exit != "" {
			ex(ec)
			return
		}
		var bc c11ByCase
		if c.LoadReplay(&bc) == nil && bc.Kind != "" {
			by(bc)
			return
		}
		var cs c11Case
		if c.LoadReplay(&cs) == nil {
			one(cs)
		}
		return
	}
	K := c.Pick(4, 16)
	deadlines := []int{1, 5, 50}
	if !c.Quick() {
		deadlines = append(deadlines, 300)
	}
	c.Bound("cancel_at_tick_max", K)
	c.Bound("deadlines_ms", deadlines)
	c.Rule("script shapes {while(true), counting for, unbounded recursion, array push, string concatenation, property read/write, nested calls in a loop, a loop in the toString of a thrown object, in a getter of the returned object, in the message getter of a thrown Error}, with and without a harness tick in the loop body, as action, as guard, and as action plus the guard of the branch that handles the action's failure x cancellation {context already cancelled, deadline already expired, cancel delivered at tick k for k=1..K (with and without a far deadline in the context's ancestry), real deadlines} x error routing {none, ActionErrorNode, ActionErrorBranches} x n in {1,2,4} concurrent executions with independent contexts; oracle: the walk returns (90 s horizon), the script makes no more than a (very large) number of ticks after its context is done, the result is the timeout error routed like any action error, and every goroutine started during the call is gone afterwards (10 s grace). Bystander family: while one execution keeps running under a context that is never cancelled, a second execution on the same interpreter (source text compiled by Exec itself, or one shared compiled program) or on the same compiled spec, whose context is already cancelled / already expired / cancelled at its second tick / expires after 5 ms, must stop while the first is still running (the first gives up after 10^7 ticks, which is then a violation); the same with five never-cancelled executions on two processors (more executions than processors), and with the shared spec compiled again (unforced) by the host while the first execution runs. Exit-path family: executions that end by themselves on each of 18 exit paths (results of every kind, exceptions of every kind, a result or an emitted value whose getter throws, reference/syntax/type errors) through Exec (source, compiled) and Walk (action, guard), 1 or 3 in a row, under a context that stays alive (background, cancellable, far deadline): no goroutine started for them is alive afterwards (10 s grace) while the context lives, and ending the context afterwards is uneventful. 'Promptly' in milliseconds is not decided.")
	var idx uint64
	for _, exit := range c11ExitOrder {
		for _, via := range []string{"exec-source", "exec-compiled", "walk-action", "walk-guard"} {
			for _, cx := range []string{"background", "cancel-later", "deadline-1h"} {
				for _, reps := range []int{1, 3} {
					idx++
					if c.Mine(idx) && !c.Expired() {
						ex(c11ExitCase{Exit: exit, Via: via, Ctx: cx, Reps: reps})
					}
				}
			}
		}
	}
	for _, kind := range []string{"exec-source", "exec-compiled", "walk-shared-spec"} {
		for _, victim := range []string{"cancelled", "expired", "tick", "deadline"} {
			idx++
			if c.Mine(idx) && !c.Expired() {
				by(c11ByCase{Kind: kind, Victim: victim})
			}
			idx++
			if c.Mine(idx) && !c.Expired() {
				by(c11ByCase{Kind: kind, Victim: victim, Holders: 5})
			}
			if kind == "walk-shared-spec" {
				idx++
				if c.Mine(idx) && !c.Expired() {
					by(c11ByCase{Kind: kind, Victim: victim, Recompile: true})
				}
			}
		}
	}
	for _, shape := range c11ShapeOrder {
		for _, ticks := range []bool{true, false} {
			for _, where := range []string{"action", "guard", "action+errguard"} {
				var modes []c11Case
				modes = append(modes, c11Case{Mode: "cancelled"}, c11Case{Mode: "expired"}, c11Case{Mode: "cancelled", Parent: "deadline-1h"})
				if ticks {
					for k := 1; k <= K; k++ {
						modes = append(modes, c11Case{Mode: "tick", K: k})
						if k <= 2 || !c.Quick() {
							modes = append(modes, c11Case{Mode: "tick", K: k, Parent: "deadline-1h"})
						}
					}
				}
				for _, d := range deadlines {
					if shape == "recursion" && d > 50 {
						continue // unbounded recursion for hundreds of ms is unbounded memory
					}
					modes = append(modes, c11Case{Mode: "deadline", K: d})
				}
				for _, m := range modes {
					for _, routing := range []string{"none", "aen", "aeb"} {
						for _, n := range []int{1, 2, 4} {
							if c.Quick() && (routing != "none" && n != 1) {
								continue
							}
							idx++
							if !c.Mine(idx) || c.Expired() {
								continue
							}
							cs := m
							cs.Shape, cs.Ticks, cs.Where, cs.Routing, cs.N = shape, ticks, where, routing, n
							one(cs)
							if c.WantSample() && cs.Mode == "tick" {
								c.Sample(cs)
							}
						}
					}
				}
			}
		}
	}
}
