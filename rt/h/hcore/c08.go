package hcore

import (
	"context"
	"encoding/json"
	"fmt"

	"github.com/Comcast/sheens/core"
	"github.com/Comcast/sheens/crew"
	"github.com/Comcast/sheens/sio"
	"github.com/Comcast/sheens/verifrt/actlang"
	"github.com/Comcast/sheens/verifrt/ref/rstep"
	"github.com/Comcast/sheens/verifrt/tickctx"
	"github.com/Comcast/sheens/verifrt/vh"
)

// c08Case: program P placed as action at position Pos (1..3) or as guard (Pos 0) in a chain of three emitting actions.
type c08Case struct {
	Prog    *actlang.Prog `json:"prog"`
	Pos     int           `json:"pos"`
	Routing string        `json:"routing"`         // none | aen | aeb
	Via     string        `json:"via"`             // walk | crew
	Shape   int           `json:"shape,omitempty"` // what "emit m2" emits: index into c08Shapes
	// Perm: the machine carries permanent bindings (which the engine puts back after every action - without losing
	// what the action emitted)
	Perm bool `json:"perm,omitempty"`
}

// what an action may emit: anything JSON; a message is a message whatever its content
var c08Shapes = []interface{}{
	M{"m": 2.0},
	M{"emit": M{"m": 2.0}},
	M{"to": "nobody", "m": 2.0},
	M{"to": []interface{}{"nobody", "m"}, "emit": true},
	"a string",
	7.0,
	[]interface{}{1.0, "a", M{"k": nil}},
	M{},
	M{"m": M{"deep": []interface{}{1.0, M{"x": nil}}}, "error": "not an error", "actionError": 1.0},
	true,
	// addressed to the host's own service machines (nothing they act upon): still just an emitted message
	M{"to": "captain", "note": "not an operation"},
	M{"to": "timers", "note": "not a request"},
	M{"to": []interface{}{"captain", "nobody"}, "m": 2.0},
}

// shaped returns the program with every "emit m2" emitting the shape instead.
func shaped(p *actlang.Prog, shape int) *actlang.Prog {
	if shape == 0 || p == nil {
		return p
	}
	q := &actlang.Prog{Native: p.Native}
	for _, o := range p.Ops {
		if o.K == actlang.Emit && rstep.Canon(o.V) == rstep.Canon(M{"m": 2.0}) {
			o.V = clone(c08Shapes[shape])
		}
		q.Ops = append(q.Ops, o)
	}
	return q
}

func c08Programs(maxLen int) []*actlang.Prog {
	nonterm := []Op{{K: actlang.Emit, V: M{"m": 1.0}}, {K: actlang.Emit, V: M{"m": 2.0}}, {K: actlang.Set, A: "x", V: 1.0}}
	terms := []Op{{K: actlang.Throw}, {K: actlang.ThrowVal, A: "object"}, {K: actlang.ThrowVal, A: "error"}, {K: actlang.ThrowVal, A: "null"}, {K: actlang.RetScalar}, {K: actlang.RetArray}, {K: actlang.Spin}, {K: actlang.EmitBad, A: "nan"}, {K: actlang.RetNull},
		// endings that succeed while replacing the bindings wholesale (what was emitted before them counts)
		{K: actlang.RetFresh, V: M{"fresh": true}}, {K: actlang.RetFresh, V: M{"next": "a3", "conf!": "other"}}, {K: actlang.RetEmpty}}
	var out []*actlang.Prog
	var prefixes [][]Op
	level := [][]Op{{}}
	for l := 0; l <= maxLen; l++ {
		prefixes = append(prefixes, level...)
		var nl [][]Op
		for _, p := range level {
			for _, o := range nonterm {
				nl = append(nl, append(append([]Op{}, p...), o))
			}
		}
		level = nl
	}
	for _, p := range prefixes {
		out = append(out, &actlang.Prog{Ops: p})
		if len(p) < maxLen {
			for _, t := range terms {
				out = append(out, &actlang.Prog{Ops: append(append([]Op{}, p...), t)})
			}
		}
	}
	return out
}

func c08Spec(cs c08Case) *rstep.ASpec {
	def := func(i int, next string) *actlang.Prog {
		ops := []Op{{K: actlang.Emit, V: M{"ok": float64(i)}}}
		if next != "" {
			ops = append(ops, Op{K: actlang.Set, A: "next", V: next})
		}
		return &actlang.Prog{Ops: ops}
	}
	acts := []*actlang.Prog{nil, def(1, "a3"), def(2, "done"), def(3, "")}
	var guard *actlang.Prog
	if cs.Pos == 0 {
		guard = shaped(cs.Prog, cs.Shape)
	} else {
		acts[cs.Pos] = shaped(cs.Prog, cs.Shape)
	}
	br := func(g *actlang.Prog, target string) []rstep.ABranch {
		var l []rstep.ABranch
		if cs.Routing == "aeb" {
			l = append(l, rstep.ABranch{Pattern: M{"actionError": "?e"}, Target: "errh"})
		}
		return append(l, rstep.ABranch{Guard: g, Target: target})
	}
	as := &rstep.ASpec{Nodes: map[string]*rstep.ANode{
		"start": {Type: "message", Branches: []rstep.ABranch{{Pattern: M{"go": "?g"}, Target: "a1"}}},
		"a1":    {Action: acts[1], Branches: br(nil, "a2")},
		"a2":    {Action: acts[2], Branches: br(guard, "a3")},
		"a3":    {Action: acts[3], Branches: br(nil, "done")},
		"done":  {NoBranches: true},
		"errh": {Action: &actlang.Prog{Ops: []Op{{K: actlang.Emit, V: M{"handled": 1.0}}, {K: actlang.Del, A: "actionError"}, {K: actlang.Del, A: "error"}, {K: actlang.Del, A: "?e"}}},
			Branches: []rstep.ABranch{{Target: "@next"}}},
	}}
	switch cs.Routing {
	case "aen":
		as.ActionErrorNode = "errh"
	case "aeb":
		as.ActionErrorBranches = true
	}
	return as
}

type nullCouplings struct {
	in  chan interface{}
	out chan *sio.Result
}

func (n *nullCouplings) Start(context.Context) error { return nil }
func (n *nullCouplings) IO(context.Context) (chan interface{}, chan *sio.Result, error) {
	return n.in, n.out, nil
}
func (n *nullCouplings) Read(context.Context) (map[string]*crew.Machine, error) { return nil, nil }
func (n *nullCouplings) Stop(context.Context) error                             { return nil }

func c08Run(cs c08Case) (clause, detail string, emits int) {
	as := c08Spec(cs)
	start := M{"next": "a2"}
	if cs.Perm {
		start = M{"next": "a2", "conf!": "tacos", "keep!": M{"k": []interface{}{1.0}}}
	}
	msgs := []interface{}{M{"go": 1.0}}
	rw, ok := as.Walk("start", start, msgs, 100, "")
	if !ok {
		return "", "", 0
	}
	var want []interface{}
	for _, s := range rw.Strides {
		want = append(want, s.Out.Emitted...)
	}
	ctx := tickctx.New(context.Background(), 3)
	defer ctx.Cancel()
	var got []interface{}
	if cs.Via == "walk" {
		spec, err := as.Build()
		if err != nil {
			return "compile-failed", err.Error(), 0
		}
		o := doWalkCtx(ctx, spec, "start", start, msgs, 100, "")
		if o.Panicked {
			return "panic/" + o.Where, o.PMsg, 0
		}
		if o.Err != nil {
			return "walk-error", o.Err.Error(), 0
		}
		got = emittedOf(o.W)
		// per-stride: the emitting strides are exactly the reference's
		if len(o.W.Strides) == len(rw.Strides) {
			for i, s := range o.W.Strides {
				if rstep.Canon(nz(s.Emitted)) != rstep.Canon(nz(rw.Strides[i].Out.Emitted)) {
					return "stride-emitted", fmt.Sprintf("stride %d (from %s) emitted %s; only successfully completed actions may contribute: %s", i, s.From.NodeName, rstep.Canon(nz(s.Emitted)), rstep.Canon(nz(rw.Strides[i].Out.Emitted))), len(want)
				}
			}
		}
	} else {
		nc := &nullCouplings{in: make(chan interface{}, 8), out: make(chan *sio.Result, 8)}
		c, err := sio.NewCrew(ctx, &sio.CrewConf{Id: "t", Ctl: &core.Control{Limit: 100}}, nc)
		if err != nil {
			return "crew-error", err.Error(), 0
		}
		if err := c.SetMachine(ctx, "m", &crew.SpecSource{Inline: as.Raw()}, &core.State{NodeName: "start", Bs: cloneM(start)}); err != nil {
			return "crew-setmachine", err.Error(), 0
		}
		var r *sio.Result
		if p, pm, where := vh.Trap(func() { r, err = c.ProcessMsg(ctx, M{"go": 1.0, "to": "m"}) }); p {
			return "panic/" + where, pm, 0
		}
		if err != nil {
			return "crew-process-error", err.Error(), 0
		}
		for _, batch := range r.Emitted {
			got = append(got, batch...)
		}
	}
	if rstep.Canon(nz(got)) != rstep.Canon(nz(want)) {
		return "emitted-" + cs.Via, fmt.Sprintf("emitted %s; the successfully completed actions emitted %s", rstep.Canon(nz(got)), rstep.Canon(nz(want))), len(want)
	}
	return "", "", len(want)
}

// c08LongCascade: what a crew reports for a long cascade of re-injected emissions (one emission per walk, also
// two per walk, plus a machine that emits and then fails): batch by batch exactly what each walk emitted.
func c08LongCascade(c *vh.Ctx) {
	mk := func(src string) *core.Spec {
		return &core.Spec{Name: "cascade", Nodes: map[string]*core.Node{
			"start": {Branches: &core.Branches{Type: "message", Branches: []*core.Branch{{Pattern: map[string]interface{}{"tick": "?n"}, Target: "act"}}}},
			"act":   {ActionSource: &core.ActionSource{Interpreter: "ecmascript", Source: src}, Branches: &core.Branches{Branches: []*core.Branch{{Target: "start"}}}},
		}}
	}
	one := `var n = _.bindings["?n"]; if (n > 0) { _.out({to: "m", tick: n - 1}); } return {};`
	two := `var n = _.bindings["?n"]; if (n > 0) { _.out({to: "m", tick: n - 1}); _.out({to: "nobody", note: n}); } return {};`
	failing := `var n = _.bindings["?n"]; _.out({to: "m", tick: 99, from: "the machine that fails"}); throw "boom";`
	for _, variant := range []string{"one", "two"} {
		for _, n := range []int{3, 10, 17, 33, 40, 70, 130} {
			c.Eval()
			c.Nontrivial()
			src := one
			if variant == "two" {
				src = two
			}
			ctx := context.Background()
			nc := &nullCouplings{in: make(chan interface{}, 8), out: make(chan *sio.Result, 8)}
			cr, err := sio.NewCrew(ctx, &sio.CrewConf{Id: "t", Ctl: &core.Control{Limit: 100}}, nc)
			if err != nil {
				c.NotExhaustive("crew: " + err.Error())
				return
			}
			cr.SetMachine(ctx, "m", &crew.SpecSource{Inline: mk(src)}, nil)
			cr.SetMachine(ctx, "f", &crew.SpecSource{Inline: mk(failing)}, nil)
			var r *sio.Result
			if p, pm, where := vh.Trap(func() { r, err = cr.ProcessMsg(ctx, M{"to": []interface{}{"m", "f"}, "tick": float64(n)}) }); p {
				c.Violation("C08/panic/long-cascade/"+where, pm, M{"long_cascade": variant, "n": n})
				continue
			}
			if err != nil {
				c.Violation("C08/long-cascade-error", err.Error(), M{"long_cascade": variant, "n": n})
				continue
			}
			var want [][]interface{}
			for k := n - 1; k >= 0; k-- {
				b := []interface{}{M{"to": "m", "tick": float64(k)}}
				if variant == "two" {
					b = append(b, M{"to": "nobody", "note": float64(k + 1)})
				}
				want = append(want, b)
			}
			got := rstep.Canon(r.Emitted)
			wantS := rstep.Canon(want)
			if got != wantS {
				c.Violation("C08/emitted-crew/long-cascade-"+variant, fmt.Sprintf("a cascade of %d walks (%s emission(s) per walk, next to a machine that emits and then fails): the crew reported %s; the walks emitted, batch by batch, %s", n, variant, clipStr(got, 400), clipStr(wantS, 400)), M{"long_cascade": variant, "n": n})
			}
		}
	}
}

func clipStr(s string, n int) string {
	if len(s) > n {
		return s[:n] + "..."
	}
	return s
}

func c08One(c *vh.Ctx, cs c08Case) {
	c.Eval()
	clause, detail, n := c08Run(cs)
	fails := cs.Prog.Model(M{}).Err
	hasEmit := false
	for _, o := range cs.Prog.Ops {
		if o.K == actlang.Emit {
			hasEmit = true
		}
	}
	if fails && hasEmit {
		c.Nontrivial() // the interesting class: emits, then fails
	}
	c.Outcome("emitted-count", fmt.Sprint(n))
	if clause == "" {
		return
	}
	if c2, _, _ := c08Run(cs); c2 != clause {
		c.Count("unreproduced", 1)
		c.NotExhaustive("a violation did not reproduce; not reported")
		c.Note(fmt.Sprintf("unreproduced: %s %s :: %s %s", cs.Prog, rstep.Canon(vhJSON(cs)), clause, detail))
		return
	}
	pos := "guard"
	if cs.Pos > 0 {
		pos = "action"
	}
	last := "completes"
	if len(cs.Prog.Ops) > 0 && fails {
		last = cs.Prog.Ops[len(cs.Prog.Ops)-1].K
	}
	c.Violation(fmt.Sprintf("C08/%s/%s-ending-in-%s/routing-%s", clause, pos, last, cs.Routing), detail, cs)
}

// c08Snapshots: what is reported is what was emitted - a message is the value it had when _.out was called, whatever
// the script does to that value (or to what it was built from) afterwards.
func c08Snapshots(c *vh.Ctx) {
	cases := []struct {
		name, src string
		want      []interface{}
	}{
		{"bindings-value-by-reference", `_.out({order: _.bindings.o}); _.bindings.o.state = "packed"; _.out({order: _.bindings.o}); _.bindings.o.state = "shipped"; _.out({order: _.bindings.o}); return _.bindings;`,
			[]interface{}{M{"order": M{"state": "new"}}, M{"order": M{"state": "packed"}}, M{"order": M{"state": "shipped"}}}},
		{"local-object", `var m = {n: 1}; _.out(m); m.n = 2; _.out(m); m.extra = [1]; return _.bindings;`, []interface{}{M{"n": 1.0}, M{"n": 2.0}}},
		{"local-array", `var a = [1]; _.out({a: a}); a.push(2); _.out({a: a}); a.length = 0; return _.bindings;`, []interface{}{M{"a": []interface{}{1.0}}, M{"a": []interface{}{1.0, 2.0}}}},
		{"the-bindings-themselves", `_.out(_.bindings); _.bindings.later = true; delete _.bindings.o; return _.bindings;`, []interface{}{M{"o": M{"state": "new"}, "l": []interface{}{1.0}}}},
		// (elements are assigned, not pushed: what push does to an array that belongs to the host is the interpreter's
		// business, not a question of emission)
		{"bindings-array-by-reference", `_.out({l: _.bindings.l}); _.bindings.l[0] = 9; _.out({l: _.bindings.l}); _.bindings.l[0] = 7; return _.bindings;`, []interface{}{M{"l": []interface{}{1.0}}, M{"l": []interface{}{9.0}}}},
		{"edit-then-fail", `_.out({order: _.bindings.o}); _.bindings.o.state = "packed"; throw "no";`, nil},
		// what is returned is a promise that ends up rejected - with an object, which looks like bindings: the action
		// did not complete successfully, whatever the interpreter makes of promises
		{"rejected-promise-object", `_.out({a: 1}); return Promise.reject({code: 42});`, nil},
		{"async-throws-error", `return (async function() { _.out({a: 2}); throw new Error("boom"); })();`, nil},
		{"async-type-error", `return (async function() { _.out({a: 3}); var n = null; return n.x; })();`, nil},
		{"async-throws-object", `return (async function() { _.out({a: 4}); throw {code: 42, to: "x"}; })();`, nil},
	}
	// one action that emits very many messages: all of them are reported, in order
	for _, n := range []int{1000, 1025, 1501, 5000} {
		var want []interface{}
		for i := 0; i < n; i++ {
			want = append(want, M{"i": float64(i)})
		}
		cases = append(cases, struct {
			name, src string
			want      []interface{}
		}{fmt.Sprintf("many-emissions-%d", n), fmt.Sprintf(`for (var i = 0; i < %d; i++) { _.out({i: i}); } return _.bindings;`, n), want})
	}
	for _, tc := range cases {
		for _, via := range []string{"walk", "crew"} {
			c.Eval()
			c.Nontrivial()
			spec := &core.Spec{Name: "snap", Nodes: map[string]*core.Node{
				"start": {Branches: &core.Branches{Type: "message", Branches: []*core.Branch{{Pattern: M{"go": "?g"}, Target: "act"}}}},
				"act":   {ActionSource: &core.ActionSource{Interpreter: "ecmascript", Source: "delete _.bindings[\"?g\"];\n" + tc.src}, Branches: &core.Branches{Branches: []*core.Branch{{Target: "start"}}}}}}
			start := M{"o": M{"state": "new"}, "l": []interface{}{1.0}}
			var got []interface{}
			if via == "walk" {
				if err := spec.Compile(context.Background(), nil, true); err != nil {
					c.NotExhaustive("snapshot spec does not compile: " + err.Error())
					return
				}
				o := doWalk(spec, "start", start, []interface{}{M{"go": 1.0}}, 10, "")
				if o.Panicked {
					c.Violation("C08/panic/"+o.Where, o.PMsg, map[string]interface{}{"snapshots": tc.name})
					continue
				}
				if o.W != nil {
					got = emittedOf(o.W)
				}
			} else {
				nc := &nullCouplings{in: make(chan interface{}, 8), out: make(chan *sio.Result, 8)}
				cr, err := sio.NewCrew(context.Background(), &sio.CrewConf{Id: "t", Ctl: &core.Control{Limit: 100}}, nc)
				if err != nil {
					continue
				}
				if err := cr.SetMachine(context.Background(), "m", &crew.SpecSource{Inline: spec}, &core.State{NodeName: "start", Bs: cloneM(start)}); err != nil {
					continue
				}
				r, err := cr.ProcessMsg(context.Background(), M{"go": 1.0, "to": "m"})
				if err != nil {
					continue
				}
				for _, batch := range r.Emitted {
					got = append(got, batch...)
				}
			}
			if rstep.Canon(nz(got)) != rstep.Canon(nz(tc.want)) {
				c.Violation("C08/emitted-is-not-what-was-emitted/"+tc.name+"/"+via, fmt.Sprintf("the action `%s` (bindings %s) is reported to have emitted %s; it emitted %s", tc.src, rstep.Canon(start), rstep.Canon(nz(got)), rstep.Canon(nz(tc.want))), map[string]interface{}{"snapshots": tc.name})
			}
		}
	}
}

// C08: emission is atomic.
func C08(c *vh.Ctx) {
	if c.Replay != "" {
		var probe struct {
			Long string `json:"long_cascade"`
		}
		if c.LoadReplay(&probe) == nil && probe.Long != "" {
			c08LongCascade(c)
			return
		}
		var sprobe struct {
			Snapshots string `json:"snapshots"`
		}
		if c.LoadReplay(&sprobe) == nil && sprobe.Snapshots != "" {
			c08Snapshots(c)
			return
		}
		var cs c08Case
		if c.LoadReplay(&cs) == nil {
			c08One(c, cs)
		}
		return
	}
	if c.Shard == 0 {
		c08LongCascade(c)
	}
	if c.Shard == 1 || c.Shards == 1 {
		c08Snapshots(c)
	}
	maxLen := c.Pick(4, 5)
	progs := c08Programs(maxLen)
	c.Bound("program_ops_max", maxLen)
	if c.Shard == 0 {
		c.Count("programs", int64(len(progs)))
	}
	c.Rule("every ECMAScript program = prefix over {emit m1, emit m2, set} (for programs of up to 3 operations m2 also ranges over 13 message shapes: maps with an emit / to / error key, messages addressed to the host's captain and timers machines, strings, numbers, arrays, empty and nested maps, booleans) (any order, up to the bound) optionally ended by one of {throw a string, throw an object with properties, throw an Error, throw null, return scalar, return array, loop until cancelled (cancel delivered at tick 3 through the harness context), emit an unserialisable value, return null, return fresh bindings, return empty bindings}; placed as the action at position 1, 2 or 3 of a chain of three emitting actions, or as the guard between them; error routing none / ActionErrorNode / ActionErrorBranches (the handler emits and resumes the chain); observed through Spec.Walk (per-stride Emitted and DoEmitted) and through sio.Crew.ProcessMsg (Result.Emitted); oracle: emitted == concatenation of the emits of the successfully completed actions in execution order; every case also for a machine that carries permanent bindings. Plus actions that go on editing what they have emitted (a value taken from the bindings, a local object, an array, the bindings themselves): each reported message is the value at the moment of its _.out; and actions that emit and return a promise that is rejected with an object (async functions that throw) report nothing; and one action emitting 1000 / 1025 / 1501 / 5000 messages reports all of them in order. Plus long cascades through a crew (3 to 130 walks, one or two emissions per walk, next to a machine that emits and then fails): Result.Emitted must be, batch by batch, what each walk emitted. non-trivial = program emits and then fails.")
	var idx uint64
	for _, p := range progs {
		for pos := 0; pos <= 3; pos++ {
			for _, routing := range []string{"none", "aen", "aeb"} {
				for _, via := range []string{"walk", "crew"} {
					idx++
					if !c.Mine(idx) {
						continue
					}
					if c.Expired() {
						return
					}
					if routing != "none" && len(p.Ops) > 0 && p.Ops[len(p.Ops)-1].K == actlang.Spin {
						// after the cancellation every later action of the walk runs under a dead
						// context, where interruption races with completion: not a deterministic case
						continue
					}
					cs := c08Case{Prog: p, Pos: pos, Routing: routing, Via: via}
					c08One(c, cs)
					cs.Perm = true
					c08One(c, cs)
					cs.Perm = false
					emitsM2 := false
					for _, o := range p.Ops {
						if o.K == actlang.Emit && rstep.Canon(o.V) == rstep.Canon(M{"m": 2.0}) {
							emitsM2 = true
						}
					}
					if emitsM2 && len(p.Ops) <= 3 {
						for sh := 1; sh < len(c08Shapes); sh++ {
							cs.Shape = sh
							c08One(c, cs)
						}
						cs.Shape = 0
					}
					if c.WantSample() && len(p.Ops) == maxLen && pos == 2 && p.Model(M{}).Err {
						c.Sample(cs)
					}
				}
			}
		}
	}
}

func vhJSON(x interface{}) interface{} {
	b, _ := json.Marshal(x)
	var y interface{}
	json.Unmarshal(b, &y)
	return y
}
