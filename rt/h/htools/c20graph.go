package htools

import (
	"fmt"
	"regexp"
	"sort"
	"strconv"
	"strings"

	"github.com/Comcast/sheens/core"
)

// dotFaithful parses a Dot rendering with the grammar of the dot language (dotparse.go) and decides
// whether it is the spec graph: there must be a one-to-one correspondence g between (spec nodes and
// branch targets that are not spec nodes) and the identifiers of the rendering such that every spec node
// has exactly one node statement whose label shows its name, other targets have at most one (a
// placeholder), and the multiset of edges is the image of the multiset of branches.  No convention for
// quoting identifiers is assumed: g is searched for.
func dotFaithful(spec *core.Spec, branches [][2]string, text string) [2]string {
	nodes, edges, err := dotParse(text)
	if err != nil {
		return [2]string{"dot-unparsable", fmt.Sprintf("the rendering is not a dot graph: %v", err)}
	}
	stmtCount := map[string]int{}
	label := map[string]string{}
	ids := map[string]bool{}
	for _, n := range nodes {
		stmtCount[n.From]++
		ids[n.From] = true
		if l, have := n.Attrs["label"]; have {
			if l.kind == "html" {
				t, err := htmlText(l.text)
				if err != nil {
					return [2]string{"dot-bad-label", fmt.Sprintf("node %q has a label that is not well-formed: %v", n.From, err)}
				}
				label[n.From] = t
			} else {
				label[n.From] = l.text
			}
		} else {
			label[n.From] = n.From
		}
	}
	for _, e := range edges {
		ids[e.From], ids[e.To] = true, true
		if l, have := e.Attrs["label"]; have && l.kind == "html" {
			if _, err := htmlText(l.text); err != nil {
				return [2]string{"dot-bad-label", fmt.Sprintf("edge %q -> %q has a label that is not well-formed: %v", e.From, e.To, err)}
			}
		}
	}
	var ents []string
	isNode := map[string]bool{}
	for name := range spec.Nodes {
		ents = append(ents, name)
		isNode[name] = true
	}
	seenT := map[string]bool{}
	for _, b := range branches {
		if !isNode[b[1]] && !seenT[b[1]] {
			seenT[b[1]] = true
			ents = append(ents, b[1])
		}
	}
	sort.Strings(ents)
	var idl []string
	for id := range ids {
		idl = append(idl, id)
	}
	sort.Strings(idl)
	describe := func() string {
		var ns, es []string
		for _, n := range nodes {
			ns = append(ns, strconv.Quote(n.From))
		}
		for _, e := range edges {
			es = append(es, strconv.Quote(e.From)+"->"+strconv.Quote(e.To))
		}
		sort.Strings(es)
		var bs []string
		for _, b := range branches {
			bs = append(bs, strconv.Quote(b[0])+"->"+strconv.Quote(b[1]))
		}
		sort.Strings(bs)
		return fmt.Sprintf("drawn: node statements %v, edges %v; spec: nodes %q, branches %v", ns, es, ents, bs)
	}
	if len(idl) != len(ents) {
		return [2]string{"dot-node-count", fmt.Sprintf("%d identifiers for %d nodes and targets; %s", len(idl), len(ents), describe())}
	}
	wantEdges := func(g map[string]string) string {
		var es []string
		for _, b := range branches {
			es = append(es, g[b[0]]+"\x00"+g[b[1]])
		}
		sort.Strings(es)
		return strings.Join(es, "\x01")
	}
	var ges []string
	for _, e := range edges {
		ges = append(ges, e.From+"\x00"+e.To)
	}
	sort.Strings(ges)
	gotEdges := strings.Join(ges, "\x01")
	ok := func(g map[string]string) bool {
		for e, id := range g {
			if isNode[e] {
				if stmtCount[id] != 1 || !strings.Contains(label[id], e) {
					return false
				}
			} else if stmtCount[id] > 1 {
				return false
			}
		}
		return wantEdges(g) == gotEdges
	}
	// the obvious correspondence first
	g := map[string]string{}
	direct := true
	for _, e := range ents {
		if !ids[e] {
			direct = false
			break
		}
		g[e] = e
	}
	if direct && ok(g) {
		return [2]string{}
	}
	// search
	used := make([]bool, len(idl))
	var rec func(i int) bool
	rec = func(i int) bool {
		if i == len(ents) {
			return ok(g)
		}
		for j, id := range idl {
			if used[j] {
				continue
			}
			if isNode[ents[i]] && (stmtCount[id] != 1 || !strings.Contains(label[id], ents[i])) {
				continue
			}
			used[j] = true
			g[ents[i]] = id
			if rec(i + 1) {
				return true
			}
			used[j] = false
		}
		return false
	}
	g = map[string]string{}
	if rec(0) {
		return [2]string{}
	}
	if len(edges) != len(branches) {
		return [2]string{"dot-edges", fmt.Sprintf("%d edges for %d branches; %s", len(edges), len(branches), describe())}
	}
	return [2]string{"dot-graph", "the rendering is not the spec graph under any correspondence of names; " + describe()}
}

var (
	merNodeStmt  = regexp.MustCompile(`(?s)^(n\d+)(?:\("(.*)"\)|\["(.*)"\])$`)
	merEdgeStmt  = regexp.MustCompile(`(?s)^(n\d+) (?:-- "([^"]*)")? ?--> (n\d+)$`)
	merStyleStmt = regexp.MustCompile(`^(style|class|classDef|linkStyle) \S.*$`)
	merEntity    = regexp.MustCompile(`#(\w+);`)
)

// merStatements splits a flowchart into statements: a newline ends a statement unless it is inside a
// double-quoted text.
func merStatements(text string) []string {
	var out []string
	var b strings.Builder
	inq := false
	for i := 0; i < len(text); i++ {
		c := text[i]
		if c == '"' {
			inq = !inq
		}
		if c == '\n' && !inq {
			out = append(out, b.String())
			b.Reset()
			continue
		}
		b.WriteByte(c)
	}
	if b.Len() > 0 {
		out = append(out, b.String())
	}
	return out
}

func merDecode(s string) string {
	return merEntity.ReplaceAllStringFunc(s, func(m string) string {
		e := m[1 : len(m)-1]
		switch e {
		case "quot":
			return `"`
		case "amp":
			return "&"
		case "lt":
			return "<"
		case "gt":
			return ">"
		case "apos":
			return "'"
		}
		if n, err := strconv.Atoi(e); err == nil && n > 0 && n < 0x10ffff {
			return string(rune(n))
		}
		return m
	})
}

// mermaidFaithful: every statement must be a node, an edge or a style statement of the flowchart
// grammar; the node texts (entities decoded) must be exactly the spec's node names plus one placeholder
// per other branch target, each once; the edges, read through the node ids, must be the branches.
func mermaidFaithful(spec *core.Spec, branches [][2]string, text string) [2]string {
	stmts := merStatements(text)
	if len(stmts) == 0 || !strings.HasPrefix(strings.TrimSpace(stmts[0]), "graph ") && !strings.HasPrefix(strings.TrimSpace(stmts[0]), "flowchart ") {
		return [2]string{"mermaid-unparsable", "the rendering does not start with a graph header"}
	}
	ids := map[string]string{}
	count := map[string]int{}
	var raw [][2]string
	for _, st := range stmts[1:] {
		st = strings.TrimSpace(st)
		if st == "" {
			continue
		}
		if m := merEdgeStmt.FindStringSubmatch(st); m != nil {
			raw = append(raw, [2]string{m[1], m[3]})
			continue
		}
		if m := merNodeStmt.FindStringSubmatch(st); m != nil {
			txt := m[2] + m[3]
			if strings.Contains(txt, `"`) {
				return [2]string{"mermaid-unparsable", fmt.Sprintf("a double quote inside the text of node statement %q", clip(st, 80))}
			}
			if _, dup := ids[m[1]]; dup {
				return [2]string{"mermaid-node-count", fmt.Sprintf("node id %s declared twice", m[1])}
			}
			name := merDecode(txt)
			ids[m[1]] = name
			count[name]++
			continue
		}
		if merStyleStmt.MatchString(st) {
			continue
		}
		return [2]string{"mermaid-unparsable", fmt.Sprintf("statement %q is neither a node, an edge nor a style statement", clip(st, 80))}
	}
	isNode := map[string]bool{}
	for name := range spec.Nodes {
		isNode[name] = true
		if count[name] != 1 {
			return [2]string{"mermaid-node-count", fmt.Sprintf("spec node %q drawn %d times (node texts: %q)", name, count[name], ids)}
		}
	}
	targeted := map[string]bool{}
	for _, b := range branches {
		targeted[b[1]] = true
	}
	for name, k := range count {
		if !isNode[name] && (!targeted[name] || k != 1) {
			return [2]string{"mermaid-stray-node", fmt.Sprintf("node %q (x%d) is neither a spec node nor a placeholder for a branch target", name, k)}
		}
	}
	var got, want []string
	for _, e := range raw {
		a, ha := ids[e[0]]
		b, hb := ids[e[1]]
		if !ha || !hb {
			return [2]string{"mermaid-edges", fmt.Sprintf("edge %s --> %s uses an undeclared node id", e[0], e[1])}
		}
		got = append(got, strconv.Quote(a)+"->"+strconv.Quote(b))
	}
	for _, b := range branches {
		want = append(want, strconv.Quote(b[0])+"->"+strconv.Quote(b[1]))
	}
	sort.Strings(got)
	sort.Strings(want)
	if strings.Join(got, ",") != strings.Join(want, ",") {
		return [2]string{"mermaid-edges", fmt.Sprintf("edges drawn %v; branches %v", got, want)}
	}
	return [2]string{}
}
