package htools

import (
	"bytes"
	"context"
	"encoding/json"
	"fmt"
	"io"
	"log"
	"sort"
	"strings"

	"github.com/Comcast/sheens/core"
	"github.com/Comcast/sheens/interpreters/noop"
	"github.com/Comcast/sheens/match"
	"github.com/Comcast/sheens/tools"
	"github.com/Comcast/sheens/verifrt/vh"
)

func init() { Checks["C20"] = C20 }

type gBranch struct {
	Target  string `json:"target"`
	Guard   string `json:"guard,omitempty"` // "" | native | ecmascript | goja
	Pattern bool   `json:"pattern,omitempty"`
	PatJS   string `json:"pattern_json,omitempty"` // a pattern of this JSON content instead of the plain one
}

type gNode struct {
	Action   string    `json:"action,omitempty"` // "" | native | ecmascript | goja
	Type     string    `json:"type,omitempty"`
	Branches []gBranch `json:"branches"`
	NoBr     bool      `json:"nobranching,omitempty"`
	EmptyBr  bool      `json:"emptybranchlist,omitempty"` // a branch list that is empty but not nil (as "branches": [] loads)
}

type c20Case struct {
	Nodes  map[string]gNode  `json:"nodes"`
	Rename map[string]string `json:"rename,omitempty"` // node name (also as branch target) -> the name actually used
}

func (cs c20Case) name(n string) string {
	if r, have := cs.Rename[n]; have {
		return r
	}
	return n
}

type nopCloser struct{ *bytes.Buffer }

func (nopCloser) Close() error { return nil }

var nativeAct = &core.FuncAction{F: func(ctx context.Context, bs match.Bindings, props core.StepProps) (*core.Execution, error) {
	return core.NewExecution(bs), nil
}}

// c20Sources: action and guard sources that are not strings - an interpreter is free to take structured
// source (the noop interpreter takes anything), and a document decoded by a YAML library gives maps with
// interface{} keys.  Kinds "src:<i>".
var c20Sources = []interface{}{
	map[interface{}]interface{}{"op": "emit", "args": []interface{}{1, map[interface{}]interface{}{2: "x"}}},
	map[string]interface{}{"op": "emit", "to": []interface{}{"<a>", "b&c"}},
	[]interface{}{"first", map[interface{}]interface{}{true: nil}},
	42.0,
	nil,
	true,
	map[string]interface{}{"f": func() {}},
	[]byte("bytes \"quoted\" <b>"),
	struct{ A int }{7},
	"if (a && b < c || d > e) { return \"<x> &amp; &\"; }\n// second line & more",
}

func c20Source(kind string) (interface{}, bool) {
	if !strings.HasPrefix(kind, "src:") {
		return nil, false
	}
	var i int
	fmt.Sscanf(kind, "src:%d", &i)
	if i < 0 || i >= len(c20Sources) {
		return nil, false
	}
	return c20Sources[i], true
}

func c20Build(cs c20Case) (*core.Spec, error) {
	// every generated spec carries the same Id and Name: nothing may be remembered under them
	spec := &core.Spec{Id: "the-only-id", Name: "g", Nodes: map[string]*core.Node{}}
	for name, gn := range cs.Nodes {
		n := &core.Node{}
		switch gn.Action {
		case "native":
			n.Action = nativeAct
		case "ecmascript", "goja":
			n.ActionSource = &core.ActionSource{Interpreter: gn.Action, Source: "return _.bindings;"}
		default:
			if src, ok := c20Source(gn.Action); ok {
				n.ActionSource = &core.ActionSource{Interpreter: "noop", Source: src}
			}
		}
		if !gn.NoBr {
			n.Branches = &core.Branches{Type: gn.Type}
			if gn.EmptyBr {
				n.Branches.Branches = []*core.Branch{}
			}
			for _, gb := range gn.Branches {
				b := &core.Branch{Target: cs.name(gb.Target)}
				if gb.Pattern {
					b.Pattern = map[string]interface{}{"a": 1.0}
				}
				if gb.PatJS != "" {
					var x interface{}
					if err := json.Unmarshal([]byte(gb.PatJS), &x); err != nil {
						return nil, err
					}
					b.Pattern = x
				}
				switch gb.Guard {
				case "native":
					b.Guard = nativeAct
				case "ecmascript", "goja":
					b.GuardSource = &core.ActionSource{Interpreter: gb.Guard, Source: "return _.bindings;"}
				default:
					if src, ok := c20Source(gb.Guard); ok {
						b.GuardSource = &core.ActionSource{Interpreter: "noop", Source: src}
					}
				}
				n.Branches.Branches = append(n.Branches.Branches, b)
			}
		}
		spec.Nodes[cs.name(name)] = n
	}
	np := noop.NewInterpreter()
	err := spec.Compile(context.Background(), core.InterpretersMap{"ecmascript": np, "goja": np, "noop": np}, true)
	return spec, err
}

func setOf(xs []string) string {
	ys := append([]string{}, xs...)
	sort.Strings(ys)
	return strings.Join(ys, ",")
}

// c20Check returns the violated clauses for one spec.
func c20Check(cs c20Case) [][2]string {
	spec, err := c20Build(cs)
	if err != nil {
		return nil // not a compilable specification
	}
	var out [][2]string
	// reference, straight from the graph (after compilation: the error node is part of it)
	var terminal, orphans, empties, missing, tvars []string
	interps := map[string]bool{}
	targeted := map[string]bool{}
	branches, actions, guards := 0, 0, 0
	var edges []string
	for name, n := range spec.Nodes {
		if n.Action != nil || n.ActionSource != nil {
			actions++
			if n.ActionSource != nil {
				interps[n.ActionSource.Interpreter] = true
			}
		}
		if n.Branches == nil || len(n.Branches.Branches) == 0 {
			terminal = append(terminal, name)
		}
		if n.Branches != nil {
			emptyHere := false
			for _, b := range n.Branches.Branches {
				branches++
				targeted[b.Target] = true
				edges = append(edges, name+"->"+b.Target)
				if b.Target == "" {
					emptyHere = true
				}
				if strings.HasPrefix(b.Target, "@") {
					tvars = append(tvars, b.Target)
				} else if _, have := spec.Nodes[b.Target]; !have {
					missing = append(missing, b.Target)
				}
				if b.Guard != nil || b.GuardSource != nil {
					guards++
					if b.GuardSource != nil {
						interps[b.GuardSource.Interpreter] = true
					}
				}
			}
			if emptyHere {
				empties = append(empties, name)
			}
		}
	}
	for name := range spec.Nodes {
		if !targeted[name] {
			orphans = append(orphans, name)
		}
	}
	uniq := func(xs []string) []string {
		m := map[string]bool{}
		var o []string
		for _, x := range xs {
			if !m[x] {
				m[x] = true
				o = append(o, x)
			}
		}
		return o
	}
	var il []string
	for i := range interps {
		il = append(il, i)
	}
	if len(il) == 0 {
		il = []string{"default"}
	}
	var a *tools.SpecAnalysis
	if p, pm, where := vh.Trap(func() { a, err = tools.Analyze(spec) }); p {
		out = append(out, [2]string{"analyze-panic/" + where, pm})
	} else if err != nil {
		out = append(out, [2]string{"analyze-error", err.Error()})
	} else {
		cmp := func(what string, got []string, want []string) {
			if setOf(uniq(got)) != setOf(uniq(want)) || len(got) != len(uniq(got)) {
				out = append(out, [2]string{"analysis-" + what, fmt.Sprintf("%s reported as %v; the graph has %v", what, got, uniq(want))})
			}
		}
		cmp("terminal-nodes", a.TerminalNodes, terminal)
		cmp("orphans", a.Orphans, orphans)
		cmp("empty-targets", a.EmptyTargets, empties)
		cmp("missing-targets", a.MissingTargets, missing)
		cmp("branch-target-variables", a.BranchTargetVariables, tvars)
		cmp("interpreters", a.Interpreters, il)
		if a.NodeCount != len(spec.Nodes) || a.Branches != branches || a.Actions != actions || a.Guards != guards {
			out = append(out, [2]string{"analysis-counts", fmt.Sprintf("counts nodes/branches/actions/guards reported %d/%d/%d/%d; the graph has %d/%d/%d/%d", a.NodeCount, a.Branches, a.Actions, a.Guards, len(spec.Nodes), branches, actions, guards)})
		}
	}
	sort.Strings(edges)
	var branchList [][2]string
	for name, n := range spec.Nodes {
		if n.Branches != nil {
			for _, b := range n.Branches.Branches {
				branchList = append(branchList, [2]string{name, b.Target})
			}
		}
	}
	// Dot
	{
		var buf bytes.Buffer
		var derr error
		if p, pm, where := vh.Trap(func() { derr = tools.Dot(spec, nopCloser{&buf}, "", "") }); p {
			out = append(out, [2]string{"dot-panic/" + where, pm})
		} else if derr != nil {
			out = append(out, [2]string{"dot-error", derr.Error()})
		} else if why := dotFaithful(spec, branchList, buf.String()); why != [2]string{} {
			out = append(out, why)
		}
	}
	// the same renderings with a transition to highlight (what a debugger passes): for every pair of nodes joined by a
	// branch (the first few) and for a pair that is not - highlighting changes colours, not the graph
	{
		pairs := [][2]string{{"no-such-node", "nor-this"}}
		seenPair := map[[2]string]bool{}
		for _, b := range branchList {
			if !seenPair[b] && len(pairs) < 5 {
				seenPair[b] = true
				pairs = append(pairs, b)
			}
		}
		for _, pr := range pairs {
			var buf bytes.Buffer
			var derr error
			if p, pm, where := vh.Trap(func() { derr = tools.Dot(spec, nopCloser{&buf}, pr[0], pr[1]) }); p {
				out = append(out, [2]string{"dot-panic/highlighted/" + where, pm})
			} else if derr != nil {
				out = append(out, [2]string{"dot-error/highlighted", derr.Error()})
			} else if why := dotFaithful(spec, branchList, buf.String()); why != [2]string{} {
				out = append(out, [2]string{why[0] + "/highlighted", fmt.Sprintf("with the transition %q -> %q highlighted: %s", pr[0], pr[1], why[1])})
			}
			buf.Reset()
			var merr error
			if p, pm, where := vh.Trap(func() { merr = tools.Mermaid(spec, nopCloser{&buf}, nil, pr[0], pr[1]) }); p {
				out = append(out, [2]string{"mermaid-panic/highlighted/" + where, pm})
			} else if merr != nil {
				out = append(out, [2]string{"mermaid-error/highlighted", merr.Error()})
			} else if why := mermaidFaithful(spec, branchList, buf.String()); why != [2]string{} {
				out = append(out, [2]string{why[0] + "/highlighted", fmt.Sprintf("with the transition %q -> %q highlighted: %s", pr[0], pr[1], why[1])})
			}
			if len(out) > 0 {
				break
			}
		}
	}
	// the HTML rendering of the spec: total, one row per node, one numbered row per branch, one link per non-empty target
	if !strings.ContainsAny(strings.Join(nodeNames(spec), ""), "<>&\"'") {
		var buf bytes.Buffer
		var herr error
		if p, pm, where := vh.Trap(func() { herr = tools.RenderSpecHTML(spec, &buf) }); p {
			out = append(out, [2]string{"html-panic/" + where, pm})
		} else if herr != nil {
			out = append(out, [2]string{"html-error", herr.Error()})
		} else {
			h := buf.String()
			if n := strings.Count(h, `<tr class="node">`); n != len(spec.Nodes) {
				out = append(out, [2]string{"html-node-rows", fmt.Sprintf("%d node rows for %d nodes", n, len(spec.Nodes))})
			}
			for name := range spec.Nodes {
				if n := strings.Count(h, fmt.Sprintf(`<span id="%s" class="nodeName">%s</span>`, name, name)); n != 1 {
					out = append(out, [2]string{"html-node-rows", fmt.Sprintf("node %q has %d rows", name, n)})
					break
				}
			}
			if n := strings.Count(h, `class="branchNum"`); n != branches {
				out = append(out, [2]string{"html-branch-rows", fmt.Sprintf("%d branch rows for %d branches", n, branches)})
			}
			links := 0
			for _, b := range branchList {
				if b[1] != "" {
					links++
				}
			}
			if n := strings.Count(h, `<a href="#`); n != links {
				out = append(out, [2]string{"html-target-links", fmt.Sprintf("%d target links for %d branches with a target", n, links)})
			}
		}
	}
	// Mermaid
	{
		var buf bytes.Buffer
		var merr error
		if p, pm, where := vh.Trap(func() { merr = tools.Mermaid(spec, nopCloser{&buf}, nil, "", "") }); p {
			out = append(out, [2]string{"mermaid-panic/" + where, pm})
		} else if merr != nil {
			out = append(out, [2]string{"mermaid-error", merr.Error()})
		} else if why := mermaidFaithful(spec, branchList, buf.String()); why != [2]string{} {
			out = append(out, why)
		}
	}
	return out
}

func nodeNames(spec *core.Spec) []string {
	var ns []string
	for n, node := range spec.Nodes {
		ns = append(ns, n)
		if node.Branches != nil {
			for _, b := range node.Branches.Branches {
				ns = append(ns, b.Target)
			}
		}
	}
	return ns
}

func c20Feature(cs c20Case) string {
	f := map[string]bool{}
	if len(cs.Rename) > 0 {
		f["name-or-pattern-content"] = true
	}
	for _, n := range cs.Nodes {
		if n.EmptyBr {
			f["empty-branch-list"] = true
		}
		if n.Action == "native" {
			f["native-action"] = true
		}
		for _, b := range n.Branches {
			if b.Guard == "native" {
				f["native-guard"] = true
			}
			switch {
			case b.Target == "":
				f["empty-target"] = true
			case strings.HasPrefix(b.Target, "@"):
				f["variable-target"] = true
			default:
				if _, have := cs.Nodes[b.Target]; !have && b.Target != "error" {
					f["missing-target"] = true
				}
			}
		}
	}
	var ks []string
	for k := range f {
		ks = append(ks, k)
	}
	sort.Strings(ks)
	if len(ks) == 0 {
		return "plain"
	}
	return strings.Join(ks, "+")
}

// C20: analysis and graph renderings are faithful to the spec.
func C20(c *vh.Ctx) {
	log.SetOutput(io.Discard)
	one := func(cs c20Case) {
		c.Eval()
		vs := c20Check(cs)
		if len(cs.Nodes) > 1 {
			c.Nontrivial()
		}
		for _, v := range vs {
			c.Violation("C20/"+v[0]+"/"+c20Feature(cs), v[1], cs)
		}
	}
	if c.Replay != "" {
		var cs c20Case
		if c.LoadReplay(&cs) == nil {
			one(cs)
		}
		return
	}
	c.Rule("every spec graph over node names {start, a, b}: (i) two nodes, each with action {none, native, ecmascript source, goja source}, branching type {message (no action), bindings}, and a branch list of 0-2 branches over target {start, a, b, missing, @v, \"\"} x guard {none, ecmascript source} (plus native / goja guards) x pattern {none, map}; (ii) three nodes with 0-1 branches each; (iii) a fixed three-node graph whose two free node names range over a list of 30 names (dot keywords, names with spaces, colons, quotes, angle brackets, ampersands, brackets, comment openers, backslashes, format verbs) and whose patterns range over 9 JSON contents (angle brackets, ampersands, quotes, markup, a bare string, arrays, one long enough to be indented); branch lists also as empty-but-not-nil lists; (v) a three-node graph whose middle node has an action source, and whose first branch has a guard source, that is not a string (maps with interface{} keys as YAML libraries produce them, arrays, numbers, null, booleans, values that cannot be serialised), for an interpreter that takes structured source; (iv) three-node graphs without any node called start, over names that sort before and after \"start\"; compiled; oracle: Analyze's sets and counts recomputed from the graph, Dot output parsed with the grammar of the dot language (quoted and HTML-like strings, keywords, ports) and matched to the spec graph under a searched correspondence of names (each spec node exactly one node statement whose well-formed label shows its name, extra nodes only as placeholders for branch targets, edge multiset = image of the branch multiset); Mermaid output split into statements and read back (node texts with entities decoded = names, edges through node ids = branches), the HTML rendering (RenderSpecHTML; names without markup characters) has one row per node, one numbered row per branch and one link per branch with a target; no panic, no error. non-trivial = more than one node.")
	targets := []string{"start", "a", "b", "missing", "@v", ""}
	var kinds []gBranch
	for _, t := range targets {
		kinds = append(kinds, gBranch{Target: t}, gBranch{Target: t, Guard: "ecmascript"}, gBranch{Target: t, Pattern: true})
	}
	kinds = append(kinds, gBranch{Target: "a", Guard: "native"}, gBranch{Target: "missing", Guard: "goja"}, gBranch{Target: "start", Guard: "native", Pattern: true})
	var lists [][]gBranch
	lists = append(lists, nil)
	for _, k := range kinds {
		lists = append(lists, []gBranch{k})
	}
	step := 1
	if c.Quick() {
		step = 3
	}
	for i, k1 := range kinds {
		for j, k2 := range kinds {
			if (i*len(kinds)+j)%step == 0 {
				lists = append(lists, []gBranch{k1, k2})
			}
		}
	}
	var nodes []gNode
	for _, act := range []string{"", "native", "ecmascript", "goja"} {
		for _, l := range lists {
			nodes = append(nodes, gNode{Action: act, Type: "bindings", Branches: l})
			if act == "" {
				nodes = append(nodes, gNode{Type: "message", Branches: l})
			}
		}
		nodes = append(nodes, gNode{Action: act, NoBr: true})
		nodes = append(nodes, gNode{Action: act, Type: "bindings", EmptyBr: true})
		if act == "" {
			nodes = append(nodes, gNode{Type: "message", EmptyBr: true})
		}
	}
	if c.Shard == 0 {
		c.Count("node_configurations", int64(len(nodes)))
	}
	var idx uint64
	// (i) two nodes: start x a — the second node over a thinner list in the quick tier
	for i, n1 := range nodes {
		for j, n2 := range nodes {
			if c.Quick() && (i+j)%5 != 0 {
				continue
			}
			idx++
			if !c.Mine(idx) {
				continue
			}
			if c.Expired() {
				return
			}
			cs := c20Case{Nodes: map[string]gNode{"start": n1, "a": n2}}
			one(cs)
			if c.WantSample() && n1.Action == "native" && len(n2.Branches) == 2 {
				c.Sample(cs)
			}
		}
	}
	// (ii) three nodes with at most one branch each
	var small []gNode
	for _, n := range nodes {
		if len(n.Branches) <= 1 {
			small = append(small, n)
		}
	}
	for i, n1 := range small {
		for j, n2 := range small {
			for k, n3 := range small {
				if (i+j+k)%c.Pick(7, 2) != 0 {
					continue
				}
				idx++
				if !c.Mine(idx) {
					continue
				}
				if c.Expired() {
					return
				}
				one(c20Case{Nodes: map[string]gNode{"start": n1, "a": n2, "b": n3}})
			}
		}
	}
	c20NoStart(c, one, &idx)
	// (v) sources that are not strings, as action of the middle node and/or as the guard of its first branch
	for i := range c20Sources {
		for j := -1; j < len(c20Sources); j++ {
			for _, tail := range []string{"b", "missing", "start"} {
				idx++
				if !c.Mine(idx) {
					continue
				}
				g := ""
				if j >= 0 {
					g = fmt.Sprintf("src:%d", j)
				}
				one(c20Case{Nodes: map[string]gNode{
					"start": {Type: "message", Branches: []gBranch{{Target: "a", Pattern: true}, {Target: "b"}}},
					"a":     {Action: fmt.Sprintf("src:%d", i), Type: "bindings", Branches: []gBranch{{Target: tail, Guard: g}, {Target: "start", Pattern: true}}},
					"b":     {NoBr: true}}})
			}
		}
	}
	// (iii) node names and patterns of any content: a three-node graph start -> X -> Y (+ a branch to a
	// missing target and one back to start), X and Y over the name list, the patterns over the pattern list
	for i, x := range c20Names {
		for j, y := range c20Names {
			if x == y {
				continue
			}
			for k, pj := range c20Patterns {
				for _, act := range []string{"", "native", "ecmascript"} {
					idx++
					if !c.Mine(idx) {
						continue
					}
					if c.Expired() {
						return
					}
					_ = i + j + k
					cs := c20Case{
						Rename: map[string]string{"a": x, "b": y},
						Nodes: map[string]gNode{
							"start": {Type: "message", Branches: []gBranch{{Target: "a", PatJS: pj}, {Target: "b", PatJS: pj, Guard: "ecmascript"}}},
							"a":     {Action: act, Type: "bindings", Branches: []gBranch{{Target: "b", PatJS: pj}, {Target: "missing " + y}}},
							"b":     {Type: "message", Branches: []gBranch{{Target: "start", PatJS: pj}, {Target: "a"}}},
						}}
					one(cs)
					if c.WantSample() && k == 1 && act == "" {
						c.Sample(cs)
					}
				}
			}
		}
	}
}

// (iv) specifications without a node called "start" (nothing obliges a spec to have one), node names sorting
// before and after "start"
func c20NoStart(c *vh.Ctx, one func(cs c20Case), idx *uint64) {
	names := []string{"begin", "stop", "wait", "work", "x1", "a", "starting", "Start"}
	for _, s0 := range names {
		for _, x := range names {
			for _, y := range names {
				if s0 == x || s0 == y || x == y {
					continue
				}
				for _, act := range []string{"", "native"} {
					*idx++
					if !c.Mine(*idx) || c.Expired() {
						continue
					}
					one(c20Case{
						Rename: map[string]string{"start": s0, "a": x, "b": y},
						Nodes: map[string]gNode{
							"start": {Type: "message", Branches: []gBranch{{Target: "a", Pattern: true}, {Target: "b"}}},
							"a":     {Action: act, Type: "bindings", Branches: []gBranch{{Target: "b"}, {Target: "missing"}}},
							"b":     {NoBr: true},
						}})
				}
			}
		}
	}
}

// names: identifiers the dot language would not take bare (or would take for something else), text that
// needs escaping in an HTML-like label or a quoted text, and plain ones
var c20Names = []string{"a", "test-1", "two words", "node", "Edge", "graph", "a:b", `say "hi"`, "x<y", "y>x", "<B>", "p&q", "&amp;", "1st", "é", "a.b", "{x}", "[x]",
	"a;b", "a,b", "a=b", "->", "//c", "/*c", `a\b`, "a'b", "%d%s", "-", "_", "subgraph"}

var c20Patterns = []string{`{"a":1}`, `{"a":"?<n"}`, `{"a":"x>y"}`, `{"a":"p&q"}`, `{"k":"say \"hi\""}`, `{"a":"</TD><B>"}`, `"plain ?x"`, `["?x",{"b":"&lt;"}]`,
	`{"alpha":"a long string value","beta":{"gamma":[1,2,3]},"d":"?<x"}`}
