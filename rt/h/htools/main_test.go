package htools

import (
	"testing"

	"github.com/Comcast/sheens/verifrt/vh"
)

func TestMain(m *testing.M) {
	vh.Main(Checks)
}
