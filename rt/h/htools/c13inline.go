package htools

import (
	"fmt"
	"strings"

	"github.com/Comcast/sheens/tools"
	"github.com/Comcast/sheens/verifrt/vh"
)

func init() { Checks["C13inline"] = C13inline }

// C13inline: mcrew and mdb read their YAML specs through tools.ReadFileWithInlines, which replaces every
// %inline("NAME") by the content of the file NAME - a purely textual step that must not touch anything else.
// Every text of up to four segments over an alphabet of literals (quotes, percent signs, dollar groups,
// backslashes, newlines, partial directives) and directives is expanded by the real Inline and by a plain
// scanner; the two must agree (text or error).

var inlineFiles = map[string]string{
	"x":   "X$1\n",
	"y":   `%inline("x")`,
	"z z": `Z\1"`,
	"e":   "",
	"big": strings.Repeat("line $0 %s %inline\n", 3),
}

func inlineLookup(name string) ([]byte, error) {
	if c, have := inlineFiles[name]; have {
		return []byte(c), nil
	}
	return nil, fmt.Errorf("no file %q", name)
}

// refInline: the next directive is the first position where `%inline`, optional blanks, `("`, a name without
// double quote, `")` stand; everything else is copied; what was inserted is not looked at again.
func refInline(s string) (string, error) {
	var b strings.Builder
	i := 0
	for i < len(s) {
		if strings.HasPrefix(s[i:], "%inline") {
			j := i + len("%inline")
			for j < len(s) && s[j] == ' ' {
				j++
			}
			if strings.HasPrefix(s[j:], `("`) {
				k := j + 2
				e := strings.IndexByte(s[k:], '"')
				if e >= 0 && strings.HasPrefix(s[k+e:], `")`) {
					c, err := inlineLookup(s[k : k+e])
					if err != nil {
						return "", err
					}
					b.WriteString(string(c))
					i = k + e + 2
					continue
				}
			}
		}
		b.WriteByte(s[i])
		i++
	}
	return b.String(), nil
}

func C13inline(c *vh.Ctx) {
	segs := []string{"a", "\n", "  ", `"`, "%", "%inline", "%inline(", `%inline("`, `")`, "$1", `\`, ")", "source: |-\n  ",
		`%inline("x")`, `%inline ("y")`, `%inline("")`, `%inline("z z")`, `%inline   ("e")`, `%inline("nofile")`, `%inline("big")`, "%inline(\"x\n\")"}
	one := func(text string) {
		c.Eval()
		want, werr := refInline(text)
		var got []byte
		var gerr error
		if p, pm, where := vh.Trap(func() { got, gerr = tools.Inline([]byte(text), inlineLookup) }); p {
			c.Violation("C13/inline-panic/"+where, fmt.Sprintf("Inline(%q) panicked: %s", text, pm), map[string]interface{}{"inline_text": text})
			return
		}
		if strings.Contains(text, "%inline") {
			c.Nontrivial()
		}
		if (werr != nil) != (gerr != nil) {
			c.Violation("C13/inline-error-outcome", fmt.Sprintf("Inline(%q): error %v; a plain textual expansion gives error %v", text, gerr, werr), map[string]interface{}{"inline_text": text})
			return
		}
		if werr == nil && string(got) != want {
			c.Violation("C13/inline-text-differs", fmt.Sprintf("Inline(%q) = %q; the text with every directive replaced by its file is %q", text, got, want), map[string]interface{}{"inline_text": text})
		}
	}
	if c.Replay != "" {
		var cs struct {
			Text string `json:"inline_text"`
		}
		if c.LoadReplay(&cs) == nil {
			one(cs.Text)
		}
		return
	}
	c.Rule(fmt.Sprintf("(spec loading, textual step) every text of up to %d segments over %d literals and directives is expanded by tools.Inline and by a plain scanner; text and error outcome must agree.", c.Pick(4, 5), len(segs)))
	maxSeg := c.Pick(4, 5)
	var idx uint64
	var rec func(cur string, n int)
	rec = func(cur string, n int) {
		idx++
		if c.Mine(idx) && !c.Expired() {
			one(cur)
		}
		if n == maxSeg {
			return
		}
		for _, s := range segs {
			rec(cur+s, n+1)
		}
	}
	rec("", 0)
}
