// Package htools holds the checks on the tools: C19 (expectation tool) and C20 (analysis / renderings).
package htools

import (
	"context"
	"encoding/json"
	"fmt"
	"io"
	"log"
	"os"
	"path/filepath"
	"strings"
	"syscall"
	"time"

	"github.com/Comcast/sheens/core"
	"github.com/Comcast/sheens/interpreters/ecmascript"
	"github.com/Comcast/sheens/match"
	"github.com/Comcast/sheens/tools/expect"
	"github.com/Comcast/sheens/verifrt/vh"
	jyaml "github.com/jsccast/yaml"
)

var Checks = map[string]vh.CheckFunc{
	"C19": C19,
}

type M = map[string]interface{}

// expOut: one expected / forbidden output.
type expOut struct {
	Pat      string `json:"pat"` // A | B
	Inverted bool   `json:"inverted,omitempty"`
	Guard    string `json:"guard,omitempty"` // "" | accept | reject
}

type c19Case struct {
	Steps  [][]expOut `json:"steps"`  // output set per step
	Stream []string   `json:"stream"` // A | B | C | noise
	// SplitAt > 0: the subprocess prints the first SplitAt lines at once and the rest a moment later (a second
	// write, so a second read on the tool's side)
	SplitAt int `json:"split_at,omitempty"`
	// ViaYAML: the session is written as a session file (the documented fields of specs/tests/*.test.yaml) and
	// loaded the way cmd/mexpect loads it, instead of being built as Go values
	ViaYAML bool `json:"via_yaml,omitempty"`
	// LateMs > 0 (with SplitAt): the rest of the stream arrives LateMs after the first part - long after every
	// step of the session has timed out (each step's timeout is a tenth of it): for the verdict those lines
	// never arrive
	LateMs int `json:"late_ms,omitempty"`
}

var c19Msgs = map[string]string{"A": `{"a":1}`, "B": `{"b":1}`, "C": `{"c":1}`, "noise": `this is not json`,
	// T2 matches pattern T in two ways (?t = x, ?t = y), T1 in one
	"T1": `{"tags":["x"]}`, "T2": `{"tags":["x","y"]}`,
	// scalar messages: a number, the string of its digits, a boolean, its name, and the text of message A as a string
	"N2": `2`, "Q2": `"2"`, "Bt": `true`, "Qt": `"true"`, "QA": `"{\"a\":1}"`,
	// long lines (beyond any reader's default buffer): a message is a message whatever its length
	"LA": `{"a":1,"pad":"` + strings.Repeat("x", 6000) + `"}`, "LB": `{"b":1,"pad":"` + strings.Repeat("y", 9000) + `"}`}

// P: like A, but the variable it binds is a permanent one (its name ends in '!')
var c19Pats = map[string]interface{}{"A": M{"a": "?x"}, "B": M{"b": "?y"}, "T": M{"tags": []interface{}{"?t"}}, "P": M{"a": "?id!"},
	// property-variable patterns: K1 matches every one of the messages A, B, C; K2 matches none of them
	"K1": M{"?k": 1.0}, "K2": M{"?k": 2.0},
	// patterns that are bare strings whose text reads like another JSON value
	"S2": "2", "St": "true", "Sq": `{"a":1}`}

// refPass: the pass conditions, with the most permissive consumption (a step ends at the earliest
// message after which all its expected outputs have been matched).
func refPass(cs c19Case) bool { return refPassMode(cs, false) }

// strict: a selective guard must accept every way of matching (then the tool passes whichever way it offers first)
func refPassMode(cs c19Case, strict bool) bool {
	pos := 0
	for _, set := range cs.Steps {
		matched := make([]bool, len(set))
		need := 0
		for _, o := range set {
			if !o.Inverted {
				need++
			}
		}
		done := false
		for pos < len(cs.Stream) && !done {
			sym := cs.Stream[pos]
			pos++
			if sym == "noise" {
				continue
			}
			var msg interface{}
			json.Unmarshal([]byte(c19Msgs[sym]), &msg)
			for i, o := range set {
				if matched[i] {
					continue
				}
				bss, _ := match.Match(c19Pats[o.Pat], msg, match.NewBindings())
				if len(bss) == 0 || o.Guard == "reject" {
					continue
				}
				if o.Guard == "pick-y" {
					// most permissive reading: some way of matching is accepted by the guard
					ok := strict
					for _, bs := range bss {
						if bs["?t"] == "y" && !strict {
							ok = true
						}
						if bs["?t"] != "y" && strict {
							ok = false
						}
					}
					if !ok {
						continue
					}
				}
				matched[i] = true
				if o.Inverted {
					return false
				}
				need--
			}
			if need == 0 {
				done = true
			}
		}
		if !done {
			return false // an expected message never arrives
		}
	}
	return true
}

func c19SessionYAML(cs c19Case, timeout time.Duration) (*expect.Session, error) {
	var b strings.Builder
	b.WriteString("doc: generated\nios:\n")
	for _, set := range cs.Steps {
		fmt.Fprintf(&b, "- doc: a step\n  timeout: %s\n  outputSet:\n", timeout)
		for _, o := range set {
			js, _ := json.Marshal(c19Pats[o.Pat])
			fmt.Fprintf(&b, "  - pattern: '%s'\n", js)
			if o.Inverted {
				b.WriteString("    inverted: true\n")
			}
			src := map[string]string{"accept": "return _.bindings;", "reject": "return null;", "pick-y": `return _.bindings["?t"] == "y" ? _.bindings : null;`}[o.Guard]
			if src != "" {
				fmt.Fprintf(&b, "    guardSource:\n      interpreter: ecmascript\n      source: '%s'\n", src)
			}
		}
	}
	fmt.Fprintf(&b, "parsePatterns: true\ndefaultTimeout: %s\n", timeout)
	var s expect.Session
	if err := jyaml.Unmarshal([]byte(b.String()), &s); err != nil {
		return nil, err
	}
	s.Interpreters = core.InterpretersMap{"ecmascript": ecmascript.NewInterpreter()}
	return &s, nil
}

func c19Session(cs c19Case, timeout time.Duration) *expect.Session {
	if cs.ViaYAML {
		if s, err := c19SessionYAML(cs, timeout); err == nil {
			return s
		}
		// a session file that does not load cannot pass
		return &expect.Session{Interpreters: core.InterpretersMap{}, IOs: []expect.IO{{Timeout: time.Millisecond, OutputSet: []expect.Output{{Pattern: "unloadable"}}}}, DefaultTimeout: time.Millisecond}
	}
	s := &expect.Session{Interpreters: core.InterpretersMap{"ecmascript": ecmascript.NewInterpreter()}, DefaultTimeout: timeout}
	for _, set := range cs.Steps {
		iop := expect.IO{Timeout: timeout}
		for _, o := range set {
			out := expect.Output{Pattern: c19Pats[o.Pat], Inverted: o.Inverted}
			switch o.Guard {
			case "accept":
				out.GuardSource = &core.ActionSource{Interpreter: "ecmascript", Source: "return _.bindings;"}
			case "reject":
				out.GuardSource = &core.ActionSource{Interpreter: "ecmascript", Source: "return null;"}
			case "pick-y":
				out.GuardSource = &core.ActionSource{Interpreter: "ecmascript", Source: `return _.bindings["?t"] == "y" ? _.bindings : null;`}
			}
			iop.OutputSet = append(iop.OutputSet, out)
		}
		s.IOs = append(s.IOs, iop)
	}
	return s
}

const c19Horizon = 45 * time.Second

func c19Run(dir string, cs c19Case, timeout time.Duration) (passed bool, errText string, panicked string) {
	var lines []string
	for _, sym := range cs.Stream {
		lines = append(lines, c19Msgs[sym])
	}
	f := filepath.Join(dir, "stream.txt")
	script := "cat " + f + "; cat > /dev/null"
	if cs.SplitAt > 0 && cs.SplitAt < len(lines) {
		f2 := filepath.Join(dir, "stream2.txt")
		os.WriteFile(f, []byte(strings.Join(lines[:cs.SplitAt], "\n")+"\n"), 0o644)
		os.WriteFile(f2, []byte(strings.Join(lines[cs.SplitAt:], "\n")+"\n"), 0o644)
		pause := "0.05"
		if cs.LateMs > 0 {
			pause = fmt.Sprintf("%d.%03d", cs.LateMs/1000, cs.LateMs%1000)
		}
		script = "cat " + f + "; sleep " + pause + "; cat " + f2 + "; cat > /dev/null"
	} else {
		os.WriteFile(f, []byte(strings.Join(lines, "\n")+"\n"), 0o644)
	}
	s := c19Session(cs, timeout)
	var err error
	// a session that fails returns without waiting for its subprocess: over a long run the ended subprocesses pile up
	// as zombies (tens of thousands of them exhaust the machine's process ids); sessions of a worker run one after
	// the other, so whatever has ended by now belongs to a session that is over
	defer reapChildren()
	if p, pm, where := vh.Trap(func() {
		// the horizon only bounds a tool that has stopped enforcing its own timeouts
		ctx, cancel := context.WithTimeout(context.Background(), c19Horizon)
		defer cancel()
		err = s.Run(ctx, "", "sh", "-c", script)
	}); p {
		return false, "", pm + " @" + where
	}
	if err != nil {
		return false, err.Error(), ""
	}
	return true, "", ""
}

func reapChildren() {
	for i := 0; i < 64; i++ {
		var ws syscall.WaitStatus
		pid, err := syscall.Wait4(-1, &ws, syscall.WNOHANG, nil)
		if pid <= 0 || err != nil {
			return
		}
	}
}

func setSig(set []expOut) string {
	var parts []string
	for _, o := range set {
		s := o.Pat
		if o.Inverted {
			s = "!" + s
		}
		if o.Guard != "" {
			s += "/" + o.Guard
		}
		parts = append(parts, s)
	}
	return "{" + strings.Join(parts, ",") + "}"
}

// C19: the expectation tool's verdict is sound.
func C19(c *vh.Ctx) {
	log.SetOutput(io.Discard)
	dir, _ := os.MkdirTemp(os.Getenv("VERIF_SCRATCH"), "expect-")
	defer os.RemoveAll(dir)
	one := func(cs c19Case) {
		c.Eval()
		want := refPass(cs)
		timeout := 60 * time.Millisecond // a short timeout can only turn a pass into a fail
		if cs.SplitAt > 0 {
			timeout = 400 * time.Millisecond // long enough for the delayed lines to arrive
		}
		if want && refPassMode(cs, true) {
			timeout = 20 * time.Second // never fires when the tool passes
		}
		if cs.LateMs > 0 {
			timeout = time.Duration(cs.LateMs/10) * time.Millisecond
			late := cs
			late.Stream = cs.Stream[:cs.SplitAt] // what arrives after every step has timed out does not count
			want = refPass(late)
		}
		began := time.Now()
		passed, errText, panicked := c19Run(dir, cs, timeout)
		if panicked != "" {
			c.Violation("C19/panic", panicked, cs)
			return
		}
		if took := time.Since(began); !want && timeout <= time.Second && took > 30*time.Second {
			// "otherwise - including when an expected message never arrives before the timeout - it fails"
			c.Violation("C19/no-verdict-at-the-timeout", fmt.Sprintf("every step of the session has a timeout of %v and an expected message never arrives in time, but the tool gave its verdict (passed=%v) only after %v", timeout, passed, took.Round(time.Second)), cs)
			return
		}
		if want {
			c.Nontrivial()
			if !passed {
				c.Count("sound_but_failed", 1) // not a soundness violation; counted
				_ = errText
			}
		}
		c.Outcome("verdict", fmt.Sprint(passed, want))
		if passed && !want {
			var sigs []string
			for _, st := range cs.Steps {
				sigs = append(sigs, setSig(st))
			}
			// re-run: the verdict must be the same (no timing dependence in a false pass)
			again, _, _ := c19Run(dir, cs, timeout)
			if !again {
				c.Count("unreproduced", 1)
				c.NotExhaustive("a false pass did not reproduce; not reported")
				return
			}
			c.Violation("C19/false-pass/"+strings.Join(sigs, "+"), fmt.Sprintf("the tool passed the session %v on the stream %v, but not every expected output was matched by some emitted message accepted by its guard / a forbidden one was matched", sigs, cs.Stream), cs)
		}
	}
	if c.Replay != "" {
		var cs c19Case
		if c.LoadReplay(&cs) == nil {
			one(cs)
		}
		return
	}
	maxSet, maxStream := c.Pick(2, 3), c.Pick(3, 4)
	c.Bound("output_set_max", maxSet)
	c.Bound("stream_max", maxStream)
	c.Rule("sessions of one step with every output set (multiset) of up to the bound over {pattern A, pattern B} x {expected, inverted} x guard {none, accept, reject}, a second family with a pattern that matches one message in several ways (an array variable) with guards that accept all / one of the ways, a family with bare string patterns whose text reads like another JSON value (\"2\", \"true\", the text of a message) against scalar messages, as Go values and as session files, a family with property-variable patterns (one that every message matches, one that none does), a family whose patterns bind permanent variables (names ending in '!') under accepting and rejecting guards, a family with emitted lines of 6 and 9 kilobytes (longer than a default read buffer; the whole stream stays below the pipe buffer, because the tool does not drain the output of a subprocess it has stopped listening to), two-step sessions over a reduced set list, also with the stream arriving in two writes, and with its second part arriving three seconds late while every step's timeout is 0.3 s (for the verdict those lines never arrive; a tool that gives no verdict for 30 s although its timeouts are below a second is reported too); every stream up to the bound over {A, B, C, a non-JSON noise line} including repetitions; the sessions with short streams also written as session files (documented fields) and loaded as cmd/mexpect loads them; the tool drives a scripted subprocess that prints the stream; oracle: the tool may pass only if the reference pass conditions hold (most permissive consumption). Cases the reference fails run with a short timeout (which can only turn pass into fail). non-trivial = reference says pass.")
	kinds := []expOut{}
	for _, p := range []string{"A", "B"} {
		for _, inv := range []bool{false, true} {
			for _, g := range []string{"", "accept", "reject"} {
				kinds = append(kinds, expOut{Pat: p, Inverted: inv, Guard: g})
			}
		}
	}
	var sets [][]expOut
	var recSet func(start int, cur []expOut)
	recSet = func(start int, cur []expOut) {
		if len(cur) > 0 {
			sets = append(sets, append([]expOut{}, cur...))
		}
		if len(cur) == maxSet {
			return
		}
		for i := start; i < len(kinds); i++ {
			recSet(i, append(cur, kinds[i]))
		}
	}
	recSet(0, nil)
	var streams [][]string
	var recStream func(cur []string)
	recStream = func(cur []string) {
		streams = append(streams, append([]string{}, cur...))
		if len(cur) == maxStream {
			return
		}
		for _, s := range []string{"A", "B", "C", "noise"} {
			recStream(append(cur, s))
		}
	}
	recStream(nil)
	if c.Shard == 0 {
		c.Count("output_sets", int64(len(sets)))
		c.Count("streams", int64(len(streams)))
	}
	var idx uint64
	for _, set := range sets {
		for _, st := range streams {
			idx++
			if !c.Mine(idx) || c.Expired() {
				continue
			}
			cs := c19Case{Steps: [][]expOut{set}, Stream: st}
			one(cs)
			if c.WantSample() && len(set) == 2 && len(st) == 3 {
				c.Sample(cs)
			}
			if len(st) <= 2 && len(set) <= 2 {
				// the same session as a session file
				cs.ViaYAML = true
				one(cs)
			}
		}
	}
	// messages that arrive long after the step that waits for them has timed out: two-step sessions (and one-step
	// ones), the stream's second part three seconds late, every step's timeout 0.3 s
	{
		lateSteps := [][]expOut{{{Pat: "A"}}, {{Pat: "B"}}, {{Pat: "A", Inverted: true}}, {{Pat: "A"}, {Pat: "B"}}}
		firsts := [][]string{{}, {"A"}, {"B"}, {"A", "B"}}
		seconds := [][]string{{"A"}, {"B"}, {"A", "B"}}
		for _, s1 := range lateSteps[:2] {
			for _, s2 := range append([][]expOut{nil}, lateSteps...) {
				for _, f1 := range firsts {
					for _, f2 := range seconds {
						idx++
						if !c.Mine(idx) || c.Expired() {
							continue
						}
						steps := [][]expOut{s1}
						if s2 != nil {
							steps = append(steps, s2)
						}
						if len(f1) == 0 {
							continue // SplitAt 0 means "no split"
						}
						one(c19Case{Steps: steps, Stream: append(append([]string{}, f1...), f2...), SplitAt: len(f1), LateMs: 3000})
						c.Count("late_arrival_cases", 1)
					}
				}
			}
		}
	}
	// patterns that match one message in several ways: one message is still one message
	multiKinds := []expOut{{Pat: "T"}, {Pat: "T", Guard: "accept"}, {Pat: "T", Guard: "pick-y"}, {Pat: "T", Inverted: true}, {Pat: "A"}, {Pat: "B"}, {Pat: "B", Inverted: true}}
	var multiSets [][]expOut
	for i, k1 := range multiKinds {
		multiSets = append(multiSets, []expOut{k1})
		for _, k2 := range multiKinds[i:] {
			multiSets = append(multiSets, []expOut{k1, k2})
			if !c.Quick() {
				for _, k3 := range multiKinds {
					multiSets = append(multiSets, []expOut{k1, k2, k3})
				}
			}
		}
	}
	var multiStreams [][]string
	var recMulti func(cur []string)
	recMulti = func(cur []string) {
		multiStreams = append(multiStreams, append([]string{}, cur...))
		if len(cur) == maxStream {
			return
		}
		for _, s := range []string{"T2", "T1", "A", "B"} {
			recMulti(append(cur, s))
		}
	}
	recMulti(nil)
	for _, set := range multiSets {
		for _, st := range multiStreams {
			idx++
			if !c.Mine(idx) || c.Expired() {
				continue
			}
			one(c19Case{Steps: [][]expOut{set}, Stream: st})
		}
	}
	// patterns that bind permanent variables: a guard that rejects rejects
	{
		permKinds := []expOut{{Pat: "P"}, {Pat: "P", Guard: "accept"}, {Pat: "P", Guard: "reject"}, {Pat: "P", Inverted: true, Guard: "reject"}, {Pat: "B"}, {Pat: "B", Guard: "reject"}}
		var permSets [][]expOut
		for i, k1 := range permKinds {
			permSets = append(permSets, []expOut{k1})
			for _, k2 := range permKinds[i:] {
				permSets = append(permSets, []expOut{k1, k2})
			}
		}
		for _, set := range permSets {
			for _, st := range [][]string{{}, {"A"}, {"B"}, {"A", "B"}, {"B", "A"}, {"A", "A"}, {"A", "B", "A"}, {"C", "A"}} {
				idx++
				if !c.Mine(idx) || c.Expired() {
					continue
				}
				one(c19Case{Steps: [][]expOut{set}, Stream: st})
				c.Count("permanent_variable_cases", 1)
			}
		}
	}
	// patterns with a property variable, one that every message matches and one that none does
	{
		kKinds := []expOut{{Pat: "K2"}, {Pat: "K2", Guard: "accept"}, {Pat: "K2", Inverted: true}, {Pat: "K1"}, {Pat: "K1", Guard: "accept"}, {Pat: "A"}}
		var kSets [][]expOut
		for i, k1 := range kKinds {
			kSets = append(kSets, []expOut{k1})
			for _, k2 := range kKinds[i:] {
				kSets = append(kSets, []expOut{k1, k2})
			}
		}
		for _, set := range kSets {
			for _, st := range [][]string{{}, {"A"}, {"B"}, {"A", "B"}, {"noise", "C"}, {"A", "A"}} {
				idx++
				if !c.Mine(idx) || c.Expired() {
					continue
				}
				one(c19Case{Steps: [][]expOut{set}, Stream: st})
				c.Count("property_variable_cases", 1)
			}
		}
	}
	// bare string patterns whose text reads like another JSON value: "2" expects the string, not the number
	{
		sKinds := []expOut{{Pat: "S2"}, {Pat: "S2", Inverted: true}, {Pat: "St"}, {Pat: "Sq"}, {Pat: "A"}}
		var sSets [][]expOut
		for i, k1 := range sKinds {
			sSets = append(sSets, []expOut{k1})
			for _, k2 := range sKinds[i+1:] {
				sSets = append(sSets, []expOut{k1, k2})
			}
		}
		var sStreams [][]string
		for _, a := range []string{"N2", "Q2", "Bt", "Qt", "QA", "A", "C"} {
			sStreams = append(sStreams, []string{a})
			for _, b := range []string{"N2", "Q2", "Bt", "Qt", "QA", "A"} {
				sStreams = append(sStreams, []string{a, b}, []string{"C", a, b})
			}
		}
		for _, set := range sSets {
			for _, st := range sStreams {
				idx++
				if !c.Mine(idx) || c.Expired() {
					continue
				}
				for _, viaYAML := range []bool{false, true} {
					one(c19Case{Steps: [][]expOut{set}, Stream: st, ViaYAML: viaYAML})
				}
				c.Count("string_pattern_cases", 2)
			}
		}
	}
	// long lines
	longKinds := []expOut{{Pat: "A"}, {Pat: "A", Inverted: true}, {Pat: "B"}, {Pat: "B", Inverted: true}}
	var longSets [][]expOut
	for i, k1 := range longKinds {
		longSets = append(longSets, []expOut{k1})
		for _, k2 := range longKinds[i+1:] {
			longSets = append(longSets, []expOut{k1, k2})
		}
	}
	var longStreams [][]string
	syms := []string{"LA", "LB", "A", "B"}
	for _, s1 := range syms {
		longStreams = append(longStreams, []string{s1})
		for _, s2 := range syms {
			longStreams = append(longStreams, []string{s1, s2})
			if !c.Quick() {
				for _, s3 := range syms {
					longStreams = append(longStreams, []string{s1, s2, s3})
				}
			}
		}
	}
	for _, set := range longSets {
		for _, st := range longStreams {
			idx++
			if !c.Mine(idx) || c.Expired() {
				continue
			}
			one(c19Case{Steps: [][]expOut{set}, Stream: st})
		}
	}
	// two-step sessions whose stream arrives in two writes: what the first step's reader had already taken in
	// belongs to the second step as much as what arrives later
	for _, s1 := range [][]expOut{{{Pat: "A"}}, {{Pat: "B"}}} {
		for _, s2 := range [][]expOut{{{Pat: "B", Inverted: true}}, {{Pat: "A", Inverted: true}}, {{Pat: "A"}, {Pat: "B", Inverted: true}}} {
			for _, st := range streams {
				for k := 1; k < len(st); k++ {
					idx++
					if !c.Mine(idx) || c.Expired() {
						continue
					}
					one(c19Case{Steps: [][]expOut{s1, s2}, Stream: st, SplitAt: k})
				}
			}
		}
	}
	// two-step sessions: the stream is split across the steps by consumption
	small := [][]expOut{{{Pat: "A"}}, {{Pat: "B"}}, {{Pat: "A"}, {Pat: "B"}}, {{Pat: "A"}, {Pat: "B", Inverted: true}}, {{Pat: "A", Guard: "reject"}},
		// steps that only forbid: whatever the earlier step left unread still counts
		{{Pat: "B", Inverted: true}}, {{Pat: "A", Inverted: true}}}
	for _, s1 := range small {
		for _, s2 := range small {
			for _, st := range streams {
				idx++
				if !c.Mine(idx) || c.Expired() {
					continue
				}
				one(c19Case{Steps: [][]expOut{s1, s2}, Stream: st})
			}
		}
	}
}
