package htools

import (
	"fmt"
	"strings"
)

// A small reader for the part of the dot language that a rendering of a spec uses:
//   digraph NAME { stmt* }     stmt := ID [ '->' ID ] [ '[' attrs ']' ] [';']  |  ID '=' ID
// IDs are bare words, numerals, double-quoted strings (only \" is an escape) or HTML strings <...> with
// balanced angle brackets.  node / edge / graph followed by an attribute list are default statements.
// Anything else is a parse error: a rendering that does not parse is not a rendering of the spec.

type dotTok struct {
	kind string // id | html | punct
	text string // for id: the identifier as dot reads it
	bare bool
}

type dotStmt struct {
	From, To string
	Edge     bool
	Attrs    map[string]dotTok
}

func dotLex(s string) ([]dotTok, error) {
	var out []dotTok
	i := 0
	for i < len(s) {
		c := s[i]
		switch {
		case c == ' ' || c == '\t' || c == '\n' || c == '\r':
			i++
		case c == '/' && i+1 < len(s) && s[i+1] == '/':
			for i < len(s) && s[i] != '\n' {
				i++
			}
		case c == '/' && i+1 < len(s) && s[i+1] == '*':
			j := strings.Index(s[i+2:], "*/")
			if j < 0 {
				return nil, fmt.Errorf("unterminated comment")
			}
			i += j + 4
		case c == '"':
			var b strings.Builder
			i++
			closed := false
			for i < len(s) {
				if s[i] == '\\' && i+1 < len(s) && s[i+1] == '"' {
					b.WriteByte('"')
					i += 2
					continue
				}
				if s[i] == '\\' && i+1 < len(s) && s[i+1] == '\\' {
					// kept as written: dot only knows \" in identifiers
					b.WriteString(`\\`)
					i += 2
					continue
				}
				if s[i] == '"' {
					closed = true
					i++
					break
				}
				b.WriteByte(s[i])
				i++
			}
			if !closed {
				return nil, fmt.Errorf("unterminated string")
			}
			out = append(out, dotTok{kind: "id", text: b.String()})
		case c == '<':
			depth := 0
			j := i
			for j < len(s) {
				if s[j] == '<' {
					depth++
				} else if s[j] == '>' {
					depth--
					if depth == 0 {
						break
					}
				}
				j++
			}
			if j >= len(s) {
				return nil, fmt.Errorf("unbalanced HTML-like string starting %q", clip(s[i:], 60))
			}
			out = append(out, dotTok{kind: "html", text: s[i+1 : j]})
			i = j + 1
		case c == '-' && i+1 < len(s) && s[i+1] == '>':
			out = append(out, dotTok{kind: "punct", text: "->"})
			i += 2
		case strings.ContainsRune("{}[]=,;:", rune(c)):
			out = append(out, dotTok{kind: "punct", text: string(c)})
			i++
		case isDotWord(c) || c == '-' || c == '.':
			j := i
			for j < len(s) && (isDotWord(s[j]) || s[j] == '.' || (j == i && s[j] == '-')) {
				j++
			}
			if j == i {
				return nil, fmt.Errorf("unexpected %q", clip(s[i:], 20))
			}
			out = append(out, dotTok{kind: "id", text: s[i:j], bare: true})
			i = j
		default:
			return nil, fmt.Errorf("unexpected character %q in %q", string(c), clip(s[i:], 30))
		}
	}
	return out, nil
}

func clip(s string, n int) string {
	if len(s) > n {
		return s[:n] + "..."
	}
	return s
}

func isDotWord(c byte) bool {
	return c == '_' || c >= 0x80 || (c >= 'a' && c <= 'z') || (c >= 'A' && c <= 'Z') || (c >= '0' && c <= '9')
}

func dotKeyword(t dotTok) string {
	if !t.bare {
		return ""
	}
	switch k := strings.ToLower(t.text); k {
	case "node", "edge", "graph", "digraph", "subgraph", "strict":
		return k
	}
	return ""
}

// dotParse returns the node statements and edge statements of a digraph.
func dotParse(s string) (nodes []dotStmt, edges []dotStmt, err error) {
	toks, err := dotLex(s)
	if err != nil {
		return nil, nil, err
	}
	p := 0
	peek := func() *dotTok {
		if p < len(toks) {
			return &toks[p]
		}
		return nil
	}
	isP := func(t *dotTok, x string) bool { return t != nil && t.kind == "punct" && t.text == x }
	if t := peek(); t == nil || dotKeyword(*t) != "digraph" {
		return nil, nil, fmt.Errorf("does not start with digraph")
	}
	p++
	if t := peek(); t != nil && t.kind == "id" {
		p++
	}
	if !isP(peek(), "{") {
		return nil, nil, fmt.Errorf("missing {")
	}
	p++
	attrs := func() (map[string]dotTok, error) {
		m := map[string]dotTok{}
		for isP(peek(), "[") {
			p++
			for !isP(peek(), "]") {
				k := peek()
				if k == nil || k.kind == "punct" {
					return nil, fmt.Errorf("bad attribute list")
				}
				p++
				if !isP(peek(), "=") {
					return nil, fmt.Errorf("attribute %q without value", k.text)
				}
				p++
				v := peek()
				if v == nil || v.kind == "punct" {
					return nil, fmt.Errorf("attribute %q without value", k.text)
				}
				p++
				m[k.text] = *v
				if isP(peek(), ",") || isP(peek(), ";") {
					p++
				}
			}
			p++
		}
		return m, nil
	}
	for {
		t := peek()
		if t == nil {
			return nil, nil, fmt.Errorf("missing }")
		}
		if isP(t, "}") {
			p++
			break
		}
		if isP(t, ";") {
			p++
			continue
		}
		if t.kind == "punct" {
			return nil, nil, fmt.Errorf("unexpected %q", t.text)
		}
		if kw := dotKeyword(*t); kw != "" {
			if kw == "node" || kw == "edge" || kw == "graph" {
				p++
				if !isP(peek(), "[") {
					return nil, nil, fmt.Errorf("keyword %q used as a statement without attribute list", kw)
				}
				if _, err := attrs(); err != nil {
					return nil, nil, err
				}
				continue
			}
			return nil, nil, fmt.Errorf("keyword %q where a statement was expected", kw)
		}
		if t.kind != "id" {
			return nil, nil, fmt.Errorf("HTML string where a node was expected")
		}
		p++
		st := dotStmt{From: t.text}
		if isP(peek(), ":") {
			return nil, nil, fmt.Errorf("node %q followed by a port (a name with a colon written bare)", t.text)
		}
		if isP(peek(), "=") { // ID = ID (graph attribute)
			p++
			if v := peek(); v == nil || v.kind == "punct" {
				return nil, nil, fmt.Errorf("bad graph attribute")
			}
			p++
			continue
		}
		if isP(peek(), "->") {
			p++
			u := peek()
			if u == nil || u.kind != "id" || dotKeyword(*u) != "" {
				return nil, nil, fmt.Errorf("edge from %q without a proper head", t.text)
			}
			p++
			if isP(peek(), ":") {
				return nil, nil, fmt.Errorf("edge head %q followed by a port", u.text)
			}
			st.Edge, st.To = true, u.text
		}
		a, err := attrs()
		if err != nil {
			return nil, nil, err
		}
		st.Attrs = a
		if st.Edge {
			edges = append(edges, st)
		} else {
			nodes = append(nodes, st)
		}
	}
	if p != len(toks) {
		return nil, nil, fmt.Errorf("text after the closing }")
	}
	return nodes, edges, nil
}

// htmlText checks an HTML-like label: tags are <...> without nested '<', text has no raw '<' '>' and
// every '&' starts an entity.  Returns the text with tags dropped and entities decoded.
func htmlText(s string) (string, error) {
	var b strings.Builder
	i := 0
	for i < len(s) {
		switch s[i] {
		case '<':
			j := strings.IndexByte(s[i:], '>')
			if j < 0 {
				return "", fmt.Errorf("unclosed tag")
			}
			tag := s[i+1 : i+j]
			if strings.ContainsRune(tag, '<') {
				return "", fmt.Errorf("'<' inside a tag")
			}
			name := strings.ToUpper(strings.TrimLeft(strings.Fields(tag + " ")[0], "/"))
			name = strings.TrimRight(name, "/")
			switch name {
			case "BR", "B", "I", "U", "O", "FONT", "TABLE", "TR", "TD", "SUB", "SUP", "S", "HR", "VR", "IMG":
			default:
				return "", fmt.Errorf("unknown tag <%s> in a label (unescaped text?)", clip(tag, 20))
			}
			if name == "BR" {
				b.WriteByte('\n')
			}
			i += j + 1
		case '>':
			return "", fmt.Errorf("raw '>' in label text")
		case '&':
			j := strings.IndexByte(s[i:], ';')
			if j < 0 || j > 8 {
				return "", fmt.Errorf("raw '&' in label text")
			}
			switch ent := s[i+1 : i+j]; ent {
			case "amp":
				b.WriteByte('&')
			case "lt":
				b.WriteByte('<')
			case "gt":
				b.WriteByte('>')
			case "quot":
				b.WriteByte('"')
			case "apos":
				b.WriteByte('\'')
			case "nbsp":
				b.WriteByte(' ')
			default:
				if !strings.HasPrefix(ent, "#") {
					return "", fmt.Errorf("unknown entity &%s;", ent)
				}
				b.WriteString("&" + ent + ";")
			}
			i += j + 1
		default:
			b.WriteByte(s[i])
			i++
		}
	}
	return b.String(), nil
}
