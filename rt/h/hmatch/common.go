// Package hmatch holds the checks that drive match.Match directly
// (C01 soundness, C02 completeness, C03 purity/determinism).
package hmatch

import (
	"fmt"
	"strings"

	"github.com/Comcast/sheens/verifrt/ref/rmatch"
	"github.com/Comcast/sheens/verifrt/vh"
)

var Checks = map[string]vh.CheckFunc{
	"C01": C01,
	"C02": C02,
	"C03": C03,
}

type M = map[string]interface{}

// shape abstracts a pattern to a structural signature used in violation keys.
func shape(p interface{}) string {
	switch v := p.(type) {
	case nil:
		return "z"
	case bool:
		return "b"
	case float64:
		return "n"
	case string:
		if rmatch.IsVar(v) {
			return varKind(v)
		}
		return "s"
	case map[string]interface{}:
		var parts []string
		for _, k := range sortedKeys(v) {
			kk := "k"
			if rmatch.IsVar(k) {
				kk = varKind(k)
			}
			parts = append(parts, kk+":"+shape(v[k]))
		}
		return "{" + strings.Join(parts, ",") + "}"
	case []interface{}:
		var parts []string
		for _, e := range v {
			parts = append(parts, shape(e))
		}
		return "[" + strings.Join(parts, ",") + "]"
	}
	return fmt.Sprintf("%T", p)
}

func varKind(v string) string {
	if v == "?" {
		return "?"
	}
	if strings.HasPrefix(v, "??") {
		return "??v"
	}
	if op, _, ok := rmatch.ParseIneq(v); ok {
		return "?" + op + "v"
	}
	return "?v"
}

func sortedKeys(m map[string]interface{}) []string {
	ks := make([]string, 0, len(m))
	for k := range m {
		ks = append(ks, k)
	}
	for i := 1; i < len(ks); i++ {
		for j := i; j > 0 && ks[j] < ks[j-1]; j-- {
			ks[j], ks[j-1] = ks[j-1], ks[j]
		}
	}
	return ks
}
