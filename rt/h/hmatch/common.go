// Package hmatch holds the checks that drive match.Match directly
// (C01 soundness, C02 completeness, C03 purity/determinism).
package hmatch

import (
	"fmt"
	"sort"
	"strings"

	"github.com/Comcast/sheens/match"
	"github.com/Comcast/sheens/verifrt/jgen"
	"github.com/Comcast/sheens/verifrt/ref/rmatch"
	"github.com/Comcast/sheens/verifrt/vh"
)

var Checks = map[string]vh.CheckFunc{
	"C01": C01,
	"C02": C02,
	"C03": C03,
}

type M = map[string]interface{}

// shape abstracts a pattern to a structural signature used in violation keys.
func shape(p interface{}) string {
	switch v := p.(type) {
	case nil:
		return "z"
	case bool:
		return "b"
	case float64:
		return "n"
	case string:
		if rmatch.IsVar(v) {
			return varKind(v)
		}
		return "s"
	case map[string]interface{}:
		var parts []string
		for _, k := range sortedKeys(v) {
			kk := "k"
			if rmatch.IsVar(k) {
				kk = varKind(k)
			}
			parts = append(parts, kk+":"+shape(v[k]))
		}
		return "{" + strings.Join(parts, ",") + "}"
	case []interface{}:
		var parts []string
		for _, e := range v {
			parts = append(parts, shape(e))
		}
		return "[" + strings.Join(parts, ",") + "]"
	}
	return fmt.Sprintf("%T", p)
}

func varKind(v string) string {
	if v == "?" {
		return "?"
	}
	if strings.HasPrefix(v, "??") {
		return "??v"
	}
	if op, _, ok := rmatch.ParseIneq(v); ok {
		return "?" + op + "v"
	}
	return "?v"
}

func sortedKeys(m map[string]interface{}) []string {
	ks := make([]string, 0, len(m))
	for k := range m {
		ks = append(ks, k)
	}
	for i := 1; i < len(ks); i++ {
		for j := i; j > 0 && ks[j] < ks[j-1]; j-- {
			ks[j], ks[j-1] = ks[j-1], ks[j]
		}
	}
	return ks
}

// ---- Go-typed numbers ------------------------------------------------------------------------------
//
// A host that builds messages, bindings or patterns in Go (rather than decoding JSON) hands the matcher
// ints, int64s, int32s and float32s; the matcher's documented stance (the "fudge" step) is that these are
// the numbers they denote.  So the result for any (P, M, B) must not depend on how its numbers are typed:
// a differential oracle over the float64 rendering, which the other families decide against the reference.

type goTypedCase struct {
	P    interface{} `json:"p"`
	M    interface{} `json:"m"`
	B    M           `json:"b"`
	Kind string      `json:"kind"` // int | int64 | int32 | float32
	Side string      `json:"side"` // m | p | b | pmb
}

var goKinds = []string{"int", "int64", "int32", "float32"}

func retype(x interface{}, kind string) interface{} {
	switch v := x.(type) {
	case float64:
		switch kind {
		case "int":
			return int(v)
		case "int64":
			return int64(v)
		case "int32":
			return int32(v)
		case "float32":
			return float32(v)
		}
		return v
	case map[string]interface{}:
		m := make(map[string]interface{}, len(v))
		for k, e := range v {
			m[k] = retype(e, kind)
		}
		return m
	case []interface{}:
		a := make([]interface{}, len(v))
		for i, e := range v {
			a[i] = retype(e, kind)
		}
		return a
	}
	return x
}

func hasNumber(x interface{}) bool {
	switch v := x.(type) {
	case float64:
		return true
	case map[string]interface{}:
		for _, e := range v {
			if hasNumber(e) {
				return true
			}
		}
	case []interface{}:
		for _, e := range v {
			if hasNumber(e) {
				return true
			}
		}
	}
	return false
}

// goTypedOne compares the typed rendering with the float64 rendering.  prop C01 reports results the
// float64 rendering does not have (and errors it does not raise are C02's: a match that is lost);
// prop C02 reports lost results and an error instead of a result.
func goTypedOne(c *vh.Ctx, prop string, cs goTypedCase) {
	c.Eval()
	run := func(p, m interface{}, b M) (map[string]bool, error) {
		bss, err := match.Match(p, m, match.Bindings(copyB(b)))
		set := map[string]bool{}
		for _, bs := range bss {
			set[rmatch.Canon(M(bs))] = true
		}
		return set, err
	}
	base, berr := run(cs.P, cs.M, cs.B)
	p, m, b := cs.P, cs.M, cs.B
	if strings.Contains(cs.Side, "p") {
		p = retype(p, cs.Kind)
	}
	if strings.Contains(cs.Side, "m") {
		m = retype(m, cs.Kind)
	}
	if strings.Contains(cs.Side, "b") {
		b = retype(b, cs.Kind).(M)
	}
	got, gerr := run(p, m, b)
	if len(base) > 0 {
		c.Nontrivial()
	}
	desc := fmt.Sprintf("Match(%s, %s, %s) with the numbers of [%s] typed %s", jgen.J(cs.P), jgen.J(cs.M), jgen.J(cs.B), cs.Side, cs.Kind)
	if prop == "C02" {
		if berr == nil && gerr != nil {
			c.Violation("C02/go-typed-numbers/error-instead-of-result/"+cs.Side, fmt.Sprintf("%s fails (%v); with float64 numbers it returns %v", desc, gerr, keysOf(base)), cs)
			return
		}
		for k := range base {
			if !got[k] {
				c.Violation("C02/go-typed-numbers/embedding-not-found/"+cs.Side, fmt.Sprintf("%s = %v misses %s, which is returned when the same numbers are float64", desc, keysOf(got), k), cs)
				return
			}
		}
		return
	}
	for k := range got {
		if !base[k] {
			c.Violation("C01/go-typed-numbers/result-not-contained/"+cs.Side, fmt.Sprintf("%s returns %s, which is not a result when the same numbers are float64 (%v, err %v)", desc, k, keysOf(base), berr), cs)
			return
		}
	}
}

func keysOf(s map[string]bool) []string {
	var out []string
	for k := range s {
		out = append(out, k)
	}
	sort.Strings(out)
	return out
}

// goTypedFamily: every small (P, M) pair of the C02 alphabet that contains a number, plus inequality
// variables with bounds and facts of every type, x kinds x sides.
func goTypedFamily(c *vh.Ctx, prop string) {
	ps, ms := c02PatSpec(), c02MsgSpec()
	pats, msgs := ps.UpTo(3), ms.UpTo(c.Pick(3, 4))
	var idx uint64
	for _, p := range pats {
		if dupScalars(p) {
			continue
		}
		for _, m := range msgs {
			if dupScalars(m) || (!hasNumber(p) && !hasNumber(m)) {
				continue
			}
			idx++
			if !c.Mine(idx) {
				continue
			}
			if c.Expired() {
				return
			}
			for _, kind := range goKinds {
				for _, side := range []string{"m", "p", "pm"} {
					if (side == "p" && !hasNumber(p)) || (side == "m" && !hasNumber(m)) {
						continue
					}
					goTypedOne(c, prop, goTypedCase{P: p, M: m, B: M{}, Kind: kind, Side: side})
					c.Count("gotyped_evaluations", 1)
				}
			}
		}
	}
	// bound variables and inequality bounds
	for _, v := range []string{"?x", "?<n", "?<=n", "?>n", "?>=n", "?!=n"} {
		for _, bound := range []float64{1, 2} {
			for _, fact := range []interface{}{1.0, 2.0, 3.0, "1", []interface{}{1.0, 2.0}, M{"k": 2.0}} {
				for _, wrap := range []string{"bare", "map", "array"} {
					idx++
					if !c.Mine(idx) {
						continue
					}
					var p, m interface{} = v, fact
					switch wrap {
					case "map":
						p, m = M{"a": v, "b": 1.0}, M{"a": fact, "b": 1.0, "c": 2.0}
					case "array":
						p, m = []interface{}{v, 1.0}, []interface{}{fact, 1.0}
					}
					for _, kind := range goKinds {
						for _, side := range []string{"m", "b", "mb", "pmb"} {
							goTypedOne(c, prop, goTypedCase{P: p, M: m, B: M{v: bound}, Kind: kind, Side: side})
							c.Count("gotyped_evaluations", 1)
						}
					}
				}
			}
		}
	}
}

// qmCases: null values and constant strings that contain question marks without being variables ("a?", "a??",
// "a?b": a variable starts with '?'), as pattern constants and message values, with the keys they sit under present,
// absent and null in the message.
func qmCases() []matchCase {
	ps := &jgen.Spec{Atoms: []interface{}{nil, "a?", "a??", "a"}, Vars: []string{"?x", "??o"}, Keys: []string{"a", "b"}, MaxArr: 2}
	ms := &jgen.Spec{Atoms: []interface{}{nil, "a?", "a??", "a"}, Keys: []string{"a", "b"}, MaxArr: 2}
	msgs := ms.UpTo(3)
	var out []matchCase
	for _, p := range ps.UpTo(3) {
		for _, m := range msgs {
			out = append(out, matchCase{P: p, M: m, B: M{}})
		}
	}
	// nested, and with a bound variable
	for _, v := range []interface{}{nil, "a?", "a"} {
		for _, w := range []interface{}{nil, "a?", "a", M{}, []interface{}{}} {
			out = append(out,
				matchCase{P: M{"a": M{"a": v, "b": "?x"}}, M: M{"a": M{"a": w, "b": "z"}}, B: M{}},
				matchCase{P: M{"a": M{"a": v, "b": "?x"}}, M: M{"a": M{"b": "z"}}, B: M{}},
				matchCase{P: []interface{}{M{"a": v}}, M: []interface{}{M{"a": w}, M{"b": w}}, B: M{}},
				matchCase{P: M{"a": "?x"}, M: M{"a": w}, B: M{"?x": v}},
				matchCase{P: M{"a": "?x", "b": "?x"}, M: M{"a": v, "b": w}, B: M{}},
				matchCase{P: M{"?k": v}, M: M{"p": w, "q": v}, B: M{}},
			)
		}
	}
	return out
}

// multiSetCases: map patterns in which two or three properties each admit several candidates (an array with a
// variable, an array with a structured element, a property variable), so that several candidate binding sets are
// alive and each gives several extensions: the result is the full product.
func multiSetCases() []matchCase {
	parts := []struct{ p, m interface{} }{
		{[]interface{}{"?V"}, []interface{}{1.0, 2.0}},
		{[]interface{}{"?V"}, []interface{}{1.0, 2.0, 3.0}},
		{[]interface{}{M{"k": "?V"}}, []interface{}{M{"k": 1.0}, M{"k": 2.0}}},
		{M{"?V": "v"}, M{"p": "v", "q": "v", "r": "w"}},
		{[]interface{}{"?V", "c"}, []interface{}{"c", 1.0, 2.0}},
		{"?V", 7.0},
	}
	inst := func(x interface{}, name string) interface{} {
		var f func(x interface{}) interface{}
		f = func(x interface{}) interface{} {
			switch v := x.(type) {
			case string:
				if v == "?V" {
					return name
				}
			case []interface{}:
				var o []interface{}
				for _, e := range v {
					o = append(o, f(e))
				}
				return o
			case map[string]interface{}:
				o := M{}
				for k, e := range v {
					if k == "?V" {
						k = name
					}
					o[k] = f(e)
				}
				return o
			}
			return x
		}
		return f(x)
	}
	var out []matchCase
	for _, a := range parts {
		for _, b := range parts {
			out = append(out, matchCase{P: M{"a": inst(a.p, "?x"), "b": inst(b.p, "?y")}, M: M{"a": a.m, "b": b.m, "other": 1.0}, B: M{}})
			for _, c3 := range parts[:3] {
				out = append(out, matchCase{P: M{"a": inst(a.p, "?x"), "b": inst(b.p, "?y"), "c": inst(c3.p, "?z")}, M: M{"a": a.m, "b": b.m, "c": c3.m}, B: M{}})
			}
		}
	}
	return out
}
