package hmatch

import (
	"fmt"
	"sort"

	"github.com/Comcast/sheens/match"
	"github.com/Comcast/sheens/verifrt/jgen"
	"github.com/Comcast/sheens/verifrt/ref/rmatch"
	"github.com/Comcast/sheens/verifrt/vh"
)

type c02Case struct {
	P     interface{} `json:"p"`
	M     interface{} `json:"m"`
	B     M           `json:"b"`
	Sigma M           `json:"sigma,omitempty"` // planted assignment (part b)
}

// dupScalars: does any array inside x hold the same scalar twice?
func dupScalars(x interface{}) bool {
	switch v := x.(type) {
	case map[string]interface{}:
		for _, e := range v {
			if dupScalars(e) {
				return true
			}
		}
	case []interface{}:
		seen := map[string]bool{}
		for _, e := range v {
			switch e.(type) {
			case map[string]interface{}, []interface{}:
				if dupScalars(e) {
					return true
				}
			default:
				k := fmt.Sprintf("%T:%v", e, e)
				if seen[k] {
					return true
				}
				seen[k] = true
			}
		}
	}
	return false
}

// varOccurrences counts occurrences of each variable (values and keys).
func varOccurrences(p interface{}, acc map[string]int) {
	switch v := p.(type) {
	case string:
		if rmatch.IsVar(v) {
			acc[v]++
		}
	case map[string]interface{}:
		for k, e := range v {
			if rmatch.IsVar(k) {
				acc[k]++
			}
			varOccurrences(e, acc)
		}
	case []interface{}:
		for _, e := range v {
			varOccurrences(e, acc)
		}
	}
}

func isScalar(x interface{}) bool {
	switch x.(type) {
	case map[string]interface{}, []interface{}:
		return false
	}
	return true
}

// completeness oracle for one (P, M, B): E ⊆ results; equality for plain patterns.
func checkComplete(cs c02Case) (clause, detail string, nE int, skipped bool) {
	E := rmatch.Embeddings(cs.P, cs.M, copyB(cs.B))
	occ := map[string]int{}
	varOccurrences(cs.P, occ)
	// side condition: a repeated variable takes scalar values only
	for v, n := range occ {
		if n > 1 && v != "?" {
			for _, e := range E {
				if val, ok := e[v]; ok && !isScalar(val) {
					return "", "", 0, true
				}
			}
			if bv, ok := cs.B[v]; ok && !isScalar(bv) {
				return "", "", 0, true
			}
		}
	}
	bss, err := match.Match(cs.P, cs.M, match.Bindings(copyB(cs.B)))
	if err != nil {
		if len(E) > 0 {
			return "error-instead-of-match", fmt.Sprintf("Match(%s, %s, %s) returned error %v; embeddings exist: %s", jgen.J(cs.P), jgen.J(cs.M), jgen.J(cs.B), err, rmatch.CanonSet(E)), len(E), false
		}
		return "", "", 0, false
	}
	got := map[string]bool{}
	for _, b := range bss {
		got[rmatch.Canon(M(b))] = true
	}
	for _, e := range E {
		if !got[rmatch.Canon(e)] {
			return "embedding-not-found", fmt.Sprintf("Match(%s, %s, %s) = %s misses the embedding %s", jgen.J(cs.P), jgen.J(cs.M), jgen.J(cs.B), canonBss(bss), rmatch.Canon(e)), len(E), false
		}
	}
	plain := len(cs.B) == 0
	for v, n := range occ {
		if v == "?" || n > 1 || rmatch.IsOptional(v) {
			plain = false
		}
		if _, _, ineq := rmatch.ParseIneq(v); ineq {
			plain = false
		}
	}
	if plain {
		want := rmatch.CanonKeys(E)
		for k := range got {
			if !want[k] {
				return "result-is-not-an-embedding", fmt.Sprintf("Match(%s, %s, {}) returned %s which is not an embedding (embeddings: %s)", jgen.J(cs.P), jgen.J(cs.M), k, rmatch.CanonSet(E)), len(E), false
			}
		}
	}
	return "", "", len(E), false
}

// reusedObject: completeness is about the pattern's value, not about the object that holds it.  An owner that keeps
// one map object and fills it with the next pattern (same number of properties, other keys) gets every assignment
// a freshly built equal pattern gets.
var c02Scratch = map[int]map[string]interface{}{}

func reusedObject(cs c02Case) (string, string) {
	pm, ok := cs.P.(map[string]interface{})
	if !ok || len(pm) < 2 {
		return "", ""
	}
	scratch := c02Scratch[len(pm)]
	if scratch == nil {
		scratch = map[string]interface{}{}
		c02Scratch[len(pm)] = scratch
	}
	for k := range scratch {
		delete(scratch, k)
	}
	for k, v := range pm {
		scratch[k+"_"] = jgen.Clone(v) // the object's earlier life: as many properties, other keys
	}
	match.Match(scratch, jgen.Clone(cs.M), match.Bindings(copyB(cs.B)))
	for k := range scratch {
		delete(scratch, k)
	}
	for k, v := range pm {
		scratch[k] = jgen.Clone(v)
	}
	r1, e1 := match.Match(scratch, jgen.Clone(cs.M), match.Bindings(copyB(cs.B)))
	r2, e2 := match.Match(jgen.Clone(cs.P), jgen.Clone(cs.M), match.Bindings(copyB(cs.B)))
	if (e1 == nil) != (e2 == nil) || (e1 == nil && canonBss(r1) != canonBss(r2)) {
		return "results-lost-for-a-reused-pattern-object", fmt.Sprintf("a map object that held another pattern of the same size before gives Match(%s, %s, %s) = %s (err %v); a freshly built equal pattern gives %s (err %v)", jgen.J(cs.P), jgen.J(cs.M), jgen.J(cs.B), canonBss(r1), e1, canonBss(r2), e2)
	}
	return "", ""
}

func canonBss(bss []match.Bindings) string {
	ms := make([]M, len(bss))
	for i, b := range bss {
		ms[i] = M(b)
	}
	return rmatch.CanonSet(ms)
}

func copyB(b M) M {
	n := make(M, len(b))
	for k, v := range b {
		n[k] = v
	}
	return n
}

func completeOne(c *vh.Ctx, cs c02Case, planted bool) {
	c.Eval()
	clause, detail, nE, skipped := checkComplete(cs)
	if skipped {
		c.Count("skipped_side_condition", 1)
		return
	}
	if nE > 0 {
		c.Nontrivial()
		if c.WantSample() && nE > 1 && jgen.Size(cs.P) >= 4 {
			c.Sample(cs)
		}
	}
	if planted && clause == "" {
		// the planted assignment itself must be among the results
		bss, err := match.Match(cs.P, cs.M, match.Bindings(copyB(cs.B)))
		found := false
		want := rmatch.Canon(cs.Sigma)
		for _, b := range bss {
			if rmatch.Canon(M(b)) == want {
				found = true
			}
		}
		if err != nil || !found {
			clause, detail = "planted-assignment-not-found", fmt.Sprintf("Match(%s, %s, %s) = %s (err %v) misses the planted assignment %s", jgen.J(cs.P), jgen.J(cs.M), jgen.J(cs.B), canonBss(bss), err, want)
		}
	}
	if clause == "" {
		clause, detail = reusedObject(cs)
		if clause != "" {
			c.Violation("C02/"+clause+"/"+shape(cs.P), detail, cs)
		}
		return
	}
	c2, _, _, _ := checkComplete(cs)
	if c2 != clause && clause != "planted-assignment-not-found" {
		c.Count("unreproduced", 1)
		c.NotExhaustive("a violation did not reproduce; not reported")
		return
	}
	c.Violation("C02/"+clause+"/"+shape(cs.P), detail, cs)
}

func c02PatSpec() *jgen.Spec {
	return &jgen.Spec{Atoms: []interface{}{"a", "b", 1.0}, Vars: []string{"?x", "?y", "?", "??o"}, Keys: []string{"a", "b"}, PropVars: []string{"?x", "?"}, MaxArr: 3}
}
func c02MsgSpec() *jgen.Spec {
	return &jgen.Spec{Atoms: []interface{}{"a", "b", 1.0}, Keys: []string{"a", "b"}, MaxArr: 3}
}

// ---- planting ---------------------------------------------------------------

var plantValues = []interface{}{"a", 1.0, nil, M{"a": "b"}, []interface{}{"b"}}

// instantiate substitutes sigma into p (anonymous variables get "anon"; a property variable its key).
func instantiate(p interface{}, sigma M) interface{} {
	switch v := p.(type) {
	case string:
		if rmatch.IsVar(v) {
			if v == "?" {
				return "anon"
			}
			return jgen.Clone(sigma[v])
		}
		return v
	case map[string]interface{}:
		m := M{}
		for k, e := range v {
			kk := k
			if rmatch.IsVar(k) {
				if k == "?" {
					kk = "anykey"
				} else {
					kk, _ = sigma[k].(string)
				}
			}
			m[kk] = instantiate(e, sigma)
		}
		return m
	case []interface{}:
		a := make([]interface{}, len(v))
		for i, e := range v {
			a[i] = instantiate(e, sigma)
		}
		return a
	}
	return p
}

// assignments enumerates sigma over the pattern's named variables subject to the side conditions.
func assignments(p interface{}) []M {
	occ := map[string]int{}
	varOccurrences(p, occ)
	keyVars := map[string]bool{}
	var walk func(x interface{})
	walk = func(x interface{}) {
		switch v := x.(type) {
		case map[string]interface{}:
			for k, e := range v {
				if rmatch.IsVar(k) {
					keyVars[k] = true
				}
				walk(e)
			}
		case []interface{}:
			for _, e := range v {
				walk(e)
			}
		}
	}
	walk(p)
	var names []string
	for v := range occ {
		if v != "?" {
			names = append(names, v)
		}
	}
	sort.Strings(names)
	out := []M{{}}
	for _, v := range names {
		var vals []interface{}
		switch {
		case keyVars[v]:
			vals = []interface{}{"a", "c"} // must be a usable key
		case occ[v] > 1:
			vals = []interface{}{"a", 1.0} // repeated variables take scalar values
		default:
			vals = plantValues
		}
		var next []M
		for _, s := range out {
			for _, val := range vals {
				n := copyB(s)
				n[v] = val
				next = append(next, n)
			}
		}
		out = next
	}
	return out
}

// distractions returns every message obtained from m by one insertion
// (an extra key in some map, an extra element in some array).
func distractions(m interface{}) []interface{} {
	var out []interface{}
	var rec func(x interface{}, rebuild func(interface{}) interface{})
	rec = func(x interface{}, rebuild func(interface{}) interface{}) {
		switch v := x.(type) {
		case map[string]interface{}:
			for _, k := range []string{"a", "b", "z"} {
				if _, have := v[k]; have {
					continue
				}
				for _, val := range []interface{}{"a", 1.0, M{"a": "b"}, []interface{}{"a"}} {
					n := jgen.Clone(v).(map[string]interface{})
					n[k] = val
					out = append(out, rebuild(n))
				}
			}
			for k, e := range v {
				k := k
				rec(e, func(ne interface{}) interface{} {
					n := jgen.Clone(v).(map[string]interface{})
					n[k] = ne
					return rebuild(n)
				})
			}
		case []interface{}:
			cands := []interface{}{"a", "b", 1.0, 2.0, M{}, []interface{}{}}
			for _, e := range v {
				switch ee := e.(type) {
				case map[string]interface{}:
					// near-copies of a structured sibling
					n := jgen.Clone(ee).(map[string]interface{})
					n["z"] = "extra"
					cands = append(cands, n)
					for k := range ee {
						n2 := jgen.Clone(ee).(map[string]interface{})
						n2[k] = "changed"
						cands = append(cands, n2)
						n3 := jgen.Clone(ee).(map[string]interface{})
						delete(n3, k)
						cands = append(cands, n3)
					}
				case []interface{}:
					cands = append(cands, append(jgen.Clone(ee).([]interface{}), "extra"))
				}
			}
			for _, cnd := range cands {
				for _, front := range []bool{false, true} {
					var n []interface{}
					if front {
						n = append([]interface{}{cnd}, jgen.Clone(v).([]interface{})...)
					} else {
						n = append(jgen.Clone(v).([]interface{}), cnd)
					}
					if dupScalars(n) {
						continue
					}
					out = append(out, rebuild(n))
				}
			}
			for i, e := range v {
				i := i
				rec(e, func(ne interface{}) interface{} {
					n := jgen.Clone(v).([]interface{})
					n[i] = ne
					return rebuild(n)
				})
			}
		}
	}
	rec(m, func(x interface{}) interface{} { return x })
	return out
}

// arrayVarSideCondition: a value planted under an array variable differs from
// that array's other members (arrays are sets).
func plantedOK(p interface{}, sigma M) bool {
	return !dupScalars(instantiate(p, sigma)) && !arrayVarEqualsMember(p, sigma)
}

func arrayVarEqualsMember(p interface{}, sigma M) bool {
	switch v := p.(type) {
	case map[string]interface{}:
		for _, e := range v {
			if arrayVarEqualsMember(e, sigma) {
				return true
			}
		}
	case []interface{}:
		for _, e := range v {
			if s, ok := e.(string); ok && rmatch.IsVar(s) && s != "?" {
				val := rmatch.Canon(sigma[s])
				for _, o := range v {
					if os, ok := o.(string); ok && rmatch.IsVar(os) {
						continue
					}
					// the planted value must not be containable in a constant member either
					if rmatch.Canon(instantiate(o, sigma)) == val {
						return true
					}
				}
			}
			if arrayVarEqualsMember(e, sigma) {
				return true
			}
		}
	}
	return false
}

// substituteClash is set when a planted key collides with an inserted key (the message is then dropped).
var substituteClash bool

// substitute replaces planted-value placeholders by the planted values (keys included).
func substitute(x interface{}, sigma M) interface{} {
	const pre = "\x00planted:"
	switch v := x.(type) {
	case string:
		if len(v) > len(pre) && v[:len(pre)] == pre {
			return jgen.Clone(sigma[v[len(pre):]])
		}
		return v
	case map[string]interface{}:
		m := M{}
		for k, e := range v {
			kk := k
			if len(k) > len(pre) && k[:len(pre)] == pre {
				kk, _ = sigma[k[len(pre):]].(string)
			}
			if _, clash := m[kk]; clash {
				substituteClash = true
			}
			m[kk] = substitute(e, sigma)
		}
		return m
	case []interface{}:
		a := make([]interface{}, len(v))
		for i, e := range v {
			a[i] = substitute(e, sigma)
		}
		return a
	}
	return x
}

// C02: completeness.
func C02(c *vh.Ctx) {
	if c.Replay != "" {
		var gt goTypedCase
		if c.LoadReplay(&gt) == nil && gt.Kind != "" {
			goTypedOne(c, "C02", gt)
			return
		}
		var cs c02Case
		if c.LoadReplay(&cs) == nil {
			completeOne(c, cs, cs.Sigma != nil)
		}
		return
	}
	ps, ms := c02PatSpec(), c02MsgSpec()
	pmax, mmax := c.Pick(4, 4), c.Pick(5, 6)
	pats := ps.UpTo(pmax)
	msgs := []interface{}{}
	for _, m := range ms.UpTo(mmax) {
		if !dupScalars(m) {
			msgs = append(msgs, m)
		}
	}
	c.Bound("a_pattern_nodes_max", pmax)
	c.Bound("a_message_nodes_max", mmax)
	plantP, plantD := 4, 2
	c.Bound("b_pattern_nodes_max", plantP)
	c.Bound("b_distractors_max", plantD)
	if c.Shard == 0 {
		c.Count("a_patterns", int64(len(pats)))
		c.Count("a_messages", int64(len(msgs)))
	}
	c.Rule("(a) every (pattern, message) over the two-letter alphabet (keys {a,b}, atoms {\"a\",\"b\",1}, variables ?x ?y ? ??o, property variables ?x ?) up to the node bounds, messages without duplicate scalar array members, patterns without duplicate scalar array members: the reference backtracking enumerator's embeddings must all be returned, and for plain patterns the result set must equal them; cases where a repeated variable would take a structured value are skipped (side condition). (b) planting: every pattern up to a larger bound x every assignment of values to its variables (side conditions enforced) x every message = instantiated pattern plus up to k insertions (extra keys in any map; extra elements in any array incl. near-copies of structured siblings, front and back) x pre-binding none/each single variable: the planted assignment must be returned. (d) in context: every pair with a pattern of up to 3 nodes once more as one property of a larger pattern whose other property yields two candidate binding sets (an array variable over two elements evaluated before it, a property variable over two keys evaluated after it). (e) look-alikes: arrays and maps holding scalars of different JSON types that print alike (1 / \"1\", true / \"true\", null / \"null\", 0 / false / \"\"). (f) Go-typed numbers: every small pair that contains a number, and bound variables / inequality bounds, with the numbers of the message, the pattern, the bindings or all of them typed int, int64, int32 or float32: no result of the float64 rendering may be lost. (g) nulls and constant strings that contain question marks without being variables, under keys that are present, absent or null in the message. (h) map patterns in which two or three properties each admit several candidates (array variables, structured array elements, property variables): the full product of candidates must be returned. (c) wide arrays: 2-5 structured pattern elements with distinct variables (with/without an array variable) against as many or one more ambiguous message elements: all injections must be returned. Odometer, duplicate-free; non-trivial = at least one embedding exists.")
	for i, p := range pats {
		if !c.Mine(uint64(i)) {
			continue
		}
		if c.Expired() {
			return
		}
		if dupScalars(p) {
			continue
		}
		for _, m := range msgs {
			completeOne(c, c02Case{P: p, M: m, B: M{}}, false)
			c.Count("a_evaluations", 1)
		}
	}
	// (d) in context: every small pair again as a part of a larger pattern in which another part yields two
	// candidate binding sets - before the part is reached (sorted key order) and after it
	smallP, smallM := ps.UpTo(3), []interface{}{}
	for _, m := range ms.UpTo(c.Pick(4, 5)) {
		if !dupScalars(m) {
			smallM = append(smallM, m)
		}
	}
	for i, p := range smallP {
		if !c.Mine(uint64(i)) || dupScalars(p) {
			continue
		}
		if c.Expired() {
			return
		}
		for _, m := range smallM {
			completeOne(c, c02Case{P: M{"a0": []interface{}{"?c"}, "k": p}, M: M{"a0": []interface{}{1.0, 2.0}, "k": m, "other": "x"}, B: M{}}, false)
			completeOne(c, c02Case{P: M{"k": p, "z": M{"?c": "v"}}, M: M{"k": m, "z": M{"p": "v", "q": "v", "r": "w"}}, B: M{}}, false)
			c.Count("d_evaluations", 2)
		}
	}
	// (e) scalars of different types that print alike, as array members and values
	for i, cs := range lookAlikeCases() {
		if c.Mine(uint64(i)) {
			completeOne(c, c02Case{P: cs.P, M: cs.M, B: cs.B}, false)
			c.Count("e_evaluations", 1)
		}
	}
	// (g) nulls and constant strings that contain question marks; (h) several set-valued properties
	for i, cs := range append(qmCases(), multiSetCases()...) {
		if dupScalars(cs.P) || dupScalars(cs.M) {
			continue // arrays are sets (side condition of the property)
		}
		if c.Mine(uint64(i)) {
			completeOne(c, c02Case{P: cs.P, M: cs.M, B: cs.B}, false)
			c.Count("g_h_evaluations", 1)
		}
	}
	// (f) numbers typed as a Go host types them
	goTypedFamily(c, "C02")
	// (c) wide arrays: every injection of 2-5 structured pattern elements into the message elements must be returned
	for i, cs := range wideArrayCases() {
		if c.Mine(uint64(i)) {
			completeOne(c, c02Case{P: cs.P, M: cs.M, B: cs.B}, false)
			c.Count("c_evaluations", 1)
		}
	}
	// (b)
	type plantTier struct{ p, d int }
	tiers := []plantTier{{plantP, plantD}}
	if !c.Quick() {
		// thorough: larger patterns with fewer distractors, and the quick patterns with more
		tiers = []plantTier{{5, 1}, {4, 3}}
		c.Bound("b_tiers", "patterns<=5 nodes with <=1 distractor; patterns<=4 nodes with <=3 distractors")
	}
	for _, pt := range tiers {
		plantD := pt.d
		plantPats := ps.UpTo(pt.p)
		for i, p := range plantPats {
			if !c.Mine(uint64(i)) {
				continue
			}
			if c.Expired() {
				return
			}
			if dupScalars(p) {
				continue
			}
			for _, sigma := range assignments(p) {
				if !plantedOK(p, sigma) {
					continue
				}
				// distractors go around the planted values, never inside them: an unbound variable
				// binds the whole message part, so growing that part changes the assignment itself
				ph := M{}
				for v := range sigma {
					ph[v] = "\x00planted:" + v
				}
				m0 := instantiate(p, ph)
				level := []interface{}{m0}
				seen := map[string]bool{rmatch.Canon(m0): true}
				all := []interface{}{m0}
				for d := 0; d < plantD; d++ {
					var next []interface{}
					for _, m := range level {
						for _, dm := range distractions(m) {
							k := rmatch.Canon(dm)
							if !seen[k] {
								seen[k] = true
								next = append(next, dm)
							}
						}
					}
					all = append(all, next...)
					level = next
					if len(all) > 4000 {
						break
					}
				}
				// pre-bindings: none, and each single variable
				bs := []M{{}}
				for v, val := range sigma {
					bs = append(bs, M{v: val})
				}
				for _, mph := range all {
					substituteClash = false
					m := substitute(mph, sigma)
					if substituteClash || dupScalars(m) {
						continue
					}
					for _, b := range bs {
						completeOne(c, c02Case{P: p, M: m, B: b, Sigma: sigma}, true)
						c.Count("b_evaluations", 1)
					}
				}
				c.Count("planted_assignments", 1)
			}
		}
	}
}
