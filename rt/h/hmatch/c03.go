package hmatch

import (
	"fmt"
	"os"
	"sync"

	"github.com/Comcast/sheens/match"
	"github.com/Comcast/sheens/verifrt/jgen"
	"github.com/Comcast/sheens/verifrt/snap"
	"github.com/Comcast/sheens/verifrt/vexplore"
	"github.com/Comcast/sheens/verifrt/vh"
)

type c03Case struct {
	P       interface{} `json:"p"`
	M       interface{} `json:"m"`
	B       M           `json:"b"`
	Choices []int       `json:"choices,omitempty"` // map-iteration choices of the deviating execution
	// BadAt/BadKind: a value of a Go type that is not a legal pattern type is put under this
	// top-level key of the pattern at run time (such values do not survive JSON, hence the indirection)
	BadAt   string `json:"bad_at,omitempty"`
	BadKind string `json:"bad_kind,omitempty"`
}

func (cs c03Case) pattern() interface{} {
	p := jgen.Clone(cs.P)
	if cs.BadAt != "" {
		m := p.(map[string]interface{})
		switch cs.BadKind {
		case "uint":
			m[cs.BadAt] = uint(1)
		case "yaml-map":
			m[cs.BadAt] = map[interface{}]interface{}{"k": "v"}
		case "string-slice":
			m[cs.BadAt] = []string{"x"}
		default:
			m[cs.BadAt] = struct{ X int }{1}
		}
	}
	return p
}

func outcomeOf(bss []match.Bindings, err error) string {
	if err != nil {
		return "ERROR"
	}
	return canonBss(bss)
}

// c03Extra: the two families the property names explicitly.
func c03Extra() []c03Case {
	vals := []interface{}{M{"p": 1.0}, M{"p": 1.0, "q": 2.0}, []interface{}{1.0}, []interface{}{1.0, 2.0}, 1.0, M{"p": M{"r": 1.0}}, M{"p": M{"r": 1.0, "s": 2.0}}}
	pats := []interface{}{
		M{"a": "?x", "b": "?x"},
		M{"a": "?x", "b": M{"c": "?x"}},
		M{"a": "?x", "b": "?x", "c": "?x"},
		M{"a": []interface{}{"?x"}, "b": "?x"},
		M{"a": M{"p": "?y"}, "b": "?y", "c": "?x"},
		[]interface{}{M{"a": "?x"}, M{"b": "?x"}},
	}
	var out []c03Case
	for _, p := range pats {
		for _, v1 := range vals {
			for _, v2 := range vals {
				out = append(out, c03Case{P: p, M: M{"a": v1, "b": v2, "c": v1}, B: M{}})
				out = append(out, c03Case{P: p, M: M{"a": v1, "b": M{"c": v2}, "c": v2}, B: M{}})
				out = append(out, c03Case{P: p, M: []interface{}{M{"a": v1, "b": v2}, M{"b": v1, "a": v2}}, B: M{}})
			}
		}
	}
	// array ambiguity: a structured pattern element that fits several message elements, next to something
	// that depends on which one it took (another structured element, the array's variable) - the matcher
	// keeps the message elements in a map, so which one is tried first is the runtime's choice
	elems := []interface{}{M{"a": 1.0}, M{}, M{"a": "?"}, M{"a": "??o"}, M{"a": "?y"}, []interface{}{1.0}, M{"a": M{}}}
	others := []interface{}{"?x", M{"a": 1.0, "b": "?x"}, M{"b": "?x"}, M{"a": "?x"}, M{"a": 1.0, "b": 2.0}, "??o", 1.0}
	amsgs := [][]interface{}{
		{M{"a": 1.0}, M{"a": 1.0, "b": 2.0}},
		{M{"a": 1.0, "b": 2.0}, M{"a": 1.0}},
		{M{"a": 1.0, "b": 2.0}, M{"a": 1.0, "b": 3.0}},
		{M{"a": 1.0}, M{"a": 1.0, "b": 2.0}, M{"a": 1.0, "b": 3.0}},
		{M{"a": 1.0}, M{"a": 1.0}, 1.0},
		{M{"a": 1.0, "b": 2.0}, M{"a": 2.0, "b": 2.0}, M{"a": 1.0}},
		{[]interface{}{1.0}, []interface{}{1.0, 2.0}, M{"a": M{"c": 1.0}, "b": 2.0}, M{"a": M{}}},
	}
	for _, e := range elems {
		for _, o := range others {
			for _, am := range amsgs {
				out = append(out, c03Case{P: []interface{}{e, o}, M: am, B: M{}})
				out = append(out, c03Case{P: M{"k": []interface{}{o, e}}, M: M{"k": am}, B: M{}})
			}
			out = append(out, c03Case{P: []interface{}{e, e, o}, M: amsgs[3], B: M{}})
		}
	}
	for i, cs := range lookAlikeCases() {
		if i%3 == 0 {
			out = append(out, c03Case{P: cs.P, M: cs.M, B: cs.B})
		}
	}
	// invalid at one key, merely non-matching at another
	bad := []interface{}{
		M{"a": M{"?k": 1.0, "z": 2.0}, "b": "zz"},
		M{"a": []interface{}{"?x", "?y"}, "b": "zz"},
		M{"a": []interface{}{"?x", "?x"}, "b": "zz", "c": 1.0},
		M{"b": M{"a": M{"?k": 1.0, "z": 2.0}, "b": "zz"}},
	}
	msgs := []interface{}{
		M{"a": M{"z": 2.0, "y": 1.0}, "b": "yy", "c": 1.0},
		M{"a": M{"z": 2.0, "y": 1.0}, "b": "zz", "c": 1.0},
		M{"a": []interface{}{1.0, 2.0}, "b": "yy", "c": 2.0},
		M{"a": []interface{}{1.0, 2.0}, "b": "zz", "c": 1.0},
		M{"b": M{"a": M{"z": 2.0}, "b": "yy"}},
		M{"b": "zz"},
	}
	for _, p := range bad {
		for _, m := range msgs {
			out = append(out, c03Case{P: p, M: m, B: M{}})
		}
	}
	// a value of an unsupported Go type under one key, a plain mismatch (or a match) under the others
	for _, kind := range []string{"uint", "yaml-map", "string-slice", "struct"} {
		for _, at := range []string{"a", "b", "c"} {
			for _, p := range []interface{}{M{"a": "x", "b": "x", "c": "x"}, M{"a": "x", "b": "?v"}, M{"b": "x", "c": 1.0}} {
				for _, m := range []interface{}{M{"a": "y", "b": "y", "c": "y"}, M{"a": "x", "b": "x", "c": "x"}, M{"a": M{"k": "v"}, "b": "y", "c": 1.0}} {
					out = append(out, c03Case{P: p, M: m, B: M{}, BadAt: at, BadKind: kind})
				}
			}
		}
	}
	return out
}

func c03One(c *vh.Ctx, cs c03Case, bound int) {
	c.Eval()
	p, m := cs.pattern(), jgen.Clone(cs.M)
	b := match.Bindings(copyB(cs.B))
	before := [3]string{snap.Of(p), snap.Of(m), snap.Of(b)}
	var first string
	var firstChoices []int
	haveFirst := false
	reported := false
	var bss []match.Bindings
	var err error
	runs, capped := vexplore.Orders(bound, 20000, func() {
		bss, err = match.Match(p, m, b)
	}, func(choices []int) {
		o := outcomeOf(bss, err)
		c.R.Transitions++
		if !haveFirst {
			first, firstChoices, haveFirst = o, append([]int{}, choices...), true
			// (2) arguments untouched, (3) results independent
			after := [3]string{snap.Of(p), snap.Of(m), snap.Of(b)}
			for i, what := range []string{"pattern", "message", "bindings"} {
				if after[i] != before[i] {
					c.Violation("C03/"+what+"-modified/"+shape(cs.P), fmt.Sprintf("Match(%s, %s, %s) modified its %s argument", jgen.J(cs.P), jgen.J(cs.M), jgen.J(cs.B), what), cs)
				}
			}
			ids := map[uintptr]bool{snap.MapID(b): true}
			for _, r := range bss {
				id := snap.MapID(r)
				if ids[id] {
					c.Violation("C03/result-shares-a-map/"+shape(cs.P), fmt.Sprintf("Match(%s, %s, %s): a returned binding set is the same map as the given bindings or as another result", jgen.J(cs.P), jgen.J(cs.M), jgen.J(cs.B)), cs)
					break
				}
				ids[id] = true
			}
			if len(bss) > 0 {
				others := make([]string, len(bss))
				for i, r := range bss {
					others[i] = snap.Of(r)
				}
				bss[0]["\x00probe"] = 1.0
				if snap.Of(b) != before[2] {
					c.Violation("C03/result-write-reaches-bindings/"+shape(cs.P), "writing to a returned binding set changed the given bindings", cs)
				}
				for i := 1; i < len(bss); i++ {
					if snap.Of(bss[i]) != others[i] {
						c.Violation("C03/result-write-reaches-other-result/"+shape(cs.P), "writing to a returned binding set changed another result", cs)
						break
					}
				}
				delete(bss[0], "\x00probe")
			}
			return
		}
		if o != first && !reported {
			reported = true
			cs2 := cs
			cs2.Choices = append([]int{}, choices...)
			c.Violation("C03/result-depends-on-map-order/"+shape(cs.P),
				fmt.Sprintf("Match(%s, %s, %s) gives %s under the sorted map order (choices %v) and %s under iteration choices %v", jgen.J(cs.P), jgen.J(cs.M), jgen.J(cs.B), first, firstChoices, o, choices), cs2)
		}
	})
	if vexplore.Diverged != "" {
		// the explorer replays the very same call on the very same objects: a different sequence of map
		// iterations means Match's behaviour depends on what it did before
		c.Violation("C03/evaluation-depends-on-earlier-calls/"+shape(cs.P), fmt.Sprintf("Match(%s, %s, %s) evaluated again on the same arguments iterated its maps differently (%s): its behaviour depends on earlier calls", jgen.J(cs.P), jgen.J(cs.M), jgen.J(cs.B), vexplore.Diverged), cs)
	}
	c03History(c, cs)
	if runs > 1 {
		c.Nontrivial()
		c.R.States++
	}
	if capped {
		c.NotExhaustive("order exploration of one case was capped at 20000 executions")
	}
	if c.WantSample() && runs > 6 {
		c.Sample(map[string]interface{}{"case": cs, "orders_explored": runs})
	}
}

// c03History: Match must be a function of the *values* it is given, not of what it has seen before
// at the same addresses: a pattern map that has been matched, then edited in place by its owner
// (one key renamed to another key of the message, same size), must match exactly like a freshly
// built equal map.
func c03History(c *vh.Ctx, cs c03Case) {
	pm, ok := cs.pattern().(map[string]interface{})
	mm, ok2 := cs.M.(map[string]interface{})
	if !ok || !ok2 || len(pm) == 0 || cs.BadAt != "" {
		return
	}
	b := match.Bindings(copyB(cs.B))
	for _, k := range sortedKeys(pm) {
		for _, k2 := range sortedKeys(mm) {
			if _, have := pm[k2]; have {
				continue
			}
			used := jgen.Clone(pm).(map[string]interface{})
			match.Match(used, jgen.Clone(cs.M), b) // the map is matched once ...
			used[k2] = used[k]                     // ... then edited in place, keeping its size
			delete(used, k)
			fresh := jgen.Clone(used)
			r1, e1 := match.Match(used, jgen.Clone(cs.M), b)
			r2, e2 := match.Match(fresh, jgen.Clone(cs.M), b)
			c.Count("history_evaluations", 1)
			if outcomeOf(r1, e1) != outcomeOf(r2, e2) {
				c.Violation("C03/result-depends-on-earlier-calls/"+shape(cs.P),
					fmt.Sprintf("pattern %s was matched, then its key %q was renamed to %q in place; matching it again against %s gives %s, but a freshly built equal pattern %s gives %s",
						jgen.J(cs.P), k, k2, jgen.J(cs.M), outcomeOf(r1, e1), jgen.J(fresh), outcomeOf(r2, e2)), cs)
				return
			}
		}
	}
}

// c03Race: the same pattern/message/bindings objects matched from 3 goroutines (run in the -race binary).
func c03Race(c *vh.Ctx, cs c03Case) {
	c.Eval()
	p, m := cs.pattern(), jgen.Clone(cs.M)
	b := match.Bindings(copyB(cs.B))
	want, werr := match.Match(p, m, b)
	wo := outcomeOf(want, werr)
	var wg sync.WaitGroup
	outs := make([]string, 3)
	for g := 0; g < 3; g++ {
		wg.Add(1)
		go func(g int) {
			defer wg.Done()
			bss, err := match.Match(p, m, b)
			outs[g] = outcomeOf(bss, err)
		}(g)
	}
	wg.Wait()
	c.Nontrivial()
	for _, o := range outs {
		if o != wo {
			c.Violation("C03/concurrent-result-differs/"+shape(cs.P), fmt.Sprintf("concurrent Match(%s, %s, %s) gave %s; alone %s", jgen.J(cs.P), jgen.J(cs.M), jgen.J(cs.B), o, wo), cs)
		}
	}
}

// C03: Match is pure and deterministic.
func C03(c *vh.Ctx) {
	race := os.Getenv("VERIF_RACE") == "1"
	bound := c.Pick(1, 2)
	if c.Replay != "" {
		var cs c03Case
		if c.LoadReplay(&cs) == nil {
			c03One(c, cs, bound)
		}
		return
	}
	ps, ms := patSpec(), msgSpec()
	pmax, mmax := 3, c.Pick(3, 4)
	c.Bound("pattern_nodes_max", pmax)
	c.Bound("message_nodes_max", mmax)
	c.Bound("deviating_range_executions_max", bound)
	c.Rule("the C01 triple space at the stated size, plus patterns that use one variable at several places against structured values, array patterns whose structured elements fit several message elements next to an element or variable that depends on which was taken, patterns that are invalid at one key and merely non-matching at another, nulls and constant strings with question marks, and map patterns in which two or three properties each admit several candidates; for every triple every combination of map-iteration orders with at most k deviating range executions (every `range` over a map in package match is routed through vrange.Keys; all n! orders for n<=4) - the canonical result multiset and the success/error outcome must be the same in all of them; deep snapshots of pattern, message and bindings before/after; returned maps must be distinct objects, independent of the given bindings and of each other; a pattern map that was matched and then edited in place (same size) must match like a freshly built equal map. Race pass (separate -race binary): the same argument objects matched from 3 goroutines with no synchronisation, results equal to the sequential one, ThreadSanitizer silent. states = triples with more than one order, transitions = executions; non-trivial = more than one order explored.")
	var all []c03Case
	for _, p := range ps.UpTo(pmax) {
		bs := bindingsFor(p)
		for _, m := range ms.UpTo(mmax) {
			for _, b := range bs {
				if len(b) > 1 {
					continue
				}
				all = append(all, c03Case{P: p, M: m, B: b})
			}
		}
	}
	all = append(all, c03Extra()...)
	for _, cs := range append(qmCases(), multiSetCases()...) {
		all = append(all, c03Case{P: cs.P, M: cs.M, B: cs.B})
	}
	if c.Shard == 0 {
		c.Count("triples", int64(len(all)))
	}
	for i, cs := range all {
		if !c.Mine(uint64(i)) {
			continue
		}
		if c.Expired() {
			return
		}
		if race {
			if i%7 == 0 || i >= len(all)-2000 {
				c03Race(c, cs)
			}
			continue
		}
		c03One(c, cs, bound)
	}
}
