package hmatch

import (
	"fmt"
	"sort"

	"github.com/Comcast/sheens/match"
	"github.com/Comcast/sheens/verifrt/jgen"
	"github.com/Comcast/sheens/verifrt/ref/rmatch"
	"github.com/Comcast/sheens/verifrt/vh"
)

type matchCase struct {
	P interface{} `json:"p"`
	M interface{} `json:"m"`
	B M           `json:"b"`
}

var c01PatAtoms = []interface{}{1.0, 2.0, "a", true, nil}
var c01Vars = []string{"?x", "?y", "?", "??o", "?<n", "?>=n", "?!=n"}

func patSpec() *jgen.Spec {
	return &jgen.Spec{Atoms: c01PatAtoms, Vars: c01Vars, Keys: []string{"a", "b"}, PropVars: []string{"?x", "?"}, MaxArr: 3}
}
func msgSpec() *jgen.Spec {
	return &jgen.Spec{Atoms: []interface{}{1.0, 2.0, "a", true, nil}, Keys: []string{"a", "b"}, MaxArr: 3}
}

// bindingsFor enumerates the initial bindings tried for a pattern: the empty
// set, every single named variable (or plain counterpart of an inequality
// variable) bound to each value of its value list, and every pair over a
// shorter list.
func bindingsFor(p interface{}) []M {
	vs := map[string]bool{}
	rmatch.Vars(p, vs)
	names := []string{}
	for v := range vs {
		if v == "?" {
			continue
		}
		names = append(names, v)
		if _, plain, ok := rmatch.ParseIneq(v); ok && !vs[plain] {
			names = append(names, plain)
		}
	}
	sort.Strings(names)
	long := func(v string) []interface{} {
		if _, _, ok := rmatch.ParseIneq(v); ok {
			return []interface{}{1.0, 2.0, "a"}
		}
		if v == "?n" {
			return []interface{}{1.0, 2.0, "a"}
		}
		return []interface{}{1.0, 2.0, "a", "b", nil, true, M{"a": 1.0}, []interface{}{1.0}, M{"a": 1.0, "b": 2.0}, []interface{}{M{"a": 1.0}}}
	}
	short := func(v string) []interface{} {
		if _, _, ok := rmatch.ParseIneq(v); ok {
			return []interface{}{1.0, 2.0}
		}
		if v == "?n" {
			return []interface{}{1.0, "a"}
		}
		return []interface{}{1.0, "a", M{"a": 1.0}}
	}
	out := []M{{}}
	for _, v := range names {
		for _, val := range long(v) {
			out = append(out, M{v: val})
		}
	}
	for i := 0; i < len(names); i++ {
		for j := i + 1; j < len(names); j++ {
			for _, a := range short(names[i]) {
				for _, b := range short(names[j]) {
					out = append(out, M{names[i]: a, names[j]: b})
				}
			}
		}
	}
	return out
}

// checkSound runs one triple and returns (clause, detail) of the first violated clause.
func checkSound(c *vh.Ctx, cs matchCase) (string, string, int) {
	bss, err := match.Match(cs.P, cs.M, match.Bindings(cs.B))
	if err != nil {
		if c != nil {
			c.Count("match_errors", 1)
		}
		return "", "", 0
	}
	for _, r := range bss {
		if why := rmatch.Valid(cs.P, cs.M, cs.B, M(r)); why != "" {
			return why, fmt.Sprintf("Match(%s, %s, %s) returned %s: %s", jgen.J(cs.P), jgen.J(cs.M), jgen.J(cs.B), jgen.J(r), why), len(bss)
		}
	}
	return "", "", len(bss)
}

func soundOne(c *vh.Ctx, cs matchCase, hasVars bool) {
	c.Eval()
	why, detail, n := checkSound(c, cs)
	if n > 0 && hasVars {
		c.Nontrivial()
		if c.WantSample() && len(cs.B) > 0 && jgen.Size(cs.P) >= 3 {
			c.Sample(cs)
		}
	}
	if n > 0 {
		c.Count("evaluations_with_result", 1)
	}
	if why != "" {
		// deterministic machinery: the same case must fail again
		w2, _, _ := checkSound(nil, cs)
		w3, _, _ := checkSound(nil, cs)
		if w2 != why || w3 != why {
			c.Count("unreproduced", 1)
			c.NotExhaustive("a violation did not reproduce on re-execution (nondeterminism in the machinery); not reported")
			return
		}
		c.Violation("C01/"+why+"/"+shape(cs.P), detail, cs)
	}
}

// C01: soundness of Match over (S1) all small triples and (S2) pattern-directed messages.
func C01(c *vh.Ctx) {
	if c.Replay != "" {
		var gt goTypedCase
		if c.LoadReplay(&gt) == nil && gt.Kind != "" {
			goTypedOne(c, "C01", gt)
			return
		}
		var hc struct {
			Refused *matchCase `json:"refused"`
			Then    *matchCase `json:"then"`
		}
		if c.LoadReplay(&hc) == nil && hc.Refused != nil && hc.Then != nil {
			c.Eval()
			match.Match(hc.Refused.P, hc.Refused.M, match.Bindings(copyB(hc.Refused.B)))
			if why, detail, _ := checkSound(nil, *hc.Then); why != "" {
				c.Violation("C01/after-a-refused-match/"+why+"/"+shape(hc.Then.P), detail, hc)
			}
			return
		}
		var cs matchCase
		if err := c.LoadReplay(&cs); err != nil {
			c.NotExhaustive("cannot load replay: " + err.Error())
			return
		}
		soundOne(c, cs, true)
		return
	}
	ps, ms := patSpec(), msgSpec()
	pmax, mmax := c.Pick(4, 4), c.Pick(4, 5)
	c.Bound("S1_pattern_nodes_max", pmax)
	c.Bound("S1_message_nodes_max", mmax)
	c.Rule("S1: every (pattern,message,bindings) with |P|<=bound, |M|<=bound over atoms {1,2,\"a\",true,null}, keys {a,b}, variables " + fmt.Sprint(c01Vars) +
		", bindings = {} / each variable x value list / each pair x short list. S2 (pattern-directed): every pattern with variables up to a larger bound over a two-letter alphabet (incl. inequality variables), every assignment of planted values / inequality bounds, messages = the instantiated pattern plus every combination of up to k edits (insertions of extra keys/elements incl. near-copies, atom changes, dropped keys, dropped or duplicated array elements), bindings = the inequality bounds plus nothing / each variable pre-bound to its planted value, to generalisations of it, or to conflicting values; the unedited core also wrapped 1-4 levels deep. S3 (wide arrays): pattern arrays of 2-5 structured elements with distinct variables (maps, arrays, mixed; with and without an array variable; bare and under a key) against message arrays with as many or one more ambiguous elements. S5 (bound arrays): a variable given, or bound earlier in the same match, to a value holding an array of 2-3 members (scalars, maps, arrays, repeated members), against message arrays with fewer members that cover several of them. S7 (operator-like names): variables named ?!n ?=n ?<>n ?=<n ?>>n ?< ?!= ?!<n ?<=n in patterns of up to 3 nodes, with every binding of bindingsFor, against messages of up to 3 nodes. S6 (Go-typed numbers): every small pair that contains a number, and bound variables / inequality bounds, with the numbers of the message, the pattern, the bindings or all of them typed int, int64, int32 or float32: no result beyond those of the float64 rendering. S8: nulls and constant strings that contain question marks without being variables (\"a?\", \"a??\") as pattern constants and message values under keys that are present, absent or null. S9: map patterns in which two or three properties each admit several candidates. S10: a refused match (a pattern outside the supported fragment met half way through an array of scalars) followed by ordinary array matches. S4 (look-alikes): scalars of different JSON types that print alike (1 / \"1\", true / \"true\", null / \"null\", 0 / false / \"\") as array members, map values, property-variable values and bound values. Enumeration is an odometer (duplicate-free); non-trivial = Match returned >=1 binding set for a pattern that has variables.")
	pats := ps.UpTo(pmax)
	msgs := ms.UpTo(mmax)
	if c.Shard == 0 {
		c.Count("S1_patterns", int64(len(pats)))
		c.Count("S1_messages", int64(len(msgs)))
	}
	for i, p := range pats {
		if !c.Mine(uint64(i)) {
			continue
		}
		if c.Expired() {
			return
		}
		bs := bindingsFor(p)
		vs := map[string]bool{}
		rmatch.Vars(p, vs)
		for _, m := range msgs {
			for _, b := range bs {
				soundOne(c, matchCase{p, m, b}, len(vs) > 0)
			}
		}
	}
	c01S2(c)
	// S7: variables whose names begin with operator characters without spelling one of the five relations
	// (and some that do, in odd ways): what is not an inequality variable is an ordinary variable
	{
		opSpec := &jgen.Spec{Atoms: []interface{}{1.0, 2.0, "a"}, Vars: []string{"?!n", "?=n", "?<>n", "?=<n", "?>>n", "?<", "?!=", "?!<n", "?<=n"}, Keys: []string{"a", "b"}, MaxArr: 2}
		opMsgs := (&jgen.Spec{Atoms: []interface{}{1.0, 2.0, "a"}, Keys: []string{"a", "b"}, MaxArr: 2}).UpTo(3)
		for i, p := range opSpec.UpTo(3) {
			if !c.Mine(uint64(i)) {
				continue
			}
			vs := map[string]bool{}
			rmatch.Vars(p, vs)
			if len(vs) == 0 {
				continue
			}
			for _, b := range bindingsFor(p) {
				for _, m := range opMsgs {
					soundOne(c, matchCase{p, m, b}, true)
					c.Count("S7_evaluations", 1)
				}
			}
		}
	}
	// S8: nulls and constant strings that contain question marks; S9: several set-valued properties
	for i, cs := range append(qmCases(), multiSetCases()...) {
		if c.Mine(uint64(i)) {
			soundOne(c, cs, true)
			c.Count("S8_S9_evaluations", 1)
		}
	}
	// S10: what a match that was refused (a pattern outside the supported fragment met half way through an array)
	// leaves behind must not show in the next match
	{
		refused := []matchCase{
			{P: M{"tags": []interface{}{M{"?k": 1.0, "z": 2.0}}}, M: M{"tags": []interface{}{"secret", 42.0, M{"z": 2.0}}}, B: M{}},
			{P: []interface{}{[]interface{}{"?a", "?b"}}, M: []interface{}{"secret", 42.0, []interface{}{1.0, 2.0}}, B: M{}},
			{P: []interface{}{M{"a": []interface{}{"?a", "?b"}}, "?x"}, M: []interface{}{"secret", true, nil, M{"a": []interface{}{1.0}}}, B: M{}},
			{P: M{"a": []interface{}{"?x", M{"?k": 1.0, "b": 1.0}}}, M: M{"a": []interface{}{"secret", 42.0, M{"b": 1.0}}}, B: M{}},
		}
		next := []matchCase{
			{P: M{"tags": []interface{}{"?x"}}, M: M{"tags": []interface{}{"b"}}, B: M{}},
			{P: []interface{}{"secret"}, M: []interface{}{"other"}, B: M{}},
			{P: []interface{}{"?n", "a"}, M: []interface{}{"a", 7.0}, B: M{"?n": 42.0}},
			{P: []interface{}{"?x"}, M: []interface{}{}, B: M{}},
			{P: []interface{}{"?x", M{"p": "?y"}}, M: []interface{}{M{"p": 1.0}}, B: M{}},
			{P: M{"a": []interface{}{42.0}}, M: M{"a": []interface{}{41.0}}, B: M{}},
			{P: []interface{}{"??o"}, M: []interface{}{}, B: M{}},
		}
		if c.Shard == 0 || c.Shards == 1 {
			for _, r := range refused {
				for _, n := range next {
					// the history as a whole is the case: a refused match (an error - only what it leaves behind
					// matters), then the ordinary one; a failure must reproduce when the history is run again
					hist := func() (string, string) {
						match.Match(r.P, r.M, match.Bindings(copyB(r.B)))
						why, detail, _ := checkSound(nil, n)
						if why == "" {
							// also: a match that finds nothing must find nothing
							if bss, err := match.Match(n.P, n.M, match.Bindings(copyB(n.B))); err == nil && len(bss) > 0 && len(rmatch.Embeddings(n.P, n.M, n.B)) == 0 {
								return "matches-what-the-reference-cannot-embed", fmt.Sprintf("after a refused match, Match(%s, %s, %s) = %s", jgen.J(n.P), jgen.J(n.M), jgen.J(n.B), jgen.J(bss))
							}
						}
						return why, detail
					}
					c.Eval()
					c.Count("S10_evaluations", 1)
					if why, detail := hist(); why != "" {
						w2, _ := hist()
						w3, _ := hist()
						if w2 != why || w3 != why {
							c.Count("unreproduced", 1)
							c.NotExhaustive("a violation after a refused match did not reproduce when the history was run again; not reported")
							continue
						}
						c.Violation("C01/after-a-refused-match/"+why+"/"+shape(n.P), "after Match had refused "+jgen.J(r.P)+" against "+jgen.J(r.M)+": "+detail, map[string]interface{}{"refused": r, "then": n})
					}
				}
			}
		}
	}
	// S6: numbers typed as a Go host types them
	goTypedFamily(c, "C01")
	// S5: bound variables holding arrays
	for i, cs := range boundArrayCases() {
		if c.Mine(uint64(i)) {
			soundOne(c, cs, true)
			c.Count("S5_evaluations", 1)
		}
	}
	// S4: scalars of different types that print alike
	for i, cs := range lookAlikeCases() {
		if c.Mine(uint64(i)) {
			soundOne(c, cs, true)
			c.Count("S4_evaluations", 1)
		}
	}
	// S3: wide arrays - several structured pattern elements competing for several ambiguous message elements
	for i, cs := range wideArrayCases() {
		if c.Mine(uint64(i)) {
			soundOne(c, cs, true)
			c.Count("S3_evaluations", 1)
		}
	}
}

// wideArrayCases: pattern arrays with 2-5 structured elements (each with its own variable), with and
// without an array variable, against message arrays with as many or one more ambiguous elements
// (optionally mixed with scalars); bare and under a key.
func wideArrayCases() []matchCase {
	var out []matchCase
	names := []string{"?a", "?b", "?c", "?d", "?e"}
	for n := 2; n <= 5; n++ {
		for _, withVar := range []bool{false, true} {
			for extra := 0; extra <= 1; extra++ {
				for _, scalars := range []int{0, 1} {
					for _, shape := range []string{"map", "array", "mixed"} {
						var pa, ma []interface{}
						for i := 0; i < n; i++ {
							switch {
							case shape == "map" || (shape == "mixed" && i%2 == 0):
								pa = append(pa, M{"k": names[i]})
							default:
								pa = append(pa, []interface{}{names[i]})
							}
						}
						if withVar {
							pa = append(pa, "?x")
						}
						for i := 0; i < n+extra; i++ {
							switch {
							case shape == "map" || (shape == "mixed" && i%2 == 0):
								ma = append(ma, M{"k": float64(i + 1)})
							default:
								ma = append(ma, []interface{}{float64(i + 1)})
							}
						}
						for i := 0; i < scalars; i++ {
							ma = append([]interface{}{"s"}, ma...)
						}
						out = append(out, matchCase{P: pa, M: ma, B: M{}}, matchCase{P: M{"items": pa}, M: M{"items": ma, "other": 1.0}, B: M{}})
						out = append(out, matchCase{P: pa, M: ma, B: M{"?a": float64(n)}})
					}
				}
			}
		}
	}
	return out
}

// lookAlikeCases: scalars of different JSON types that print alike (1 and "1", true and "true", null and
// "null", 0 and false and "") as array members, map values and bound values - strict typing is part of
// "scalars equal".
func lookAlikeCases() []matchCase {
	atoms := []interface{}{1.0, "1", true, "true", nil, "null", 0.0, false, "", "a"}
	var out []matchCase
	for i, a := range atoms {
		for j, b := range atoms {
			if i == j {
				continue
			}
			ma2 := []interface{}{a, b}
			out = append(out,
				matchCase{P: []interface{}{a, "?x"}, M: ma2, B: M{}},
				matchCase{P: []interface{}{"?x"}, M: ma2, B: M{}},
				matchCase{P: []interface{}{a}, M: []interface{}{b}, B: M{}},
				matchCase{P: []interface{}{a, b}, M: ma2, B: M{}},
				matchCase{P: []interface{}{b, a}, M: ma2, B: M{}},
				matchCase{P: M{"k": a}, M: M{"k": b}, B: M{}},
				matchCase{P: M{"k": "?x", "l": "?x"}, M: M{"k": a, "l": b}, B: M{}},
				matchCase{P: M{"k": "?x"}, M: M{"k": a}, B: M{"?x": b}},
				matchCase{P: M{"k": []interface{}{"?x", a}}, M: M{"k": []interface{}{a, b, "z"}}, B: M{}},
				matchCase{P: []interface{}{"?x"}, M: ma2, B: M{"?x": a}},
				matchCase{P: M{"?k": a}, M: M{"p": a, "q": b}, B: M{}},
			)
			for k, c3 := range atoms {
				if k == i || k == j {
					continue
				}
				out = append(out, matchCase{P: []interface{}{a, "?x"}, M: []interface{}{a, b, c3}, B: M{}}, matchCase{P: []interface{}{a, b}, M: []interface{}{b, c3, a}, B: M{}})
			}
		}
	}
	return out
}

// boundArrayCases: a variable that is already bound (given, or bound earlier in the same match) to a value
// holding an array of two or three members, against message arrays with fewer, covering members: a bound
// value is re-used as a sub-pattern, so its array members need distinct message members too.
func boundArrayCases() []matchCase {
	elems := []interface{}{1.0, "a", M{"p": 1.0}, M{"q": 2.0}, M{"p": 1.0, "q": 2.0}, []interface{}{1.0}}
	var arrays []interface{}
	for _, a := range elems {
		for _, b := range elems {
			arrays = append(arrays, []interface{}{a, b})
		}
	}
	arrays = append(arrays, []interface{}{M{"p": 1.0}, M{"q": 2.0}, M{"p": 1.0}}, []interface{}{1.0, 1.0, 1.0})
	msgArrays := []interface{}{
		[]interface{}{M{"p": 1.0, "q": 2.0}}, []interface{}{1.0}, []interface{}{"a", 1.0}, []interface{}{M{"p": 1.0}}, []interface{}{M{"p": 1.0, "q": 2.0}, "a"},
		[]interface{}{[]interface{}{1.0, 2.0}}, []interface{}{M{"p": 1.0, "q": 2.0}, M{"p": 1.0}}, []interface{}{},
	}
	var out []matchCase
	for _, arr := range arrays {
		for _, ma := range msgArrays {
			out = append(out,
				matchCase{P: M{"a": "?x"}, M: M{"a": ma}, B: M{"?x": arr}},
				matchCase{P: "?x", M: ma, B: M{"?x": arr}},
				matchCase{P: M{"a": "?x", "b": "?x"}, M: M{"a": arr, "b": ma}, B: M{}},
				matchCase{P: M{"a": "?x"}, M: M{"a": M{"deep": ma}}, B: M{"?x": M{"deep": arr}}},
				matchCase{P: []interface{}{"?x"}, M: []interface{}{ma}, B: M{"?x": arr}},
				matchCase{P: M{"?k": "?x"}, M: M{"p": ma, "q": arr}, B: M{"?x": arr}},
			)
		}
	}
	return out
}

// mutations returns every message obtained from m by one destructive edit: change an atom,
// drop a key, drop or duplicate an array element.
func mutations(m interface{}) []interface{} {
	var out []interface{}
	var rec func(x interface{}, rebuild func(interface{}) interface{})
	rec = func(x interface{}, rebuild func(interface{}) interface{}) {
		switch v := x.(type) {
		case map[string]interface{}:
			for k := range v {
				n := jgen.Clone(v).(map[string]interface{})
				delete(n, k)
				out = append(out, rebuild(n))
			}
			for k, e := range v {
				k := k
				rec(e, func(ne interface{}) interface{} {
					n := jgen.Clone(v).(map[string]interface{})
					n[k] = ne
					return rebuild(n)
				})
			}
		case []interface{}:
			for i := range v {
				n := append(append([]interface{}{}, v[:i]...), v[i+1:]...)
				out = append(out, rebuild(jgen.Clone(n)))
				d := append(append([]interface{}{}, v...), jgen.Clone(v[i]))
				out = append(out, rebuild(jgen.Clone(d)))
			}
			for i, e := range v {
				i := i
				rec(e, func(ne interface{}) interface{} {
					n := jgen.Clone(v).([]interface{})
					n[i] = ne
					return rebuild(n)
				})
			}
		default:
			for _, a := range []interface{}{"a", "b", 1.0, 2.0, nil, true, map[string]interface{}{}, []interface{}{}} {
				if rmatch.Canon(a) != rmatch.Canon(x) {
					out = append(out, rebuild(a))
				}
			}
		}
	}
	rec(m, func(x interface{}) interface{} { return x })
	return out
}

// generalisations of a planted value (sub-patterns that contain it) and a conflicting value
func preBindings(v string, planted interface{}) []interface{} {
	out := []interface{}{planted}
	switch pv := planted.(type) {
	case map[string]interface{}:
		out = append(out, map[string]interface{}{})
		for k := range pv {
			n := jgen.Clone(pv).(map[string]interface{})
			delete(n, k)
			out = append(out, n)
		}
	case []interface{}:
		out = append(out, []interface{}{})
	}
	out = append(out, "conflict", 7.0, map[string]interface{}{"zz": 1.0})
	return out
}

func wrap(p, m interface{}, depth int) (interface{}, interface{}) {
	for i := 0; i < depth; i++ {
		if i%2 == 0 {
			p, m = map[string]interface{}{"a": p}, map[string]interface{}{"a": m, "b": "side"}
		} else {
			p, m = []interface{}{p, 1.0}, []interface{}{"side", m, 1.0}
		}
	}
	return p, m
}

// c01S2: pattern-directed soundness - larger patterns, messages near an instantiation, pre-bound
// variables as themselves / as generalisations / in conflict, inequality bounds, depth wrapping.
func c01S2(c *vh.Ctx) {
	ps := &jgen.Spec{Atoms: []interface{}{"a", "b", 1.0}, Vars: []string{"?x", "?y", "?", "??o", "?<n", "?!=n"}, Keys: []string{"a", "b"}, PropVars: []string{"?x", "?"}, MaxArr: 3}
	pmax := c.Pick(4, 5)
	edits := c.Pick(1, 2)
	c.Bound("S2_pattern_nodes_max", pmax)
	c.Bound("S2_edits_max", edits)
	pats := ps.UpTo(pmax)
	if c.Shard == 0 {
		c.Count("S2_patterns", int64(len(pats)))
	}
	for i, p := range pats {
		if !c.Mine(uint64(i)) {
			continue
		}
		if c.Expired() {
			return
		}
		if jgen.Size(p) < 3 {
			continue // S1 covers the small ones exhaustively
		}
		vs := map[string]bool{}
		rmatch.Vars(p, vs)
		if len(vs) == 0 {
			continue
		}
		for _, sigma := range c01Assignments(p, vs) {
			m0 := instantiate(p, sigma.msg)
			level := []interface{}{m0}
			all := []interface{}{m0}
			seen := map[string]bool{rmatch.Canon(m0): true}
			for d := 0; d < edits; d++ {
				var next []interface{}
				for _, m := range level {
					for _, dm := range append(distractions(m), mutations(m)...) {
						k := rmatch.Canon(dm)
						if !seen[k] {
							seen[k] = true
							next = append(next, dm)
						}
					}
				}
				all = append(all, next...)
				level = next
				if len(all) > 1500 {
					break
				}
			}
			// bindings: the inequality bounds always; plus nothing / each other variable pre-bound in several ways
			var bss []M
			bss = append(bss, copyB(sigma.bounds))
			for v, planted := range sigma.msg {
				if _, _, ineq := rmatch.ParseIneq(v); ineq {
					continue
				}
				for _, val := range preBindings(v, planted) {
					b := copyB(sigma.bounds)
					b[v] = val
					bss = append(bss, b)
				}
			}
			for mi, m := range all {
				for _, b := range bss {
					soundOne(c, matchCase{p, m, b}, true)
					c.Count("S2_evaluations", 1)
				}
				if mi == 0 {
					for depth := 1; depth <= 4; depth++ {
						wp, wm := wrap(p, m, depth)
						for _, b := range bss {
							soundOne(c, matchCase{wp, wm, b}, true)
							c.Count("S2_deep_evaluations", 1)
						}
					}
				}
			}
		}
	}
}

type c01Sigma struct {
	msg    M // what stands in the message at each variable's place
	bounds M // pre-bound inequality variables
}

func c01Assignments(p interface{}, vs map[string]bool) []c01Sigma {
	var names []string
	for v := range vs {
		if v != "?" {
			names = append(names, v)
		}
	}
	sort.Strings(names)
	occ := map[string]int{}
	varOccurrences(p, occ)
	out := []c01Sigma{{msg: M{}, bounds: M{}}}
	for _, v := range names {
		var next []c01Sigma
		_, _, ineq := rmatch.ParseIneq(v)
		for _, s := range out {
			if ineq {
				for _, mv := range []interface{}{1.0, 2.0} {
					for _, bound := range []interface{}{1.0, 2.0} {
						n := c01Sigma{msg: copyB(s.msg), bounds: copyB(s.bounds)}
						n.msg[v], n.bounds[v] = mv, bound
						next = append(next, n)
					}
				}
				continue
			}
			vals := plantValues
			if occ[v] > 1 {
				vals = []interface{}{"a", 1.0, M{"a": "b"}}
			}
			for _, val := range vals {
				n := c01Sigma{msg: copyB(s.msg), bounds: copyB(s.bounds)}
				n.msg[v] = val
				next = append(next, n)
			}
		}
		out = next
		if len(out) > 64 {
			out = out[:64]
		}
	}
	return out
}
