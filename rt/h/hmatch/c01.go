package hmatch

import (
	"fmt"
	"sort"

	"github.com/Comcast/sheens/match"
	"github.com/Comcast/sheens/verifrt/jgen"
	"github.com/Comcast/sheens/verifrt/ref/rmatch"
	"github.com/Comcast/sheens/verifrt/vh"
)

type matchCase struct {
	P interface{} `json:"p"`
	M interface{} `json:"m"`
	B M           `json:"b"`
}

var c01PatAtoms = []interface{}{1.0, 2.0, "a", true, nil}
var c01Vars = []string{"?x", "?y", "?", "??o", "?<n", "?>=n", "?!=n"}

func patSpec() *jgen.Spec {
	return &jgen.Spec{Atoms: c01PatAtoms, Vars: c01Vars, Keys: []string{"a", "b"}, PropVars: []string{"?x", "?"}, MaxArr: 3}
}
func msgSpec() *jgen.Spec {
	return &jgen.Spec{Atoms: []interface{}{1.0, 2.0, "a", true, nil}, Keys: []string{"a", "b"}, MaxArr: 3}
}

// bindingsFor enumerates the initial bindings tried for a pattern: the empty
// set, every single named variable (or plain counterpart of an inequality
// variable) bound to each value of its value list, and every pair over a
// shorter list.
func bindingsFor(p interface{}) []M {
	vs := map[string]bool{}
	rmatch.Vars(p, vs)
	names := []string{}
	for v := range vs {
		if v == "?" {
			continue
		}
		names = append(names, v)
		if _, plain, ok := rmatch.ParseIneq(v); ok && !vs[plain] {
			names = append(names, plain)
		}
	}
	sort.Strings(names)
	long := func(v string) []interface{} {
		if _, _, ok := rmatch.ParseIneq(v); ok {
			return []interface{}{1.0, 2.0, "a"}
		}
		if v == "?n" {
			return []interface{}{1.0, 2.0, "a"}
		}
		return []interface{}{1.0, 2.0, "a", "b", nil, true, M{"a": 1.0}, []interface{}{1.0}, M{"a": 1.0, "b": 2.0}, []interface{}{M{"a": 1.0}}}
	}
	short := func(v string) []interface{} {
		if _, _, ok := rmatch.ParseIneq(v); ok {
			return []interface{}{1.0, 2.0}
		}
		if v == "?n" {
			return []interface{}{1.0, "a"}
		}
		return []interface{}{1.0, "a", M{"a": 1.0}}
	}
	out := []M{{}}
	for _, v := range names {
		for _, val := range long(v) {
			out = append(out, M{v: val})
		}
	}
	for i := 0; i < len(names); i++ {
		for j := i + 1; j < len(names); j++ {
			for _, a := range short(names[i]) {
				for _, b := range short(names[j]) {
					out = append(out, M{names[i]: a, names[j]: b})
				}
			}
		}
	}
	return out
}

// checkSound runs one triple and returns (clause, detail) of the first violated clause.
func checkSound(c *vh.Ctx, cs matchCase) (string, string, int) {
	bss, err := match.Match(cs.P, cs.M, match.Bindings(cs.B))
	if err != nil {
		if c != nil {
			c.Count("match_errors", 1)
		}
		return "", "", 0
	}
	for _, r := range bss {
		if why := rmatch.Valid(cs.P, cs.M, cs.B, M(r)); why != "" {
			return why, fmt.Sprintf("Match(%s, %s, %s) returned %s: %s", jgen.J(cs.P), jgen.J(cs.M), jgen.J(cs.B), jgen.J(r), why), len(bss)
		}
	}
	return "", "", len(bss)
}

func soundOne(c *vh.Ctx, cs matchCase, hasVars bool) {
	c.Eval()
	why, detail, n := checkSound(c, cs)
	if n > 0 && hasVars {
		c.Nontrivial()
		if c.WantSample() && len(cs.B) > 0 && jgen.Size(cs.P) >= 3 {
			c.Sample(cs)
		}
	}
	if n > 0 {
		c.Count("evaluations_with_result", 1)
	}
	if why != "" {
		// deterministic machinery: the same case must fail again
		w2, _, _ := checkSound(nil, cs)
		w3, _, _ := checkSound(nil, cs)
		if w2 != why || w3 != why {
			c.Count("unreproduced", 1)
			c.NotExhaustive("a violation did not reproduce on re-execution (nondeterminism in the machinery); not reported")
			return
		}
		c.Violation("C01/"+why+"/"+shape(cs.P), detail, cs)
	}
}

// C01: soundness of Match over (S1) all small triples and (S2) pattern-directed messages.
func C01(c *vh.Ctx) {
	if c.Replay != "" {
		var cs matchCase
		if err := c.LoadReplay(&cs); err != nil {
			c.NotExhaustive("cannot load replay: " + err.Error())
			return
		}
		soundOne(c, cs, true)
		return
	}
	ps, ms := patSpec(), msgSpec()
	pmax, mmax := c.Pick(4, 4), c.Pick(4, 5)
	c.Bound("S1_pattern_nodes_max", pmax)
	c.Bound("S1_message_nodes_max", mmax)
	c.Rule("S1: every (pattern,message,bindings) with |P|<=bound, |M|<=bound over atoms {1,2,\"a\",true,null}, keys {a,b}, variables " + fmt.Sprint(c01Vars) +
		", bindings = {} / each variable x value list / each pair x short list. Enumeration is an odometer (duplicate-free); non-trivial = Match returned >=1 binding set for a pattern that has variables.")
	pats := ps.UpTo(pmax)
	msgs := ms.UpTo(mmax)
	if c.Shard == 0 {
		c.Count("S1_patterns", int64(len(pats)))
		c.Count("S1_messages", int64(len(msgs)))
	}
	for i, p := range pats {
		if !c.Mine(uint64(i)) {
			continue
		}
		if c.Expired() {
			return
		}
		bs := bindingsFor(p)
		vs := map[string]bool{}
		rmatch.Vars(p, vs)
		for _, m := range msgs {
			for _, b := range bs {
				soundOne(c, matchCase{p, m, b}, len(vs) > 0)
			}
		}
	}
}
