// Package hcorec holds the concurrent checks on core and the ECMAScript
// interpreter (engine E2): C12 (shared immutable spec, atomic swap) and the
// concurrent half of C10.
package hcorec

import (
	"context"
	"fmt"
	"os"
	"strings"

	"github.com/Comcast/sheens/core"
	"github.com/Comcast/sheens/match"
	"github.com/Comcast/sheens/verifrt/actlang"
	"github.com/Comcast/sheens/verifrt/ref/rstep"
	"github.com/Comcast/sheens/verifrt/sched"
	"github.com/Comcast/sheens/verifrt/snap"
	"github.com/Comcast/sheens/verifrt/tickctx"
	"github.com/Comcast/sheens/verifrt/vh"
)

var Checks = map[string]vh.CheckFunc{
	"C12":  C12,
	"C18c": C18c,
}

type M = map[string]interface{}
type Op = actlang.Op

// walker: one machine processed against the shared spec.
type walker struct {
	Name     string        `json:"name"`
	Bs       M             `json:"bs"`
	Msgs     []interface{} `json:"msgs"`
	CancelAt int           `json:"cancel_at,omitempty"` // cancel this walker's context at its k-th tick
}

type c12Scenario struct {
	Kind    string   `json:"kind"`           // shared | swap
	Spec    string   `json:"spec,omitempty"` // "" | custom-error-node | no-auto-error-node
	Walkers []walker `json:"walkers"`
	Swaps   int      `json:"swaps,omitempty"`
	// Derive: the swapper does not install versions prepared beforehand; it derives each new version from the one
	// in service the documented way - Spec.Copy, edit what was inherited in place, Compile - while walks are in flight
	Derive bool `json:"derive,omitempty"`
}

// deriveVersion makes version n out of the specification in service: a copy whose inherited nodes and branches
// are edited in place until it is what sharedSpec(n) describes, then compiled.
func deriveVersion(cur *core.Spec, version int) (*core.Spec, error) {
	target := sharedSpec(version).Raw()
	nv := cur.Copy(fmt.Sprint(version))
	nv.ActionErrorBranches, nv.ActionErrorNode, nv.ErrorNode, nv.NoAutoErrorNode = target.ActionErrorBranches, target.ActionErrorNode, target.ErrorNode, target.NoAutoErrorNode
	for name, tn := range target.Nodes {
		n, have := nv.Nodes[name]
		if !have || n == nil {
			nv.Nodes[name] = tn
			continue
		}
		n.Action, n.ActionSource = tn.Action, tn.ActionSource
		if tn.Branches == nil || n.Branches == nil {
			n.Branches = tn.Branches
			continue
		}
		n.Branches.Type = tn.Branches.Type
		for i, tb := range tn.Branches.Branches {
			if i < len(n.Branches.Branches) && n.Branches.Branches[i] != nil {
				b := n.Branches.Branches[i] // the branch object the copy came with
				b.Pattern, b.Guard, b.GuardSource, b.Target = tb.Pattern, tb.Guard, tb.GuardSource, tb.Target
			} else {
				n.Branches.Branches = append(n.Branches.Branches, tb)
			}
		}
		n.Branches.Branches = n.Branches.Branches[:len(tn.Branches.Branches)]
	}
	for name := range nv.Nodes {
		if _, keep := target.Nodes[name]; !keep {
			delete(nv.Nodes, name)
		}
	}
	if err := nv.Compile(context.Background(), nil, true); err != nil {
		return nil, err
	}
	return nv, nil
}

type c12Case struct {
	Scenario c12Scenario `json:"scenario"`
	Choices  []int       `json:"choices"`
	Sizes    []int       `json:"sizes"`
	Trace    []string    `json:"trace,omitempty"`
}

// sharedSpec: native and ECMAScript actions and guards, succeeding and failing, each with yields.
func sharedSpec(version int) *rstep.ASpec {
	v := float64(version)
	tick := Op{K: actlang.Tick}
	return &rstep.ASpec{ActionErrorNode: "errh", Nodes: map[string]*rstep.ANode{
		// patterns of every kind live in the shared spec: arrays (a variable next to constants), property
		// variables, optional and inequality variables - the matcher gets the spec's own pattern objects
		"start": {Type: "message", Branches: []rstep.ABranch{
			// an unguarded branch that a message may match in several ways: the step fails, for this machine alone
			{Pattern: M{"go": "?g", "many": []interface{}{"?m"}}, Target: "a"},
			{Pattern: M{"go": "?g", "pollute": true}, Target: "pollute"},
			{Pattern: M{"go": "?g", "probe": true}, Target: "probe"},
			{Pattern: M{"go": "?g", "tags": []interface{}{"?t", "x", "y"}}, Target: "a"},
			{Pattern: M{"go": "?g", "opt": M{"?k": "??o"}}, Target: "a"},
			{Pattern: M{"go": "?g"}, Target: "a"}}},
		"a": {Action: actlang.P(true, tick, Op{K: actlang.Set, A: "a", V: v}, tick, Op{K: actlang.Emit, V: M{"at": "a", "v": v}}),
			Branches: []rstep.ABranch{{Pattern: M{"fail": "native"}, Target: "nfail"},
				// a short script without yield points (for a walker whose context is already dead it runs to completion)
				{Pattern: M{"short": true}, Guard: actlang.P(false, Op{K: actlang.Set, A: "s", V: v}), Target: "done"},
				{Target: "b"}}},
		"done": {NoBranches: true},
		// one machine's script leaves things behind in its environment and completes; another machine's script looks
		// for them: it must find the environment of a first execution, whatever ran before it against this spec
		"pollute": {Action: actlang.P(false, tick, Op{K: actlang.Raw, A: `Array.prototype.extra = function() { return 1; }; Object.prototype.tainted = 1; globalThis.leak = 1; Math.floor = function() { return 0; };`}, tick),
			Branches: []rstep.ABranch{{Target: "start"}}},
		"probe": {Action: actlang.P(false, tick, Op{K: actlang.Raw, A: `var n = 0; for (var k in [1, 2, 3]) { n++; } bs.clean = (n == 3) && (({}).tainted === undefined) && (typeof leak === "undefined") && (Math.floor(1.5) == 1);`}, tick),
			Branches: []rstep.ABranch{{Target: "start"}}},
		"b": {Action: actlang.P(false, tick, Op{K: actlang.Raw, A: "bs.n = (bs.n || 0) + 1; _.out({at: 'b', id: bs.id, n: bs.n, v: " + fmt.Sprint(version) + "});"}, tick),
			Branches: []rstep.ABranch{
				{Pattern: M{"fail": "js"}, Target: "jfail"},
				{Pattern: M{"id": "?id"}, Guard: actlang.P(false, tick, Op{K: actlang.Set, A: "guarded", V: true}), Target: "c"}}},
		"c": {Action: actlang.P(true, tick, Op{K: actlang.Emit, V: M{"at": "c", "v": v}}),
			Branches: []rstep.ABranch{{Pattern: M{"reject": true}, Guard: actlang.P(true, tick, Op{K: actlang.RetNull}), Target: "a"},
				{Pattern: M{"tags": []interface{}{"?u", "x"}}, Target: "start"}, {Target: "start"}}},
		"nfail": {Action: actlang.P(true, tick, Op{K: actlang.Emit, V: "lost"}, Op{K: actlang.Throw}), Branches: []rstep.ABranch{{Target: "start"}}},
		"jfail": {Action: actlang.P(false, tick, Op{K: actlang.Emit, V: "lost"}, tick, Op{K: actlang.Throw}), Branches: []rstep.ABranch{{Target: "start"}}},
		"errh":  {Type: "message", Branches: []rstep.ABranch{{Pattern: M{"go": "?g"}, Target: "a"}}},
		// the versions do not have the same node set: each has a node of its own
		fmt.Sprintf("only-in-v%d", version): {Type: "message", Branches: []rstep.ABranch{{Pattern: M{"go": "?g"}, Target: "start"}}},
	}}
}

// permSpec: actions and guards that delete, overwrite and replace permanent bindings, with yields inside.
func permSpec(version int) *rstep.ASpec {
	tick := Op{K: actlang.Tick}
	v := float64(version)
	return &rstep.ASpec{ActionErrorNode: "errh", Nodes: map[string]*rstep.ANode{
		"start": {Type: "message", Branches: []rstep.ABranch{{Pattern: M{"go": "?g"}, Target: "a"}}},
		"a": {Action: actlang.P(true, tick, Op{K: actlang.Del, A: "home!"}, Op{K: actlang.Set, A: "owner!", V: "mallory"}, tick, Op{K: actlang.Set, A: "a", V: v}),
			Branches: []rstep.ABranch{{Target: "b"}}},
		"b": {Action: actlang.P(false, tick, Op{K: actlang.Raw, A: `delete bs["home!"]; bs["owner!"] = "eve"; if (bs["cfg!"]) { bs["cfg!"].k = "changed"; } bs.n = (bs.n || 0) + 1;`}, tick),
			Branches: []rstep.ABranch{
				{Guard: actlang.P(false, tick, Op{K: actlang.Del, A: "home!"}, Op{K: actlang.Set, A: "owner!", V: "trudy"}, tick, Op{K: actlang.RetNull}), Target: "nowhere"},
				{Guard: actlang.P(true, tick, Op{K: actlang.Clear}, Op{K: actlang.Set, A: "guarded", V: true}, tick), Target: "c"}}},
		"c": {Action: actlang.P(false, tick, Op{K: actlang.RetFresh, V: M{"fresh": v}}),
			Branches: []rstep.ABranch{{Pattern: M{"fail": true}, Target: "f"}, {Target: "start"}}},
		"f":    {Action: actlang.P(true, tick, Op{K: actlang.Del, A: "home!"}, Op{K: actlang.Throw}), Branches: []rstep.ABranch{{Target: "start"}}},
		"errh": {Type: "message", Branches: []rstep.ABranch{{Pattern: M{"go": "?g"}, Target: "a"}}},
	}}
}

func c18Scenarios(thorough bool) []c12Scenario {
	ws := []walker{
		{Name: "p1", Bs: M{"home!": "alpha", "x": 1.0}, Msgs: []interface{}{M{"go": 1.0}}},
		{Name: "p2", Bs: M{"home!": "beta", "owner!": "bob"}, Msgs: []interface{}{M{"go": 1.0}, M{"go": 2.0}}},
		{Name: "p3", Bs: M{"x": 3.0}, Msgs: []interface{}{M{"go": 1.0}}},
		{Name: "p4", Bs: M{"cfg!": M{"k": []interface{}{1.0}}, "owner!": "dave"}, Msgs: []interface{}{M{"go": 1.0}}},
		{Name: "p5", Bs: M{"home!": "gamma", "fail": true}, Msgs: []interface{}{M{"go": 1.0}}},
	}
	var out []c12Scenario
	for i := 0; i < len(ws); i++ {
		for j := i + 1; j < len(ws); j++ {
			out = append(out, c12Scenario{Kind: "shared", Spec: "permanent", Walkers: []walker{ws[i], ws[j]}})
		}
	}
	out = append(out, c12Scenario{Kind: "shared", Spec: "permanent", Walkers: []walker{ws[0], ws[1], ws[2]}})
	if thorough {
		out = append(out, c12Scenario{Kind: "shared", Spec: "permanent", Walkers: []walker{ws[1], ws[3], ws[4]}})
	}
	return out
}

// buildSpecs compiles the three versions of the shared specification in one of its variants:
// "" (action errors go to the handler node "errh"), "custom-error-node" (ErrorNode names another
// node and there is no action-error node, so failing walks arrive at a literal "error" node the
// compiled spec does not contain) and "no-auto-error-node".
func buildSpecs(variant string) ([]*core.Spec, error) {
	var specs []*core.Spec
	for v := 1; v <= 3; v++ {
		as := sharedSpec(v)
		if variant == "permanent" {
			as = permSpec(v)
		}
		raw := as.Raw()
		switch variant {
		case "custom-error-node":
			raw.ErrorNode, raw.ActionErrorNode = "oops", ""
		case "no-auto-error-node":
			raw.NoAutoErrorNode, raw.ActionErrorNode = true, ""
		}
		if err := raw.Compile(context.Background(), nil, true); err != nil {
			return nil, err
		}
		if variant == "late-source" {
			// node "b" got its sources after the specification had been compiled: it has an ActionSource
			// and a GuardSource but no Action and no Guard.  Every machine that gets there is refused
			// (UncompiledAction); nothing may be written into the shared specification on the way.
			b := raw.Nodes["b"]
			b.Action = nil
			for _, br := range b.Branches.Branches {
				if br.GuardSource != nil {
					br.Guard = nil
				}
			}
		}
		specs = append(specs, raw)
	}
	return specs, nil
}

func clone(x interface{}) interface{} {
	switch v := x.(type) {
	case map[string]interface{}:
		m := make(map[string]interface{}, len(v))
		for k, e := range v {
			m[k] = clone(e)
		}
		return m
	case []interface{}:
		a := make([]interface{}, len(v))
		for i, e := range v {
			a[i] = clone(e)
		}
		return a
	}
	return x
}

// walkKey renders a Walked canonically.
func walkKey(w *core.Walked, err error) string {
	if err != nil {
		return "ERR:" + err.Error()
	}
	var sb strings.Builder
	for _, s := range w.Strides {
		sb.WriteString(rstep.Observe(s, nil).Key())
		sb.WriteString(";")
	}
	sb.WriteString(w.StoppedBecause.String())
	return sb.String()
}

// doWalk runs one walker; yields are delivered through the tick context (scripts) and ctx.Value (native).
func doWalk(spec *core.Spec, w walker, managed bool) string {
	ctx := tickctx.New(context.Background(), w.CancelAt)
	defer ctx.Cancel()
	if managed {
		ctx.OnTick = func(n int64) { sched.Yield("tick") }
	}
	st := &core.State{NodeName: "start", Bs: match.Bindings(clone(w.Bs).(M))}
	var msgs []interface{}
	for _, m := range w.Msgs {
		msgs = append(msgs, clone(m))
	}
	var walked *core.Walked
	var err error
	if p, pm, where := vh.Trap(func() { walked, err = spec.Walk(ctx, st, msgs, &core.Control{Limit: 40}, nil) }); p {
		return "PANIC:" + pm + "@" + where
	}
	return walkKey(walked, err)
}

type c12Run struct {
	results [8]string // walker index -> trace key
	done    [8]bool
	begins  [8]int // walker index -> number of completed SetSpec calls when its walk began
	sets    int
	specs   []*core.Spec
	derr    string
}

//go:norace
func (r *c12Run) setDone() { r.sets++ }

//go:norace
func (r *c12Run) deriveFailed(s string) { r.derr = s }

//go:norace
func (r *c12Run) begin(i int) { r.begins[i] = r.sets }

//go:norace
func (r *c12Run) result(i int, key string) { r.results[i] = key; r.done[i] = true }

func runC12(sc c12Scenario, specs []*core.Spec, prefix, prefixN []int) (*sched.Exec, *c12Run) {
	x := sched.NewExec(prefix, prefixN)
	r := &c12Run{}
	var us *core.UpdatableSpec
	if sc.Kind == "swap" {
		us = core.NewUpdatableSpec(specs[0])
	}
	for i, w := range sc.Walkers {
		i, w := i, w
		x.Go(w.Name, func() {
			r.begin(i)
			spec := specs[0]
			if us != nil {
				spec = us.Spec()
			}
			r.result(i, doWalk(spec, w, true))
		})
	}
	if sc.Kind == "swap" {
		x.Go("swapper", func() {
			for i := 1; i <= sc.Swaps; i++ {
				sched.Yield("before-set")
				if sc.Derive {
					nv, err := deriveVersion(us.Spec(), i+1)
					if err != nil {
						r.deriveFailed(err.Error())
						return
					}
					sched.Yield("derived")
					us.SetSpec(nv)
				} else {
					us.SetSpec(specs[i])
				}
				r.setDone()
			}
		})
	}
	x.Run()
	x.Finish()
	return x, r
}

func c12Scenarios(thorough bool) []c12Scenario {
	ws := []walker{
		{Name: "w1", Bs: M{"id": 1.0, "tags": []interface{}{"x", "y"}, "home!": "alpha"}, Msgs: []interface{}{M{"go": 1.0}}},
		{Name: "w2", Bs: M{"id": 2.0, "n": 10.0, "home!": "beta", "owner!": "bob"}, Msgs: []interface{}{M{"go": 2.0, "tags": []interface{}{"y", "z", "x"}}, M{"go": 3.0, "opt": M{"p": 1.0}}}},
		{Name: "w3", Bs: M{"id": 3.0, "fail": "js"}, Msgs: []interface{}{M{"go": 1.0}}},
		{Name: "w4", Bs: M{"id": 4.0, "fail": "native"}, Msgs: []interface{}{M{"go": 1.0}}},
		{Name: "w5", Bs: M{"id": 5.0}, Msgs: []interface{}{M{"go": 1.0}}, CancelAt: 3},
		{Name: "w6", Bs: M{"id": 6.0, "reject": true}, Msgs: []interface{}{M{"go": 1.0}}},
		{Name: "w7", Bs: M{"id": 7.0, "short": true}, Msgs: []interface{}{M{"go": 1.0}}, CancelAt: 1},
		{Name: "w8", Bs: M{"id": 8.0, "short": true}, Msgs: []interface{}{M{"go": 1.0}}},
		{Name: "w9", Bs: M{"id": 9.0}, Msgs: []interface{}{M{"go": 1.0, "pollute": true}}},
		{Name: "w10", Bs: M{"id": 10.0}, Msgs: []interface{}{M{"go": 1.0, "probe": true}, M{"go": 2.0, "probe": true}}},
		{Name: "w11", Bs: M{"id": 11.0}, Msgs: []interface{}{M{"go": 1.0, "many": []interface{}{1.0, 2.0}}}},
		{Name: "w12", Bs: M{"id": 12.0}, Msgs: []interface{}{M{"go": 1.0, "many": []interface{}{1.0, 2.0, 3.0}}, M{"go": 2.0}}},
	}
	var out []c12Scenario
	for i := 0; i < len(ws); i++ {
		for j := i + 1; j < len(ws); j++ {
			out = append(out, c12Scenario{Kind: "shared", Walkers: []walker{ws[i], ws[j]}})
		}
	}
	out = append(out, c12Scenario{Kind: "shared", Walkers: []walker{ws[0], ws[2], ws[4]}})
	out = append(out, c12Scenario{Kind: "shared", Walkers: []walker{ws[8], ws[9], ws[0]}})
	out = append(out, c12Scenario{Kind: "shared", Walkers: []walker{ws[1], ws[3], ws[5]}})
	out = append(out, c12Scenario{Kind: "shared", Walkers: []walker{ws[6], ws[1], ws[7]}})
	out = append(out, c12Scenario{Kind: "shared", Walkers: []walker{ws[10], ws[11], ws[0]}})
	if thorough {
		out = append(out, c12Scenario{Kind: "shared", Walkers: []walker{ws[0], ws[1], ws[4]}})
		out = append(out, c12Scenario{Kind: "shared", Walkers: []walker{ws[2], ws[3], ws[4]}})
	}
	// failing walkers over specs whose "error" node is not the one Compile added
	for _, variant := range []string{"custom-error-node", "no-auto-error-node"} {
		out = append(out, c12Scenario{Kind: "shared", Spec: variant, Walkers: []walker{ws[2], ws[3]}})
		out = append(out, c12Scenario{Kind: "shared", Spec: variant, Walkers: []walker{ws[0], ws[2]}})
		out = append(out, c12Scenario{Kind: "shared", Spec: variant, Walkers: []walker{ws[1], ws[3], ws[2]}})
	}
	// machines meeting for the first time at a node whose sources arrived after Compile
	out = append(out, c12Scenario{Kind: "shared", Spec: "late-source", Walkers: []walker{ws[0], ws[1]}})
	out = append(out, c12Scenario{Kind: "shared", Spec: "late-source", Walkers: []walker{ws[0], ws[7], ws[1]}})
	out = append(out, c12Scenario{Kind: "swap", Spec: "custom-error-node", Walkers: []walker{ws[2], ws[3]}, Swaps: 1})
	out = append(out, c12Scenario{Kind: "swap", Walkers: []walker{ws[0]}, Swaps: 1})
	out = append(out, c12Scenario{Kind: "swap", Walkers: []walker{ws[0], ws[1]}, Swaps: 1})
	out = append(out, c12Scenario{Kind: "swap", Walkers: []walker{ws[0], ws[2]}, Swaps: 2})
	out = append(out, c12Scenario{Kind: "swap", Walkers: []walker{ws[1], ws[5]}, Swaps: 2})
	// new versions derived from the one in service (Spec.Copy, edits in place, Compile) while walks are in flight
	out = append(out, c12Scenario{Kind: "swap", Walkers: []walker{ws[0]}, Swaps: 1, Derive: true})
	out = append(out, c12Scenario{Kind: "swap", Walkers: []walker{ws[0], ws[1]}, Swaps: 2, Derive: true})
	out = append(out, c12Scenario{Kind: "swap", Walkers: []walker{ws[5], ws[2]}, Swaps: 1, Derive: true})
	return out
}

const c12RuleText = "one compiled specification (in four variants: action errors routed to a handler node; a custom ErrorNode name with failing walks arriving at a literal error node the compiled spec lacks; no automatic error node; a node whose action and guard sources arrived after Compile, where every machine is refused - all but the first and the whole race pass with freshly compiled objects per execution; native and ECMAScript actions and guards, succeeding, failing and rejecting, each with yield points; one walker whose context is cancelled at its 3rd tick) walked by 2-3 threads with distinct states and messages; every interleaving at the yields (and, for the updatable spec, at the atomic load/store) with at most k deviations; oracle: each walk's stride-by-stride result equals its solo result (for swaps: its solo result under exactly one version, never an older version than one whose SetSpec had returned before the walk began; also with every new version derived from the one in service - Spec.Copy, in-place edits of the inherited nodes and branches, Compile - while walks are in flight); deep snapshot of the spec unchanged; race pass: ThreadSanitizer silent. states = scenarios, transitions = scheduler steps, traces = schedules; non-trivial = schedule with at least one deviation."

// C12: a compiled spec is shared immutable data; spec updates are atomic.
func C12(c *vh.Ctx) { sharedCheck(c, "C12") }

// C18c: permanent bindings under concurrency - machines with different permanent bindings processed against
// one compiled spec whose actions and guards delete and overwrite them; the engine of C12 with the
// "permanent" spec variant (each walk must equal its solo walk, in which C18's sequential part has shown the
// permanent bindings to survive).
func C18c(c *vh.Ctx) { sharedCheck(c, "C18") }

func sharedCheck(c *vh.Ctx, prop string) {
	race := os.Getenv("VERIF_RACE") == "1"
	bound := c.Pick(2, 3)
	if race {
		bound = 1
	}
	variants := []string{"", "custom-error-node", "no-auto-error-node", "permanent", "late-source"}
	specsOf := map[string][]*core.Spec{}
	beforeOf := map[string][]string{}
	for _, variant := range variants {
		ss, err := buildSpecs(variant)
		if err != nil {
			c.Violation(prop+"/compile-failed", err.Error(), nil)
			return
		}
		specsOf[variant] = ss
		for _, s := range ss {
			beforeOf[variant] = append(beforeOf[variant], snap.Of(s))
		}
	}
	// fresh: newly compiled specification objects for one execution (race pass and the error-node
	// variants), so that anything built or memoised on first use is built under contention.
	fresh := func(sc c12Scenario) []*core.Spec {
		if !race && sc.Spec == "" && !sc.Derive {
			return specsOf[sc.Spec]
		}
		ss, err := buildSpecs(sc.Spec)
		if err != nil {
			return specsOf[sc.Spec]
		}
		return ss
	}
	check := func(sc c12Scenario, specs []*core.Spec, x *sched.Exec, r *c12Run, solo map[string][]string) [][2]string {
		var out [][2]string
		before := beforeOf[sc.Spec]
		if x.Deadlock != "" {
			out = append(out, [2]string{"deadlock", x.Deadlock})
		}
		if r.derr != "" {
			out = append(out, [2]string{"derived-version-does-not-compile", r.derr})
		}
		for wi, w := range sc.Walkers {
			got, done := r.results[wi], r.done[wi]
			if !done {
				out = append(out, [2]string{"walk-did-not-finish", w.Name})
				continue
			}
			if strings.Contains(got, `"clean":false`) {
				out = append(out, [2]string{"script-environment-not-fresh/" + w.Name, fmt.Sprintf("walker %s: a script found traces of an earlier execution in its environment: %s", w.Name, got)})
				continue
			}
			matched := -1
			for vi, want := range solo[w.Name] {
				if got == want {
					matched = vi
					break
				}
			}
			if matched < 0 {
				kind := "shared-spec-result-differs-from-solo"
				if sc.Kind == "swap" {
					kind = "walk-observed-no-single-version"
				}
				out = append(out, [2]string{kind + "/" + w.Name, fmt.Sprintf("walker %s got %s; alone it gets %v", w.Name, got, solo[w.Name])})
				continue
			}
			if sc.Kind == "swap" && matched < r.begins[wi] {
				out = append(out, [2]string{"stale-version-after-SetSpec-returned/" + w.Name, fmt.Sprintf("walker %s began after %d SetSpec calls had returned but ran version %d", w.Name, r.begins[wi], matched+1)})
			}
		}
		for i, s := range specs {
			if snap.Of(s) != before[i] {
				out = append(out, [2]string{"spec-modified", fmt.Sprintf("version %d of the compiled spec changed while being walked", i+1)})
			}
		}
		return out
	}
	soloOf := func(sc c12Scenario) map[string][]string {
		solo := map[string][]string{}
		nv := 1
		if sc.Kind == "swap" {
			nv = sc.Swaps + 1
		}
		for _, w := range sc.Walkers {
			for v := 0; v < nv; v++ {
				// the solo run is a one-thread execution under the scheduler, so that a cancellation
				// delivered at a tick interrupts the script at that tick, exactly as in the concurrent runs
				x, r := runC12(c12Scenario{Kind: "shared", Walkers: []walker{w}}, []*core.Spec{fresh(sc)[v]}, nil, nil)
				_ = x
				solo[w.Name] = append(solo[w.Name], r.results[0])
			}
		}
		return solo
	}
	if c.Replay != "" {
		var cs c12Case
		if c.LoadReplay(&cs) != nil {
			return
		}
		specs := fresh(cs.Scenario)
		x, r := runC12(cs.Scenario, specs, cs.Choices, cs.Sizes)
		c.Eval()
		for _, v := range check(cs.Scenario, specs, x, r, soloOf(cs.Scenario)) {
			c.Violation(prop+"/"+v[0], v[1], cs)
		}
		return
	}
	scs := c12Scenarios(!c.Quick())
	if prop == "C18" {
		scs = c18Scenarios(!c.Quick())
	}
	c.Bound("deviations_max", bound)
	if c.Shard == 0 {
		c.Count("scenarios", int64(len(scs)))
	}
	if prop == "C18" {
		c.Rule("(concurrent part) one compiled specification whose native and ECMAScript actions and guards delete, overwrite and replace permanent bindings (with yield points inside), walked by 2-3 threads for machines with different permanent bindings (none, one, two, a structured value); every interleaving at the yields with at most k deviations; oracle: each walk equals its solo walk stride by stride - so every machine keeps exactly its own permanent bindings; spec snapshot unchanged; race pass: ThreadSanitizer silent.")
	} else {
		c.Rule(c12RuleText)
	}
	for i, sc := range scs {
		if c.Expired() {
			return
		}
		solo := soloOf(sc)
		if c.Shard == 0 {
			c.R.States++
		}
		seen := map[string]bool{}
		st := sched.Explore(bound, 400000, func(n uint64) bool { return c.Mine(n) }, c.Shard == 0,
			func(p, pn []int) *sched.Exec {
				specs := fresh(sc)
				x, r := runC12(sc, specs, p, pn)
				r.specs = specs
				x.UserData = r
				return x
			},
			func(x *sched.Exec, devs int) {
				c.Eval()
				if devs > 0 {
					c.Nontrivial()
				}
				r := x.UserData.(*c12Run)
				var sb strings.Builder
				for wi := range sc.Walkers {
					sb.WriteString(r.results[wi])
					sb.WriteString("|")
				}
				c.Outcome("results", sb.String())
				for _, v := range check(sc, r.specs, x, r, solo) {
					key := prop + "/" + v[0]
					if seen[key] {
						c.R.ViolationKeys[key]++
						continue
					}
					cs, ns := sched.Choices(x.Trace)
					specs2 := fresh(sc)
					x2, r2 := runC12(sc, specs2, cs, ns)
					again := false
					for _, v2 := range check(sc, specs2, x2, r2, solo) {
						if v2[0] == v[0] {
							again = true
						}
					}
					if !again {
						c.Count("unreproduced", 1)
						c.NotExhaustive("a violation did not reproduce on replay; not reported")
						continue
					}
					seen[key] = true
					c.Violation(key, v[1], c12Case{Scenario: sc, Choices: cs, Sizes: ns, Trace: sched.FormatTrace(x.Trace)})
				}
			})
		c.R.Traces += int64(st.Schedules)
		c.R.Transitions += int64(st.Transitions)
		c.Count("nondeterministic_subtrees", int64(st.Nondet))
		c.Count("stuck_executions", int64(st.Stuck))
		c.Count("horizons", int64(st.Horizons))
		for _, n := range st.NondetNotes {
			c.Note("NONDET scenario " + fmt.Sprint(i) + ": " + n)
		}
		if st.Nondet > 0 || st.Stuck > 0 || st.Capped {
			c.NotExhaustive(fmt.Sprintf("exploration gaps: %d nondeterministic subtrees, %d stuck executions, capped=%v", st.Nondet, st.Stuck, st.Capped))
		}
		if c.WantSample() && c.Shard == 0 {
			c.Sample(map[string]interface{}{"scenario": sc, "schedules_on_this_worker": st.Schedules})
		}
	}
}
