package hcorec

import (
	"testing"

	_ "github.com/Comcast/sheens/interpreters/ecmascript"
	"github.com/Comcast/sheens/verifrt/vh"
)

func TestMain(m *testing.M) {
	vh.Main(Checks)
}
