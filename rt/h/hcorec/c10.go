package hcorec

import (
	"context"
	"fmt"
	"os"
	"strings"

	"github.com/Comcast/sheens/core"
	"github.com/Comcast/sheens/interpreters/ecmascript"
	"github.com/Comcast/sheens/match"
	"github.com/Comcast/sheens/verifrt/ref/rstep"
	"github.com/Comcast/sheens/verifrt/sched"
	"github.com/Comcast/sheens/verifrt/snap"
	"github.com/Comcast/sheens/verifrt/tickctx"
	"github.com/Comcast/sheens/verifrt/vh"
)

func init() { Checks["C10c"] = C10c }

// concurrent scripts: each observes, yields, pollutes with its own identity, yields, observes again
var c10cProgs = []struct{ Name, Src string }{
	{"global", `var was = typeof g; _.ctx.Value("tick"); g = _.bindings.id; _.ctx.Value("tick"); return {was: was, now: g};`},
	{"prototype", `var was = ({}).pp; _.ctx.Value("tick"); Object.prototype.pp = _.bindings.id; _.ctx.Value("tick"); return {was: was === undefined, now: ({}).pp};`},
	{"env", `var was = _.marker; _.ctx.Value("tick"); _.marker = _.bindings.id; _.out({from: _.bindings.id}); _.ctx.Value("tick"); return {was: was === undefined, now: _.marker};`},
	{"bindings", `var was = _.bindings.o.x; _.ctx.Value("tick"); _.bindings.o.x = _.bindings.id; _.bindings.o.l.push(_.bindings.id); _.ctx.Value("tick"); return {was: was, now: _.bindings.o.x, l: _.bindings.o.l};`},
	{"props", `var was = _.props.cfg.x; _.ctx.Value("tick"); _.props.cfg.x = _.bindings.id; _.props.list.push(_.bindings.id); _.ctx.Value("tick"); return {was: was, now: _.props.cfg.x, l: _.props.list};`},
	{"builtin", `var was = JSON.stringify({a: 1}); _.ctx.Value("tick"); JSON.stringify = function() { return "by" + _.bindings.id; }; _.ctx.Value("tick"); return {was: was, now: JSON.stringify({a: 1})};`},
	// the environment's own functions (Extended mode, as the hosts configure it), with data of the caller's own
	{"match", `var id = _.bindings.id; _.ctx.Value("tick"); var r = _.match({"who": "?w", "n": id}, {"who": "t" + id, "n": id, "extra": [id, id]}, {"?seen": id}); _.ctx.Value("tick"); var r2 = _.match({"k": ["?e"]}, {"k": [id]}, {}); _.ctx.Value("tick"); return {r: r, r2: r2};`},
	{"out-result", `var id = _.bindings.id; var r = _.out({from: id, l: [id]}); _.ctx.Value("tick"); r.l.push("edited by " + id); _.ctx.Value("tick"); var r2 = _.out({from: id, l: [id]}); return {r: r, r2: r2};`},
	{"throwing", `g2 = _.bindings.id; _.ctx.Value("tick"); _.out({lost: 1}); if (_.bindings.id == 1) { throw "boom"; } _.ctx.Value("tick"); return {now: g2};`},
}

type c10cCase struct {
	Prog    string   `json:"prog"`
	Threads int      `json:"threads"`
	Choices []int    `json:"choices"`
	Sizes   []int    `json:"sizes"`
	Trace   []string `json:"trace,omitempty"`
}

type c10cRun struct {
	results [4]string
	done    [4]bool
}

//go:norace
func (r *c10cRun) set(i int, s string) { r.results[i] = s; r.done[i] = true }

func c10cExec(interp *ecmascript.Interpreter, compiled interface{}, src string, id int, bs match.Bindings, props core.StepProps, managed bool) string {
	ctx := tickctx.New(context.Background(), 0)
	defer ctx.Cancel()
	if managed {
		ctx.OnTick = func(int64) { sched.Yield("tick") }
	}
	var exe *core.Execution
	var err error
	if p, pm, where := vh.Trap(func() { exe, err = interp.Exec(ctx, bs, props, src, compiled) }); p {
		return "PANIC:" + pm + "@" + where
	}
	if err != nil {
		return "ERR"
	}
	return rstep.Canon(M(exe.Bs)) + "|" + rstep.Canon(exe.Emitted)
}

func c10cInputs(id int) (match.Bindings, core.StepProps) {
	return match.Bindings{"id": float64(id), "o": M{"x": 0.0, "l": []interface{}{}}}, core.StepProps{"cfg": M{"x": 0.0}, "list": []interface{}{}}
}

func runC10c(interp *ecmascript.Interpreter, compiled interface{}, src string, n int, prefix, prefixN []int) (*sched.Exec, *c10cRun, []string) {
	x := sched.NewExec(prefix, prefixN)
	r := &c10cRun{}
	// every thread gets its own bindings (they carry its identity) but all share one props object
	_, props := c10cInputs(0)
	propsSnap := snap.Of(props)
	bss := make([]match.Bindings, n)
	snaps := make([]string, n)
	for i := 0; i < n; i++ {
		bss[i], _ = c10cInputs(i + 1)
		snaps[i] = snap.Of(bss[i])
	}
	for i := 0; i < n; i++ {
		i := i
		x.Go(fmt.Sprintf("t%d", i+1), func() {
			r.set(i, c10cExec(interp, compiled, src, i+1, bss[i], props, true))
		})
	}
	x.Run()
	x.Finish()
	var damage []string
	if snap.Of(props) != propsSnap {
		damage = append(damage, "caller-props-modified")
	}
	for i := 0; i < n; i++ {
		if snap.Of(bss[i]) != snaps[i] {
			damage = append(damage, "caller-bindings-modified")
		}
	}
	return x, r, damage
}

// C10c: one compiled source executed by several goroutines at once.
func C10c(c *vh.Ctx) {
	race := os.Getenv("VERIF_RACE") == "1"
	interp := ecmascript.NewInterpreter()
	interp.Extended = true
	check := func(name, src string, compiled interface{}, n int, x *sched.Exec, r *c10cRun, damage []string) [][2]string {
		var out [][2]string
		for _, d := range damage {
			out = append(out, [2]string{d + "/" + name, d})
		}
		if x.Deadlock != "" {
			out = append(out, [2]string{"deadlock", x.Deadlock})
		}
		for i := 0; i < n; i++ {
			bs, props := c10cInputs(i + 1)
			want := c10cExec(interp, compiled, src, i+1, bs, props, false)
			if !r.done[i] || r.results[i] != want {
				out = append(out, [2]string{"concurrent-execution-differs-from-solo/" + name, fmt.Sprintf("thread %d of %d running %q concurrently returned %s; alone it returns %s", i+1, n, name, r.results[i], want)})
			}
		}
		return out
	}
	if c.Replay != "" {
		var cs c10cCase
		if c.LoadReplay(&cs) != nil {
			return
		}
		for _, p := range c10cProgs {
			if p.Name == cs.Prog {
				compiled, _ := interp.Compile(context.Background(), p.Src)
				x, r, dmg := runC10c(interp, compiled, p.Src, cs.Threads, cs.Choices, cs.Sizes)
				c.Eval()
				for _, v := range check(p.Name, p.Src, compiled, cs.Threads, x, r, dmg) {
					c.Violation("C10/"+v[0], v[1], cs)
				}
			}
		}
		return
	}
	c.Rule("concurrent half: each self-observing script (observe, yield, pollute with the thread's identity - global / prototype / environment member / nested bindings / nested props / built-in / pollute-then-throw / calls of _.match and edits of what _.out returned, on an Extended interpreter -, yield, observe) compiled once and executed by 2 threads (all interleavings) and 3 threads (bounded deviations) sharing the compiled program, the interpreter and the props object; each result must equal the solo result; caller objects snapshot-equal; race pass under ThreadSanitizer.")
	for pi, p := range c10cProgs {
		compiled, err := interp.Compile(context.Background(), p.Src)
		if err != nil {
			c.Violation("C10/compile-failed/"+p.Name, err.Error(), nil)
			continue
		}
		for _, n := range []int{2, 3} {
			bound := 99
			if n == 3 {
				bound = c.Pick(2, 3)
			}
			if race {
				bound = 2
			}
			if c.Shard == 0 {
				c.R.States++
			}
			seen := map[string]bool{}
			st := sched.Explore(bound, 300000, func(k uint64) bool { return c.Mine(k + uint64(pi)) }, c.Shard == 0,
				func(pr, pn []int) *sched.Exec {
					x, r, dmg := runC10c(interp, compiled, p.Src, n, pr, pn)
					x.UserData = []interface{}{r, dmg}
					return x
				},
				func(x *sched.Exec, devs int) {
					c.Eval()
					if devs > 0 {
						c.Nontrivial()
					}
					ud := x.UserData.([]interface{})
					r, dmg := ud[0].(*c10cRun), ud[1].([]string)
					c.Outcome("results", p.Name+strings.Join(r.results[:n], "|"))
					for _, v := range check(p.Name, p.Src, compiled, n, x, r, dmg) {
						key := "C10/" + v[0]
						if seen[key] {
							c.R.ViolationKeys[key]++
							continue
						}
						seen[key] = true
						cs, ns := sched.Choices(x.Trace)
						c.Violation(key, v[1], c10cCase{Prog: p.Name, Threads: n, Choices: cs, Sizes: ns, Trace: sched.FormatTrace(x.Trace)})
					}
				})
			c.R.Traces += int64(st.Schedules)
			c.R.Transitions += int64(st.Transitions)
			c.Count("nondeterministic_subtrees", int64(st.Nondet))
			if st.Nondet > 0 || st.Stuck > 0 || st.Capped {
				c.NotExhaustive(fmt.Sprintf("exploration gaps: %d nondeterministic subtrees, %d stuck, capped=%v", st.Nondet, st.Stuck, st.Capped))
			}
			if c.WantSample() && c.Shard == 0 {
				c.Sample(map[string]interface{}{"script": p.Name, "threads": n, "schedules_on_this_worker": st.Schedules})
			}
		}
	}
}
