// Package tickctx provides a context whose Value("tick") call is a harness
// hook: scripts reach it through `_.ctx.Value("tick")`, native actions
// through ctx.Value("tick").  The context cancels itself at the k-th tick,
// which turns "cancellation at an arbitrary moment" into an enumerable choice.
package tickctx

import (
	"context"
	"sync/atomic"
)

type Ctx struct {
	context.Context
	cancel   context.CancelFunc
	CancelAt int64 // cancel when the tick counter reaches this value (0: never)
	ticks    int64
	OnTick   func(n int64)
}

// New derives a tick context from parent.
func New(parent context.Context, cancelAt int) *Ctx {
	c, cancel := context.WithCancel(parent)
	return &Ctx{Context: c, cancel: cancel, CancelAt: int64(cancelAt)}
}

func (c *Ctx) Value(key interface{}) interface{} {
	if s, ok := key.(string); ok && s == "tick" {
		n := atomic.AddInt64(&c.ticks, 1)
		if c.CancelAt > 0 && n == c.CancelAt {
			c.cancel()
		}
		if c.OnTick != nil {
			c.OnTick(n)
		}
		return n
	}
	return c.Context.Value(key)
}

// Ticks returns the number of ticks seen.
func (c *Ctx) Ticks() int64 { return atomic.LoadInt64(&c.ticks) }

// Cancel cancels the context.
func (c *Ctx) Cancel() { c.cancel() }
