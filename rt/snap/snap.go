// Package snap takes deep structural snapshots (including unexported fields;
// functions, channels and unsafe pointers by identity) so that "this argument
// was not modified" can be checked as snapshot-before == snapshot-after.
package snap

import (
	"fmt"
	"reflect"
	"sort"
	"strings"
)

// Of renders x deeply and canonically.
func Of(x interface{}) string {
	var b strings.Builder
	w := &walker{b: &b, seen: map[uintptr]int{}}
	w.walk(reflect.ValueOf(x), 0)
	return b.String()
}

type walker struct {
	b    *strings.Builder
	seen map[uintptr]int
	n    int
}

func (w *walker) walk(v reflect.Value, depth int) {
	if !v.IsValid() {
		w.b.WriteString("nil")
		return
	}
	if depth > 60 {
		w.b.WriteString("<deep>")
		return
	}
	switch v.Kind() {
	case reflect.Ptr:
		if v.IsNil() {
			w.b.WriteString("nil")
			return
		}
		p := v.Pointer()
		if id, ok := w.seen[p]; ok {
			fmt.Fprintf(w.b, "<ref%d>", id)
			return
		}
		w.n++
		w.seen[p] = w.n
		w.b.WriteString("&")
		w.walk(v.Elem(), depth+1)
	case reflect.Interface:
		if v.IsNil() {
			w.b.WriteString("nil")
			return
		}
		fmt.Fprintf(w.b, "(%s)", v.Elem().Type())
		w.walk(v.Elem(), depth+1)
	case reflect.Struct:
		w.b.WriteString("{")
		for i := 0; i < v.NumField(); i++ {
			fmt.Fprintf(w.b, "%s:", v.Type().Field(i).Name)
			w.walk(v.Field(i), depth+1)
			w.b.WriteString(";")
		}
		w.b.WriteString("}")
	case reflect.Map:
		if v.IsNil() {
			w.b.WriteString("nilmap")
			return
		}
		p := v.Pointer()
		if id, ok := w.seen[p]; ok {
			fmt.Fprintf(w.b, "<ref%d>", id)
			return
		}
		w.n++
		w.seen[p] = w.n
		type kv struct {
			k string
			v reflect.Value
		}
		var kvs []kv
		it := v.MapRange()
		for it.Next() {
			var kb strings.Builder
			kw := &walker{b: &kb, seen: w.seen}
			kw.walk(it.Key(), depth+1)
			kvs = append(kvs, kv{kb.String(), it.Value()})
		}
		sort.Slice(kvs, func(i, j int) bool { return kvs[i].k < kvs[j].k })
		w.b.WriteString("map[")
		for _, e := range kvs {
			w.b.WriteString(e.k)
			w.b.WriteString(":")
			w.walk(e.v, depth+1)
			w.b.WriteString(",")
		}
		w.b.WriteString("]")
	case reflect.Slice:
		if v.IsNil() {
			w.b.WriteString("nilslice")
			return
		}
		fallthrough
	case reflect.Array:
		w.b.WriteString("[")
		for i := 0; i < v.Len(); i++ {
			w.walk(v.Index(i), depth+1)
			w.b.WriteString(",")
		}
		w.b.WriteString("]")
	case reflect.Func, reflect.Chan, reflect.UnsafePointer:
		if v.Kind() != reflect.UnsafePointer && v.IsNil() {
			w.b.WriteString("nil")
			return
		}
		fmt.Fprintf(w.b, "<%s@%x>", v.Kind(), v.Pointer())
	case reflect.String:
		fmt.Fprintf(w.b, "%q", v.String())
	case reflect.Bool:
		fmt.Fprintf(w.b, "%v", v.Bool())
	case reflect.Int, reflect.Int8, reflect.Int16, reflect.Int32, reflect.Int64:
		fmt.Fprintf(w.b, "%d", v.Int())
	case reflect.Uint, reflect.Uint8, reflect.Uint16, reflect.Uint32, reflect.Uint64, reflect.Uintptr:
		fmt.Fprintf(w.b, "%d", v.Uint())
	case reflect.Float32, reflect.Float64:
		fmt.Fprintf(w.b, "%v", v.Float())
	default:
		fmt.Fprintf(w.b, "<%s>", v.Kind())
	}
}

// MapID returns the identity of a map (0 for nil / non-map).
func MapID(m interface{}) uintptr {
	v := reflect.ValueOf(m)
	if !v.IsValid() || v.Kind() != reflect.Map || v.IsNil() {
		return 0
	}
	return v.Pointer()
}
