// Package actlang is the tiny deterministic action language shared by the
// core checks.  A program is a list of ops; it is rendered as ECMAScript
// source, as a native Go action, and interpreted by the reference model.
package actlang

import (
	"context"
	"encoding/json"
	"errors"
	"fmt"
	"math"
	"strconv"
	"strings"

	"github.com/Comcast/sheens/core"
	"github.com/Comcast/sheens/match"
)

// Op kinds.
const (
	Set              = "set"         // A=key V=value
	Del              = "del"         // A=key
	Clear            = "clear"       // bindings = {}
	Emit             = "emit"        // V=message
	Throw            = "throw"       // fail
	RetNull          = "retnull"     // return null / nil bindings
	RetScalar        = "retscalar"   // return 7  (not bindings)
	RetArray         = "retarray"    // return [1] (not bindings)
	RetSame          = "retsame"     // return the very map that was given (native); _.bindings (js)
	RetEmpty         = "retempty"    // return a fresh empty object
	RetFresh         = "retfresh"    // return a fresh object holding only V (a map)
	EmitBad          = "emitbad"     // A = nan | func | cycle : emit something that cannot be serialised
	SetBad           = "setbad"      // A=key: bind NaN (js) / math.NaN (native)
	Spin             = "spin"        // loop until interrupted (js only); native: wait for ctx.Done
	Tick             = "tick"        // call ctx.Value("tick") — a harness scheduling / cancellation point
	NativeErrPartial = "nerrpartial" // native only: return (execution holding the emits so far, error)
	NativeNilExec    = "nnilexec"    // native only: return (nil, nil)
	NativeNilBs      = "nnilbs"      // native only: return (execution with nil bindings, nil)
	MutateDeep       = "mutdeep"     // A = dotted path under bindings: js mutates in place
	RetGetter        = "retgetter"   // A = throw | loop: return an object whose property getter throws / loops (js only)
	NativeNoEvents   = "nnoevents"   // native only: return an Execution built by hand, without Events
	SetCycle         = "setcycle"    // A=key: bind a self-referential object (js only)
	Raw              = "raw"         // A = ECMAScript statements (js only; not modelled)
	RejectUnless     = "rejunless"   // A=key V=value: return null unless bindings[A] equals V (a guard that looks at its candidate)
	ThrowIf          = "throwif"     // A=key V=value: fail if bindings[A] equals V
	Misuse           = "misuse"      // A = an ECMAScript statement that misuses a helper of the (extended) environment; modelled as a failure; the source is compiled for interpreter "ecmascript-ext"
	ThrowVal         = "throwval"    // A = object | error | null | undefined | number | hostile-tostring | hostile-message : throw a value of that kind (js); native: an error
	InPlace          = "inplace"     // native only, first op: work on the very map that was given (the bs.Extend idiom of the repository's own native actions) instead of a copy
)

// Trace, when non-nil, receives the canonical JSON of the bindings every native action or guard is called
// with, in call order (the harness learns the order in which the engine offered candidates to a guard).
var Trace *[]string

type Op struct {
	K string      `json:"k"`
	A string      `json:"a,omitempty"`
	V interface{} `json:"v,omitempty"`
}

// Prog is a program in one of two renderings.
type Prog struct {
	Ops    []Op `json:"ops"`
	Native bool `json:"native,omitempty"`
	// ViaSource: a native program that reaches the engine as an ActionSource / GuardSource for the harness's own
	// interpreter ("gonative", GoInterp) instead of as a FuncAction literal
	ViaSource bool `json:"via_source,omitempty"`
}

// GoInterp is an interpreter written in Go: its "source" is a *Prog, executed as the program's native rendering.
// A specification may name any interpreter the host registers; not all of them copy the bindings they are given.
type GoInterp struct{}

func (GoInterp) Compile(ctx context.Context, code interface{}) (interface{}, error) {
	p, ok := code.(*Prog)
	if !ok {
		return nil, fmt.Errorf("gonative: source is a %T, not a program", code)
	}
	return p.NativeAction(), nil
}

func (GoInterp) Exec(ctx context.Context, bs match.Bindings, props core.StepProps, code interface{}, compiled interface{}) (*core.Execution, error) {
	a, ok := compiled.(*core.FuncAction)
	if !ok {
		p, isProg := code.(*Prog)
		if !isProg {
			return nil, fmt.Errorf("gonative: source is a %T, not a program", code)
		}
		a = p.NativeAction().(*core.FuncAction)
	}
	return a.F(ctx, bs, props)
}

// NativeSource renders a native program as a source for the "gonative" interpreter.
func (p *Prog) NativeSource() *core.ActionSource {
	return &core.ActionSource{Interpreter: "gonative", Source: p}
}

func P(native bool, ops ...Op) *Prog { return &Prog{Ops: ops, Native: native} }

func (p *Prog) String() string {
	if p == nil {
		return "-"
	}
	var parts []string
	for _, o := range p.Ops {
		s := o.K
		if o.A != "" {
			s += " " + o.A
		}
		if o.V != nil {
			b, _ := json.Marshal(o.V)
			s += " " + string(b)
		}
		parts = append(parts, s)
	}
	l := "js"
	if p.Native {
		l = "go"
		if p.ViaSource {
			l = "gosrc"
		}
	}
	return l + "{" + strings.Join(parts, "; ") + "}"
}

func js(v interface{}) string {
	b, err := json.Marshal(v)
	if err != nil {
		return "null"
	}
	return string(b)
}

// JS renders the program as ECMAScript source for the ecmascript interpreter.
func (p *Prog) JS() string {
	var b strings.Builder
	b.WriteString("var bs = _.bindings;\n")
	for _, o := range p.Ops {
		switch o.K {
		case Set:
			fmt.Fprintf(&b, "bs[%s] = %s;\n", js(o.A), js(o.V))
		case Del:
			fmt.Fprintf(&b, "delete bs[%s];\n", js(o.A))
		case Clear:
			b.WriteString("bs = {};\n")
		case Emit:
			fmt.Fprintf(&b, "_.out(%s);\n", js(o.V))
		case Throw:
			b.WriteString("throw \"boom\";\n")
		case ThrowVal:
			switch o.A {
			case "object":
				b.WriteString("throw {code: 42, info: {a: [1, \"x\"]}};\n")
			case "error":
				b.WriteString("throw new Error(\"boom\");\n")
			case "null":
				b.WriteString("throw null;\n")
			case "undefined":
				b.WriteString("throw undefined;\n")
			case "number":
				b.WriteString("throw 7;\n")
			case "hostile-tostring":
				b.WriteString("throw {toString: function() { throw new Error(\"inner\"); }, valueOf: function() { throw new Error(\"inner2\"); }};\n")
			default:
				b.WriteString("throw {get message() { throw \"inner\"; }, get name() { throw \"inner\"; }};\n")
			}
		case RejectUnless:
			fmt.Fprintf(&b, "if (JSON.stringify(bs[%s]) !== %s) { return null; }\n", js(o.A), js(js(o.V)))
		case ThrowIf:
			fmt.Fprintf(&b, "if (JSON.stringify(bs[%s]) === %s) { throw \"boom\"; }\n", js(o.A), js(js(o.V)))
		case RetNull:
			b.WriteString("return null;\n")
		case RetScalar:
			b.WriteString("return 7;\n")
		case RetArray:
			b.WriteString("return [1];\n")
		case RetSame:
			b.WriteString("return _.bindings;\n")
		case RetEmpty:
			b.WriteString("return {};\n")
		case RetFresh:
			fmt.Fprintf(&b, "return %s;\n", js(o.V))
		case EmitBad:
			switch o.A {
			case "nan":
				b.WriteString("_.out({x: 0/0});\n")
			case "func":
				b.WriteString("_.out({f: function(){ return 1; }});\n")
			default:
				b.WriteString("var cyc = {}; cyc.self = cyc; _.out(cyc);\n")
			}
		case SetBad:
			fmt.Fprintf(&b, "bs[%s] = 0/0;\n", js(o.A))
		case Spin:
			b.WriteString("for (;;) { _.ctx.Value(\"tick\"); }\n")
		case Tick:
			b.WriteString("_.ctx.Value(\"tick\");\n")
		case RetGetter:
			if o.A == "loop" {
				b.WriteString("return {get a() { for (;;) { _.ctx.Value(\"tick\"); } }};\n")
			} else {
				b.WriteString("return {get a() { throw \"getter\"; }};\n")
			}
		case SetCycle:
			fmt.Fprintf(&b, "var cyc2 = {name: \"a\"}; cyc2.self = cyc2; bs[%s] = cyc2;\n", js(o.A))
		case Raw, Misuse:
			b.WriteString(o.A)
			b.WriteString("\n")
		case MutateDeep:
			b.WriteString("bs")
			for _, part := range strings.Split(o.A, ".") {
				fmt.Fprintf(&b, "[%s]", js(part))
			}
			b.WriteString(" = \"mutated\";\n")
		}
	}
	b.WriteString("return bs;\n")
	return b.String()
}

// Native renders the program as a Go action.  It never writes to the map it
// is given (the engine's behaviour is under test, not an ill-behaved action).
func (p *Prog) NativeAction() core.Action {
	ops := p.Ops
	return &core.FuncAction{F: func(ctx context.Context, in match.Bindings, props core.StepProps) (*core.Execution, error) {
		if Trace != nil {
			*Trace = append(*Trace, js(map[string]interface{}(in)))
		}
		w := in.Copy()
		if in == nil {
			w = match.NewBindings()
		}
		if len(ops) > 0 && ops[0].K == InPlace && in != nil {
			w = in
		}
		exe := core.NewExecution(nil)
		for _, o := range ops {
			switch o.K {
			case Set:
				w[o.A] = o.V
			case Del:
				delete(w, o.A)
			case Clear:
				w = match.NewBindings()
			case Emit:
				exe.AddEmitted(o.V)
			case Throw, ThrowVal:
				return nil, errors.New("boom")
			case RejectUnless:
				if js(w[o.A]) != js(o.V) {
					exe.Bs = nil
					return exe, nil
				}
			case ThrowIf:
				if js(w[o.A]) == js(o.V) {
					return nil, errors.New("boom")
				}
			case NativeErrPartial:
				exe.Bs = w
				return exe, errors.New("boom")
			case NativeNilExec:
				return nil, nil
			case NativeNilBs:
				exe.Bs = nil
				return exe, nil
			case NativeNoEvents:
				return &core.Execution{Bs: w}, nil
			case RetNull:
				exe.Bs = nil
				return exe, nil
			case RetScalar, RetArray:
				return nil, errors.New("isn't Bindings")
			case RetSame:
				exe.Bs = in
				return exe, nil
			case RetEmpty:
				exe.Bs = match.NewBindings()
				return exe, nil
			case RetFresh:
				m, _ := o.V.(map[string]interface{})
				nb := match.NewBindings()
				for k, v := range m {
					nb[k] = v
				}
				exe.Bs = nb
				return exe, nil
			case EmitBad:
				switch o.A {
				case "nan":
					exe.AddEmitted(map[string]interface{}{"x": math.NaN()})
				case "func":
					exe.AddEmitted(map[string]interface{}{"f": func() {}})
				default:
					cyc := map[string]interface{}{}
					cyc["self"] = cyc
					exe.AddEmitted(cyc)
				}
			case SetBad:
				w[o.A] = math.NaN()
			case Spin:
				<-ctx.Done()
				return nil, errors.New("RuntimeError: timeout")
			case Tick:
				ctx.Value("tick")
			}
		}
		exe.Bs = w
		return exe, nil
	}}
}

// Source returns an ActionSource for the ecmascript interpreter.
func (p *Prog) Source() *core.ActionSource {
	return &core.ActionSource{Interpreter: p.InterpreterName(), Source: p.JS()}
}

// InterpreterName: programs that use the helpers of the extended environment need the extended interpreter.
func (p *Prog) InterpreterName() string {
	for _, o := range p.Ops {
		if o.K == Misuse {
			return "ecmascript-ext"
		}
	}
	return "ecmascript"
}

// Result of the reference interpretation.
type Result struct {
	Bs      map[string]interface{} // nil: returned null
	Emitted []interface{}
	Err     bool // the execution failed (throw / bad return / unserialisable emit)
}

func clone(x interface{}) interface{} {
	switch v := x.(type) {
	case map[string]interface{}:
		m := make(map[string]interface{}, len(v))
		for k, e := range v {
			m[k] = clone(e)
		}
		return m
	case match.Bindings:
		m := make(map[string]interface{}, len(v))
		for k, e := range v {
			m[k] = clone(e)
		}
		return m
	case []interface{}:
		a := make([]interface{}, len(v))
		for i, e := range v {
			a[i] = clone(e)
		}
		return a
	}
	return x
}

// Model interprets the program on a copy of bs.  permanent: bindings whose
// name ends in '!' that were present beforehand are present afterwards with
// their previous value whenever bindings are returned.
func (p *Prog) Model(bs map[string]interface{}) Result {
	in := clone(bs)
	w, _ := in.(map[string]interface{})
	if w == nil {
		w = map[string]interface{}{}
	}
	if !p.Native && unserialisable(bs) {
		// bindings are handed to a script through JSON; a NaN cannot make the trip
		return Result{Err: true}
	}
	orig := w // the object a script sees as _.bindings
	var out []interface{}
	restore := func(r map[string]interface{}) map[string]interface{} {
		for k, v := range bs {
			if strings.HasSuffix(k, "!") {
				r[k] = clone(v)
			}
		}
		return r
	}
	for _, o := range p.Ops {
		switch o.K {
		case Set:
			w[o.A] = clone(o.V)
		case Del:
			delete(w, o.A)
		case Clear:
			w = map[string]interface{}{}
		case Emit:
			out = append(out, clone(o.V))
		case Throw, ThrowVal, RetScalar, RetArray, Spin, RetGetter, Misuse:
			return Result{Err: true}
		case RejectUnless:
			if js(w[o.A]) != js(o.V) {
				return Result{Bs: nil, Emitted: out}
			}
		case ThrowIf:
			if js(w[o.A]) == js(o.V) {
				return Result{Err: true}
			}
		case NativeNoEvents:
			return Result{Bs: restore(w), Emitted: nil}
		case NativeErrPartial:
			// a native action may hand back a partial Execution together with its error;
			// the engine adds that Execution's events to the stride
			return Result{Err: true, Emitted: out}
		case EmitBad:
			if !p.Native {
				switch o.A {
				case "func":
					// goja exports a function value; JSON marshalling of the exported func fails
				}
				return Result{Err: true}
			}
			// a native action's emitted values are passed through untouched by the engine
			switch o.A {
			case "nan":
				out = append(out, map[string]interface{}{"x": math.NaN()})
			default:
				out = append(out, map[string]interface{}{"f": func() {}})
			}
		case RetNull, NativeNilBs:
			return Result{Bs: nil, Emitted: out}
		case NativeNilExec:
			return Result{Bs: nil, Emitted: nil}
		case RetSame:
			in2, _ := clone(bs).(map[string]interface{})
			if in2 == nil {
				in2 = map[string]interface{}{}
			}
			if !p.Native {
				// _.bindings is the object the ops before any Clear have been editing
				in2 = orig
			}
			return Result{Bs: restore(in2), Emitted: out}
		case RetEmpty:
			return Result{Bs: restore(map[string]interface{}{}), Emitted: out}
		case RetFresh:
			m, _ := clone(o.V).(map[string]interface{})
			if m == nil {
				m = map[string]interface{}{}
			}
			return Result{Bs: restore(m), Emitted: out}
		case SetBad:
			w[o.A] = math.NaN()
		case MutateDeep:
			if !setPath(w, strings.Split(o.A, "."), "mutated") {
				return Result{Err: true} // TypeError: cannot set a property of undefined
			}
		}
	}
	return Result{Bs: restore(w), Emitted: out}
}

func setPath(m map[string]interface{}, path []string, v interface{}) bool {
	var cur interface{} = m
	for i, k := range path {
		last := i == len(path)-1
		switch c := cur.(type) {
		case map[string]interface{}:
			if last {
				c[k] = v
				return true
			}
			cur = c[k]
		case []interface{}:
			idx, err := strconv.Atoi(k)
			if err != nil || idx < 0 || idx >= len(c) {
				return false
			}
			if last {
				c[idx] = v
				return true
			}
			cur = c[idx]
		default:
			return false
		}
	}
	return false
}

func unserialisable(x interface{}) bool {
	switch v := x.(type) {
	case float64:
		return math.IsNaN(v) || math.IsInf(v, 0)
	case map[string]interface{}:
		for _, e := range v {
			if unserialisable(e) {
				return true
			}
		}
	case match.Bindings:
		return unserialisable(map[string]interface{}(v))
	case []interface{}:
		for _, e := range v {
			if unserialisable(e) {
				return true
			}
		}
	}
	return false
}
