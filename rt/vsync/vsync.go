// Package vsync replaces "sync" in the packages under a concurrent harness.
// Mutex and RWMutex are scheduler-aware: Lock is a point that is enabled only
// while the mutex is logically free; once granted, the embedded real mutex is
// taken as well (never contended) so ThreadSanitizer sees exactly the
// happens-before edges of the real program.  Everything else is the real thing.
package vsync

import (
	"sync"

	"github.com/Comcast/sheens/verifrt/sched"
)

type (
	Once   = sync.Once
	Map    = sync.Map
	Pool   = sync.Pool
	Locker = sync.Locker
)

// WaitGroup and Cond are the real things, except that an operation that can wake a blocked goroutine
// tells the scheduler so (like Close), so that quiescence is re-examined instead of assumed.
type WaitGroup struct{ wg sync.WaitGroup }

func (w *WaitGroup) Add(d int) {
	if d < 0 {
		sched.NoteClose()
	}
	w.wg.Add(d)
}
func (w *WaitGroup) Done() { sched.NoteClose(); w.wg.Done() }
func (w *WaitGroup) Wait() { w.wg.Wait() }

type Cond struct {
	L Locker
	c *sync.Cond
}

func NewCond(l Locker) *Cond { return &Cond{L: l, c: sync.NewCond(l)} }
func (c *Cond) Wait()        { c.c.Wait() }
func (c *Cond) Signal()      { sched.NoteClose(); c.c.Signal() }
func (c *Cond) Broadcast()   { sched.NoteClose(); c.c.Broadcast() }

func OnceFunc(f func()) func()                                 { return sync.OnceFunc(f) }
func OnceValue[T any](f func() T) func() T                     { return sync.OnceValue(f) }
func OnceValues[T1, T2 any](f func() (T1, T2)) func() (T1, T2) { return sync.OnceValues(f) }

// Used keeps the import alive.
const Used = true

type Mutex struct {
	st   sched.MutexState
	real sync.Mutex
}

//go:norace
func (m *Mutex) Lock() {
	if sched.Active() {
		sched.Point(sched.OpLock, &m.st, "Mutex.Lock")
	}
	m.real.Lock()
}

//go:norace
func (m *Mutex) Unlock() {
	m.real.Unlock()
	m.st.Owner = 0
}

//go:norace
func (m *Mutex) TryLock() bool {
	if sched.Active() {
		sched.Point(sched.OpYield, nil, "Mutex.TryLock")
	}
	if m.real.TryLock() {
		m.st.Owner = 1 << 20
		return true
	}
	return false
}

type RWMutex struct {
	st   sched.MutexState
	real sync.RWMutex
}

//go:norace
func (m *RWMutex) Lock() {
	if sched.Active() {
		sched.Point(sched.OpLock, &m.st, "RWMutex.Lock")
	}
	m.real.Lock()
}

//go:norace
func (m *RWMutex) Unlock() {
	m.real.Unlock()
	m.st.Owner = 0
}

//go:norace
func (m *RWMutex) RLock() {
	if sched.Active() {
		sched.Point(sched.OpRLock, &m.st, "RWMutex.RLock")
	}
	m.real.RLock()
}

//go:norace
func (m *RWMutex) RUnlock() {
	m.real.RUnlock()
	if m.st.Readers > 0 {
		m.st.Readers--
	}
}

func (m *RWMutex) RLocker() Locker { return (*rlocker)(m) }

type rlocker RWMutex

func (r *rlocker) Lock()   { (*RWMutex)(r).RLock() }
func (r *rlocker) Unlock() { (*RWMutex)(r).RUnlock() }

// Close closes ch after telling the scheduler that a channel was closed in this step.
func Close[T any](ch chan T) {
	sched.NoteClose()
	close(ch)
}

// Start is the first statement of every `go func() { ... }()` in the instrumented packages: a scheduling
// point, so that a new goroutine does not run a single step of the code under test before the explorer says so.
func Start() {
	if sched.Active() {
		sched.Point(sched.OpYield, nil, "go")
	}
}
