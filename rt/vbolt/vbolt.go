// Package vbolt stands in for go.etcd.io/bbolt in the packages under a
// concurrent harness: the database handle's Update and View are scheduling
// points (a transaction is the unit of persistence, so "switch just before
// the write" is a schedule the explorer must be able to take); everything
// else is the real bbolt.
package vbolt

import (
	"errors"
	"os"

	bbolt "go.etcd.io/bbolt"

	"github.com/Comcast/sheens/verifrt/sched"
)

type (
	Tx      = bbolt.Tx
	Bucket  = bbolt.Bucket
	Cursor  = bbolt.Cursor
	Options = bbolt.Options
	Stats   = bbolt.Stats
)

var (
	ErrDatabaseNotOpen = bbolt.ErrDatabaseNotOpen
	ErrBucketNotFound  = bbolt.ErrBucketNotFound
	ErrKeyRequired     = bbolt.ErrKeyRequired
	ErrTimeout         = bbolt.ErrTimeout
	DefaultOptions     = bbolt.DefaultOptions
)

// DB wraps *bbolt.DB.
type DB struct {
	*bbolt.DB
}

func Open(path string, mode os.FileMode, options *Options) (*DB, error) {
	db, err := bbolt.Open(path, mode, options)
	if err != nil {
		return nil, err
	}
	return &DB{DB: db}, nil
}

// Fault injection (sequential harnesses): the next FailUpdates write transactions fail - either before the
// transaction function runs ("the device refuses") or, with FailAtCommit, after it ran ("the commit fails":
// bbolt rolls the transaction back).  A failed transaction leaves the file as it was.
var (
	FailUpdates  int
	FailAtCommit bool
	ErrInjected  = errors.New("injected storage failure")
)

func (db *DB) Update(fn func(*Tx) error) error {
	if sched.Active() {
		sched.Point(sched.OpYield, nil, "bolt.Update")
	}
	if FailUpdates > 0 {
		FailUpdates--
		if !FailAtCommit {
			return ErrInjected
		}
		return db.DB.Update(func(tx *Tx) error {
			if err := fn(tx); err != nil {
				return err
			}
			return ErrInjected
		})
	}
	return db.DB.Update(fn)
}

func (db *DB) View(fn func(*Tx) error) error {
	if sched.Active() {
		sched.Point(sched.OpYield, nil, "bolt.View")
	}
	return db.DB.View(fn)
}

func (db *DB) Close() error {
	if db == nil || db.DB == nil {
		return nil
	}
	return db.DB.Close()
}
