// Package jgen enumerates JSON values (and match patterns) by size, simplest
// first, without repetition.  Size = number of AST nodes (an atom, {} and []
// count 1; a map or array counts 1 plus its members; keys are free).
package jgen

import (
	"encoding/json"
	"strings"
)

// Spec describes an alphabet.
type Spec struct {
	Atoms    []interface{} // constant atoms
	Vars     []string      // variable atoms (patterns only)
	Keys     []string      // constant map keys
	PropVars []string      // variables allowed as the sole key of a map (patterns only)
	MaxArr   int           // maximum array length
	NoEmpty  bool          // leave out {} and []
	memo     map[int][]interface{}
}

func isVar(x interface{}) bool {
	s, ok := x.(string)
	return ok && strings.HasPrefix(s, "?")
}

// OfSize returns every value with exactly n nodes.
func (s *Spec) OfSize(n int) []interface{} {
	if n <= 0 {
		return nil
	}
	if s.memo == nil {
		s.memo = map[int][]interface{}{}
	}
	if v, ok := s.memo[n]; ok {
		return v
	}
	var out []interface{}
	if n == 1 {
		out = append(out, s.Atoms...)
		for _, v := range s.Vars {
			out = append(out, v)
		}
		if !s.NoEmpty {
			out = append(out, map[string]interface{}{}, []interface{}{})
		}
		s.memo[n] = out
		return out
	}
	rest := n - 1
	// maps over non-empty subsets of the constant keys
	nk := len(s.Keys)
	for mask := 1; mask < 1<<nk; mask++ {
		var ks []string
		for i := 0; i < nk; i++ {
			if mask&(1<<i) != 0 {
				ks = append(ks, s.Keys[i])
			}
		}
		if len(ks) > rest {
			continue
		}
		s.compose(len(ks), rest, func(parts []interface{}) {
			m := make(map[string]interface{}, len(ks))
			for i, k := range ks {
				m[k] = parts[i]
			}
			out = append(out, m)
		}, false)
	}
	// maps with a property variable as sole key
	for _, pv := range s.PropVars {
		for _, v := range s.OfSize(rest) {
			out = append(out, map[string]interface{}{pv: v})
		}
	}
	// arrays
	for l := 1; l <= s.MaxArr && l <= rest; l++ {
		s.compose(l, rest, func(parts []interface{}) {
			out = append(out, append([]interface{}{}, parts...))
		}, true)
	}
	s.memo[n] = out
	return out
}

// compose calls f with every k-tuple of values whose sizes sum to total.
// When array is set, tuples with more than one directly contained variable
// are skipped (the supported fragment).
func (s *Spec) compose(k, total int, f func([]interface{}), array bool) {
	parts := make([]interface{}, k)
	var rec func(i, left, vars int)
	rec = func(i, left, vars int) {
		if i == k-1 {
			for _, v := range s.OfSize(left) {
				nv := vars
				if array && isVar(v) {
					nv++
				}
				if nv > 1 {
					continue
				}
				parts[i] = v
				f(parts)
			}
			return
		}
		for sz := 1; sz <= left-(k-1-i); sz++ {
			for _, v := range s.OfSize(sz) {
				nv := vars
				if array && isVar(v) {
					nv++
				}
				if nv > 1 {
					continue
				}
				parts[i] = v
				rec(i+1, left-sz, nv)
			}
		}
	}
	rec(0, total, 0)
}

// UpTo returns every value with at most n nodes, smallest first.
func (s *Spec) UpTo(n int) []interface{} {
	var out []interface{}
	for i := 1; i <= n; i++ {
		out = append(out, s.OfSize(i)...)
	}
	return out
}

// J renders a value as compact JSON (for messages and keys).
func J(x interface{}) string {
	b, err := json.Marshal(x)
	if err != nil {
		return "<unmarshalable>"
	}
	return string(b)
}

// Size counts nodes.
func Size(x interface{}) int {
	switch v := x.(type) {
	case map[string]interface{}:
		n := 1
		for _, e := range v {
			n += Size(e)
		}
		return n
	case []interface{}:
		n := 1
		for _, e := range v {
			n += Size(e)
		}
		return n
	}
	return 1
}

// Clone makes a deep copy of a JSON value.
func Clone(x interface{}) interface{} {
	switch v := x.(type) {
	case map[string]interface{}:
		m := make(map[string]interface{}, len(v))
		for k, e := range v {
			m[k] = Clone(e)
		}
		return m
	case []interface{}:
		a := make([]interface{}, len(v))
		for i, e := range v {
			a[i] = Clone(e)
		}
		return a
	}
	return x
}
