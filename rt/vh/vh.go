// Package vh is the harness-side runtime shared by all checks: it reads the
// worker's parameters from the environment, counts what was explored,
// collects violations (each with a structural key and a replayable case) and
// writes the worker's partial report for the driver to merge.
package vh

import (
	"encoding/json"
	"fmt"
	"hash/fnv"
	"os"
	"runtime/debug"
	"runtime/pprof"
	"sort"
	"strconv"
	"strings"
	"sync"
	"time"
)

// Violation is one failed oracle evaluation.
type Violation struct {
	Key    string      `json:"key"`    // structural signature (matched against known_findings.json)
	Detail string      `json:"detail"` // human readable
	Case   interface{} `json:"case"`   // replayable case
}

// Report is what one worker hands to the driver.
type Report struct {
	Check         string                 `json:"check"`
	Tier          string                 `json:"tier"`
	Shard         int                    `json:"shard"`
	Shards        int                    `json:"shards"`
	Evaluations   int64                  `json:"evaluations"`
	Nontrivial    int64                  `json:"nontrivial"`
	States        int64                  `json:"states"`
	Transitions   int64                  `json:"transitions"`
	Traces        int64                  `json:"traces"`
	Counters      map[string]int64       `json:"counters"`
	Violations    []Violation            `json:"violations"`
	ViolationKeys map[string]int64       `json:"violation_keys"`
	Samples       []interface{}          `json:"samples"`
	Exhaustive    bool                   `json:"exhaustive"`
	Notes         []string               `json:"notes"`
	Bounds        map[string]interface{} `json:"bounds"`
	Rule          string                 `json:"rule"`
	Outcomes      map[string]int64       `json:"outcomes"`
	WallS         float64                `json:"wall_s"`
	Completed     bool                   `json:"completed"`
}

// Ctx is the per-worker context handed to a check function.
type Ctx struct {
	mu       sync.Mutex
	R        Report
	Tier     string
	Shard    int
	Shards   int
	Replay   string // path of a replay file, "" when exploring
	deadline time.Time
	start    time.Time
	hit      bool
	maxPer   int
	inflight *os.File
	outcomes map[uint64]struct{}
}

// Quick reports whether the quick tier is running.
func (c *Ctx) Quick() bool { return c.Tier != "thorough" }

// Pick returns q in the quick tier and t in the thorough tier.
func (c *Ctx) Pick(q, t int) int {
	if c.Quick() {
		return q
	}
	return t
}

// Mine says whether case number idx belongs to this worker.
func (c *Ctx) Mine(idx uint64) bool {
	return c.Shards <= 1 || int(idx%uint64(c.Shards)) == c.Shard
}

// Expired reports (and remembers) that the worker's internal deadline has
// passed; the check should stop, and the run is then not exhaustive.
func (c *Ctx) Expired() bool {
	if c.hit {
		return true
	}
	if !c.deadline.IsZero() && time.Now().After(c.deadline) {
		c.hit = true
		c.Note("internal deadline reached; enumeration stopped early")
	}
	return c.hit
}

func (c *Ctx) Eval()                   { c.R.Evaluations++ }
func (c *Ctx) EvalN(n int64)           { c.R.Evaluations += n }
func (c *Ctx) Nontrivial()             { c.R.Nontrivial++ }
func (c *Ctx) Count(k string, d int64) { c.R.Counters[k] += d }
func (c *Ctx) Bound(k string, v interface{}) {
	c.R.Bounds[k] = v
}
func (c *Ctx) Rule(s string) { c.R.Rule = s }
func (c *Ctx) Note(s string) {
	for _, n := range c.R.Notes {
		if n == s {
			return
		}
	}
	c.R.Notes = append(c.R.Notes, s)
}

// Outcome records a distinct observable outcome (by hash) so the evidence
// can say how many different behaviours the exploration saw.
func (c *Ctx) Outcome(class string, s string) {
	h := fnv.New64a()
	h.Write([]byte(class))
	h.Write([]byte{0})
	h.Write([]byte(s))
	k := h.Sum64()
	if _, ok := c.outcomes[k]; !ok {
		c.outcomes[k] = struct{}{}
		c.R.Outcomes[class]++
	}
}

// Sample keeps up to a few written-out cases.
func (c *Ctx) Sample(x interface{}) {
	if len(c.R.Samples) < 4 {
		c.R.Samples = append(c.R.Samples, jsonable(x))
	}
}

// WantSample says whether another sample is still wanted.
func (c *Ctx) WantSample() bool { return len(c.R.Samples) < 4 }

// Violation records a violation under a structural key.
func (c *Ctx) Violation(key, detail string, cas interface{}) {
	c.mu.Lock()
	defer c.mu.Unlock()
	c.R.ViolationKeys[key]++
	if c.R.ViolationKeys[key] <= int64(c.maxPer) && len(c.R.Violations) < 400 {
		c.R.Violations = append(c.R.Violations, Violation{Key: key, Detail: detail, Case: jsonable(cas)})
	}
	if c.R.ViolationKeys[key] == 1 {
		// a violation is often followed by worse (a corrupted instance, a poisoned lock): what has been
		// found so far must survive the death of this worker
		if out := os.Getenv("VERIF_OUT"); out != "" {
			if b, err := json.Marshal(&c.R); err == nil {
				os.WriteFile(out+".partial", b, 0o644)
			}
		}
	}
}

// InFlight writes the case about to be executed to the worker's in-flight
// file, so the driver can attribute a hard crash of the worker to it.
func (c *Ctx) InFlight(cas interface{}) {
	if c.inflight == nil {
		return
	}
	b, _ := json.Marshal(jsonable(cas))
	c.inflight.Truncate(0)
	c.inflight.WriteAt(b, 0)
}

// NotExhaustive marks the run as not having finished its space.
func (c *Ctx) NotExhaustive(why string) {
	c.hit = true
	c.Note(why)
}

func jsonable(x interface{}) interface{} {
	b, err := json.Marshal(x)
	if err != nil {
		return fmt.Sprintf("%#v", x)
	}
	var y interface{}
	if json.Unmarshal(b, &y) != nil {
		return string(b)
	}
	return y
}

// LoadReplay decodes the replay file's case into v.
func (c *Ctx) LoadReplay(v interface{}) error {
	b, err := os.ReadFile(c.Replay)
	if err != nil {
		return err
	}
	var wrap struct {
		Case json.RawMessage `json:"case"`
	}
	if err := json.Unmarshal(b, &wrap); err != nil {
		return err
	}
	return json.Unmarshal(wrap.Case, v)
}

// Trap runs f and converts a panic into (true, description, top frames).
func Trap(f func()) (panicked bool, msg string, where string) {
	defer func() {
		if r := recover(); r != nil {
			panicked = true
			msg = fmt.Sprint(r)
			where = frames(string(debug.Stack()))
		}
	}()
	f()
	return
}

// frames extracts the function names of the panicking frames inside sheens
// (skipping runtime and harness frames) as a stable signature.
func frames(stack string) string {
	lines := strings.Split(stack, "\n")
	var fs []string
	seenPanic := false
	for _, l := range lines {
		if strings.HasPrefix(l, "panic(") {
			seenPanic = true
			fs = nil
			continue
		}
		if !seenPanic || strings.HasPrefix(l, "\t") || l == "" {
			continue
		}
		if i := strings.LastIndex(l, "("); i > 0 {
			l = l[:i]
		}
		if strings.HasPrefix(l, "runtime.") || strings.Contains(l, "/verifrt/") {
			continue
		}
		if strings.Contains(l, "github.com/Comcast/sheens/") {
			l = strings.TrimPrefix(l, "github.com/Comcast/sheens/")
			fs = append(fs, l)
			if len(fs) == 2 {
				break
			}
		}
	}
	return strings.Join(fs, "<")
}

// CheckFunc is one registered check.
type CheckFunc func(c *Ctx)

// Main dispatches to the check named by VERIF_CHECK and writes the report.
func Main(checks map[string]CheckFunc) {
	name := os.Getenv("VERIF_CHECK")
	f, ok := checks[name]
	if !ok {
		var ns []string
		for n := range checks {
			ns = append(ns, n)
		}
		sort.Strings(ns)
		fmt.Fprintf(os.Stderr, "vh: unknown check %q (have %v)\n", name, ns)
		os.Exit(3)
	}
	c := &Ctx{Tier: os.Getenv("VERIF_TIER"), Shards: 1, maxPer: 3, outcomes: map[uint64]struct{}{}}
	if c.Tier == "" {
		c.Tier = "quick"
	}
	if s := os.Getenv("VERIF_SHARD"); s != "" {
		p := strings.Split(s, "/")
		c.Shard, _ = strconv.Atoi(p[0])
		c.Shards, _ = strconv.Atoi(p[1])
	}
	if s := os.Getenv("VERIF_DEADLINE_S"); s != "" {
		if n, err := strconv.Atoi(s); err == nil && n > 0 {
			c.deadline = time.Now().Add(time.Duration(n) * time.Second)
		}
	}
	c.Replay = os.Getenv("VERIF_REPLAY")
	if p := os.Getenv("VERIF_INFLIGHT"); p != "" {
		c.inflight, _ = os.Create(p)
	}
	c.R = Report{Check: name, Tier: c.Tier, Shard: c.Shard, Shards: c.Shards,
		Counters: map[string]int64{}, ViolationKeys: map[string]int64{}, Bounds: map[string]interface{}{},
		Outcomes: map[string]int64{}}
	debug.SetMaxStack(128 << 20) // an unbounded recursion should die in a second, not after filling 1 GB
	c.start = time.Now()
	if pf := os.Getenv("VERIF_PROF"); pf != "" {
		if fh, err := os.Create(pf); err == nil {
			pprof.StartCPUProfile(fh)
			defer pprof.StopCPUProfile()
		}
	}
	f(c)
	pprof.StopCPUProfile()
	c.R.WallS = time.Since(c.start).Seconds()
	c.R.Exhaustive = !c.hit
	c.R.Completed = true
	out := os.Getenv("VERIF_OUT")
	b, err := json.Marshal(&c.R)
	if err != nil {
		fmt.Fprintln(os.Stderr, "vh: cannot marshal report:", err)
		os.Exit(3)
	}
	if out == "" {
		os.Stdout.Write(b)
		os.Stdout.WriteString("\n")
	} else if err := os.WriteFile(out, b, 0o644); err != nil {
		fmt.Fprintln(os.Stderr, "vh:", err)
		os.Exit(3)
	}
	os.Exit(0)
}
