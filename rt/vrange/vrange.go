// Package vrange owns map-iteration order.  The instrumenter rewrites every
// `for k, v := range m` over a map into a loop over vrange.Keys(m); Keys
// returns the keys in an order chosen by the explorer: choice 0 is the sorted
// order, the other alternatives are the other permutations (all n!-1 of them
// for n <= MaxFull, rotations and the reversal above that).
package vrange

import (
	"fmt"
	"sort"
	"sync/atomic"
)

// MaxFull is the largest map size whose every permutation is an alternative.
const MaxFull = 4

// Chooser is asked, at each range over a map with n >= 2 keys, which of
// `alts` orders to use (0 = sorted).  nil means always 0.
var Chooser func(n int, alts int) int

// Reverse pins the default order to reverse-sorted (used by the pinned
// order differential) when no Chooser is installed.
var Reverse bool

// Points counts range executions over maps with at least two keys.
var Points int64

// Used keeps the import alive in files whose ranges were all left alone.
const Used = true

var fact = []int{1, 1, 2, 6, 24}

// Alts returns how many orders are explored for a map with n keys.
func Alts(n int) int {
	if n < 2 {
		return 1
	}
	if n <= MaxFull {
		return fact[n]
	}
	return n + 1 // n rotations (incl. identity) + reversal
}

// Keys returns the keys of m in the order chosen by the explorer.
// Zero declares the loop variables of a rewritten range statement with the map's key and value types.
func Zero[M ~map[K]V, K comparable, V any](m M) (k K, v V) { return }

func Keys[M ~map[K]V, K comparable, V any](m M) []K {
	n := len(m)
	if n == 0 {
		return nil
	}
	ks := make([]K, 0, n)
	for k := range m {
		ks = append(ks, k)
	}
	if n == 1 {
		return ks
	}
	sortKeys(ks)
	atomic.AddInt64(&Points, 1)
	if Chooser == nil {
		if Reverse {
			for i, j := 0, n-1; i < j; i, j = i+1, j-1 {
				ks[i], ks[j] = ks[j], ks[i]
			}
		}
		return ks
	}
	alts := Alts(n)
	c := Chooser(n, alts)
	if c <= 0 {
		return ks
	}
	if c >= alts {
		panic(fmt.Sprintf("vrange: choice %d out of range (%d alternatives)", c, alts))
	}
	if n <= MaxFull {
		return permute(ks, c)
	}
	if c < n { // rotation by c
		out := make([]K, 0, n)
		out = append(out, ks[c:]...)
		out = append(out, ks[:c]...)
		return out
	}
	for i, j := 0, n-1; i < j; i, j = i+1, j-1 {
		ks[i], ks[j] = ks[j], ks[i]
	}
	return ks
}

// permute returns the idx-th permutation of ks in lexicographic order.
func permute[K any](ks []K, idx int) []K {
	n := len(ks)
	pool := append([]K(nil), ks...)
	out := make([]K, 0, n)
	for i := n; i >= 1; i-- {
		f := fact[i-1]
		j := idx / f
		idx = idx % f
		out = append(out, pool[j])
		pool = append(pool[:j], pool[j+1:]...)
	}
	return out
}

func sortKeys[K comparable](ks []K) {
	switch v := any(ks).(type) {
	case []string:
		sort.Strings(v)
	case []int:
		sort.Ints(v)
	default:
		sort.Slice(ks, func(i, j int) bool {
			return fmt.Sprintf("%T:%v", any(ks[i]), any(ks[i])) < fmt.Sprintf("%T:%v", any(ks[j]), any(ks[j]))
		})
	}
}
