// Package vexplore is the deviation-bounded DFS over map-iteration orders:
// it installs a vrange.Chooser, runs the function under test with a prefix of
// choices (default choice 0 afterwards), and branches on every later range
// point while the number of non-default choices stays within the bound.
package vexplore

import (
	"fmt"

	"github.com/Comcast/sheens/verifrt/vrange"
)

// Orders runs f under every combination of map-iteration orders with at most
// `bound` deviating (non-sorted) range executions.  visit is called after each
// execution with the choice sequence that was used.  It returns the number of
// executions, and whether maxRuns cut the exploration short.
// Diverged describes the last replay divergence ("" if none): re-executing f under a recorded prefix of
// choices met a different sequence of map ranges.  The explorer itself is deterministic, so this means f
// behaved differently on identical inputs (hidden state in the code under test).
var Diverged string

func Orders(bound int, maxRuns int, f func(), visit func(choices []int)) (runs int, capped bool) {
	Diverged = ""
	var explore func(prefix []int, devs int)
	explore = func(prefix []int, devs int) {
		if capped || Diverged != "" {
			return
		}
		if runs >= maxRuns {
			capped = true
			return
		}
		var alts []int
		var choices []int
		pos := 0
		vrange.Chooser = func(n, a int) int {
			c := 0
			if pos < len(prefix) {
				c = prefix[pos]
				if c >= a {
					Diverged = fmt.Sprintf("choice %d of %d alternatives at range point %d", c, a, pos)
					c = 0
				}
			}
			pos++
			alts = append(alts, a)
			choices = append(choices, c)
			return c
		}
		f()
		vrange.Chooser = nil
		runs++
		if pos < len(prefix) && Diverged == "" {
			Diverged = fmt.Sprintf("only %d of %d recorded range points reached", pos, len(prefix))
		}
		if Diverged != "" {
			return
		}
		visit(choices)
		if devs >= bound {
			return
		}
		for i := len(prefix); i < len(alts); i++ {
			for alt := 1; alt < alts[i]; alt++ {
				np := append(append([]int{}, choices[:i]...), alt)
				explore(np, devs+1)
			}
		}
	}
	explore(nil, 0)
	return
}

// Replay runs f once under the given choice sequence (0 after its end).
func Replay(choices []int, f func()) {
	pos := 0
	vrange.Chooser = func(n, a int) int {
		c := 0
		if pos < len(choices) {
			c = choices[pos]
		}
		pos++
		if c >= a {
			c = 0
		}
		return c
	}
	f()
	vrange.Chooser = nil
}
