// Package vtime replaces "time": types, constants and pure functions are the
// real ones; the clock and timers are virtual and owned by the scheduler.
package vtime

import (
	"time"

	"github.com/Comcast/sheens/verifrt/sched"
)

type (
	Time       = time.Time
	Duration   = time.Duration
	Month      = time.Month
	Weekday    = time.Weekday
	Location   = time.Location
	ParseError = time.ParseError
)

const (
	Nanosecond  = time.Nanosecond
	Microsecond = time.Microsecond
	Millisecond = time.Millisecond
	Second      = time.Second
	Minute      = time.Minute
	Hour        = time.Hour

	Layout      = time.Layout
	ANSIC       = time.ANSIC
	UnixDate    = time.UnixDate
	RubyDate    = time.RubyDate
	RFC822      = time.RFC822
	RFC822Z     = time.RFC822Z
	RFC850      = time.RFC850
	RFC1123     = time.RFC1123
	RFC1123Z    = time.RFC1123Z
	RFC3339     = time.RFC3339
	RFC3339Nano = time.RFC3339Nano
	Kitchen     = time.Kitchen
	Stamp       = time.Stamp
	StampMilli  = time.StampMilli
	StampMicro  = time.StampMicro
	StampNano   = time.StampNano
	DateTime    = time.DateTime
	DateOnly    = time.DateOnly
	TimeOnly    = time.TimeOnly

	January   = time.January
	February  = time.February
	March     = time.March
	April     = time.April
	May       = time.May
	June      = time.June
	July      = time.July
	August    = time.August
	September = time.September
	October   = time.October
	November  = time.November
	December  = time.December
	Sunday    = time.Sunday
	Monday    = time.Monday
	Tuesday   = time.Tuesday
	Wednesday = time.Wednesday
	Thursday  = time.Thursday
	Friday    = time.Friday
	Saturday  = time.Saturday
)

var (
	UTC   = time.UTC
	Local = time.Local
)

func Parse(layout, value string) (Time, error) { return time.Parse(layout, value) }
func ParseInLocation(layout, value string, loc *Location) (Time, error) {
	return time.ParseInLocation(layout, value, loc)
}
func ParseDuration(s string) (Duration, error) { return time.ParseDuration(s) }
func Date(y int, m Month, d, h, mi, s, ns int, loc *Location) Time {
	return time.Date(y, m, d, h, mi, s, ns, loc)
}
func Unix(sec, nsec int64) Time                   { return time.Unix(sec, nsec) }
func UnixMilli(ms int64) Time                     { return time.UnixMilli(ms) }
func UnixMicro(us int64) Time                     { return time.UnixMicro(us) }
func FixedZone(name string, off int) *Location    { return time.FixedZone(name, off) }
func LoadLocation(name string) (*Location, error) { return time.LoadLocation(name) }
func LoadLocationFromTZData(name string, data []byte) (*Location, error) {
	return time.LoadLocationFromTZData(name, data)
}

// Now returns the virtual clock while an execution is active.
//
//go:norace
func Now() Time {
	if sched.Mine() {
		return sched.Epoch.Add(Duration(sched.NowNS()))
	}
	return time.Now()
}

func Since(t Time) Duration { return Now().Sub(t) }
func Until(t Time) Duration { return t.Sub(Now()) }

// Timer mirrors time.Timer.
type Timer struct {
	C    <-chan Time
	vt   *sched.VTimer
	real *time.Timer
}

func NewTimer(d Duration) *Timer {
	if !sched.Mine() {
		rt := time.NewTimer(d)
		return &Timer{C: rt.C, real: rt}
	}
	vt := sched.NewVTimer(int64(d), nil)
	return &Timer{C: vt.C, vt: vt}
}

func (t *Timer) Stop() bool {
	if t.real != nil {
		return t.real.Stop()
	}
	return t.vt.Stop()
}

func (t *Timer) Reset(d Duration) bool {
	if t.real != nil {
		return t.real.Reset(d)
	}
	return t.vt.Reset(int64(d))
}

func After(d Duration) <-chan Time { return NewTimer(d).C }

func AfterFunc(d Duration, f func()) *Timer {
	if !sched.Mine() {
		rt := time.AfterFunc(d, f)
		return &Timer{real: rt}
	}
	vt := sched.NewVTimer(int64(d), f)
	return &Timer{vt: vt}
}

// Sleep blocks until a virtual timer of that duration has been fired.
func Sleep(d Duration) {
	if !sched.Mine() {
		time.Sleep(d)
		return
	}
	<-NewTimer(d).C
}

// Ticker: periodic virtual timers are not modelled; a Ticker ticks once per
// firing and re-arms itself when Reset is called by the harness.
type Ticker struct {
	C    <-chan Time
	vt   *sched.VTimer
	real *time.Ticker
}

func NewTicker(d Duration) *Ticker {
	if !sched.Mine() {
		rt := time.NewTicker(d)
		return &Ticker{C: rt.C, real: rt}
	}
	vt := sched.NewVTimer(int64(d), nil)
	return &Ticker{C: vt.C, vt: vt}
}

func (t *Ticker) Stop() {
	if t.real != nil {
		t.real.Stop()
		return
	}
	t.vt.Stop()
}

func (t *Ticker) Reset(d Duration) {
	if t.real != nil {
		t.real.Reset(d)
		return
	}
	t.vt.Reset(int64(d))
}

func Tick(d Duration) <-chan Time { return NewTicker(d).C }
