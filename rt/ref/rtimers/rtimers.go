// Package rtimers is the reference for timers: a monitor automaton per id,
// run over the log of observations of one execution.
package rtimers

import (
	"fmt"
)

// Ev is one observation, in the global order the scheduler serialised them.
type Ev struct {
	Kind  string // add | cancel | fire-begin | fire-end | pending | shutdown | restart
	Id    string
	Token int
	Err   string
	Now   int64
	IDs   []string
	Due   int64
}

func (e Ev) String() string {
	return fmt.Sprintf("%s id=%s token=%d err=%q now=%dms ids=%v due=%dms", e.Kind, e.Id, e.Token, e.Err, e.Now/1000000, e.IDs, e.Due/1000000)
}

// monitor replays the observation log through one automaton per id and
// returns the violated clauses (key, detail).
//
// A timer whose due time has been reached may already be committed to firing
// (retired from the bookkeeping, handler not yet entered); the monitor cannot
// see that instant, so for such an "in-flight" token it accepts both views -
// still pending or already gone - and then insists that it does fire.
func Monitor(evs []Ev, complete bool) [][2]string {
	var out [][2]string
	bad := func(k, d string) { out = append(out, [2]string{k, d}) }
	type tokInfo struct {
		id       string
		due      int64
		accepted bool
		fired    int
		canceled bool
		mustFire bool // was treated as committed by some answer
		optional bool // replaced while in flight: may fire once or never
	}
	toks := map[int]*tokInfo{}
	pending := map[string]int{} // id -> token accepted, not (known to be) fired, not cancelled
	// window: requests whose installation is in progress (add-begin seen, result not yet observed);
	// such a timer may already be installed, and may even fire, before its result is observed
	type win struct {
		id    string
		due   int64
		fired bool
		busy  bool // a timer was pending under the id when the request was handed over: a refusal may have been decided then
	}
	window := map[int]*win{}
	shutdown := false
	inflight := func(tok int, now int64) bool { return now >= toks[tok].due }
	for _, e := range evs {
		switch e.Kind {
		case "add-begin":
			_, busy := pending[e.Id]
			window[e.Token] = &win{id: e.Id, due: e.Due, busy: busy}
		case "add":
			firedInWindow, busyAtBegin := false, false
			if w := window[e.Token]; w != nil {
				delete(window, e.Token)
				firedInWindow = w.fired // installed and already fired before the result could be observed
				busyAtBegin = w.busy
			}
			old, have := pending[e.Id]
			if have && old == e.Token {
				have = false
			}
			if e.Err == "" || firedInWindow {
				if have {
					if inflight(old, e.Now) {
						// either committed to firing (the id was free) or replaced while in flight:
						// it may fire once or not at all
						toks[old].optional = true
					} else {
						// an implementation may replace the timer pending under an id: the old one
						// then counts as cancelled (it must never fire)
						toks[old].canceled = true
					}
				}
				if firedInWindow {
					if have && pending[e.Id] == old {
						delete(pending, e.Id)
					}
					continue
				}
				toks[e.Token] = &tokInfo{id: e.Id, due: e.Due, accepted: true}
				pending[e.Id] = e.Token
			} else if !have && !shutdown && !busyAtBegin {
				bad("id-not-reusable-after-firing", fmt.Sprintf("make(%s) was refused (%s) although no timer is pending under that id (its timer has fired or was cancelled)", e.Id, e.Err))
			}
		case "cancel":
			tok, have := pending[e.Id]
			if e.Err == "" {
				if !have {
					bad("cancel-succeeded-for-non-pending-id", fmt.Sprintf("cancel(%s) reported success although nothing was pending under that id", e.Id))
				} else {
					toks[tok].canceled = true
					delete(pending, e.Id)
				}
			} else if have {
				if inflight(tok, e.Now) {
					toks[tok].mustFire = true
				} else {
					bad("cancel-failed-for-pending-id", fmt.Sprintf("cancel(%s) failed (%s) although token %d is pending and not yet due", e.Id, e.Err, tok))
				}
			}
		case "fire-begin":
			t := toks[e.Token]
			if w := window[e.Token]; t == nil && w != nil {
				// fired inside its own installation window: it was accepted
				w.fired = true
				t = &tokInfo{id: w.id, due: w.due, accepted: true}
				toks[e.Token] = t
			}
			if t == nil || !t.accepted {
				bad("fired-unaccepted-timer", fmt.Sprintf("token %d fired but was never accepted", e.Token))
				continue
			}
			t.fired++
			if t.fired > 1 {
				bad("fired-twice", fmt.Sprintf("token %d (id %s) fired %d times", e.Token, t.id, t.fired))
			}
			if e.Now < t.due {
				bad("fired-early", fmt.Sprintf("token %d fired at %dns, due at %dns", e.Token, e.Now, t.due))
			}
			if t.canceled {
				bad("fired-after-successful-cancel", fmt.Sprintf("token %d (id %s) fired after a cancel of that id had reported success", e.Token, t.id))
			}
			if pending[t.id] == e.Token {
				delete(pending, t.id)
			}
		case "pending":
			must, may := map[string]bool{}, map[string]bool{}
			for id, tok := range pending {
				if inflight(tok, e.Now) {
					may[id] = true
				} else {
					must[id] = true
				}
			}
			for _, w := range window {
				if !w.fired {
					may[w.id] = true
				}
				// a request for an id that has a pending timer replaces it: while that request is
				// being installed the old timer may already be gone
				if must[w.id] {
					delete(must, w.id)
					may[w.id] = true
				}
			}
			rep := map[string]bool{}
			for _, id := range e.IDs {
				rep[id] = true
				if !must[id] && !may[id] {
					bad("pending-report-lists-non-pending", fmt.Sprintf("reported pending %v includes %s, which is neither accepted-and-waiting nor in flight", e.IDs, id))
				}
			}
			for id := range must {
				if !rep[id] {
					bad("pending-report-misses-pending", fmt.Sprintf("reported pending %v misses %s, whose timer was accepted, is not yet due, and was not cancelled", e.IDs, id))
				}
			}
		case "shutdown":
			shutdown = true
		case "restart":
			// the persisted timers resume: nothing changes for the monitor - every pending token is
			// still owed exactly one firing, not before its due time
		}
	}
	if complete && !shutdown {
		for tok, t := range toks {
			if t.accepted && !t.canceled && !t.optional && t.fired == 0 {
				bad("accepted-timer-never-fired", fmt.Sprintf("token %d (id %s) was accepted, never cancelled, and never fired although every timer was driven to its due time", tok, t.id))
			}
		}
	}
	return out
}
