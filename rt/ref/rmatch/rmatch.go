// Package rmatch is the reference for pattern matching: a containment
// relation (soundness oracle, C01) and a plain backtracking enumerator of
// embeddings (completeness oracle, C02).  It is written from the documented
// rules (README "Pattern matching", match.md, doc/rfc.md), not from match.go.
package rmatch

import (
	"encoding/json"
	"sort"
	"strings"
)

type M = map[string]interface{}

func IsVar(x interface{}) bool {
	s, ok := x.(string)
	return ok && strings.HasPrefix(s, "?")
}

func IsOptional(x interface{}) bool {
	s, ok := x.(string)
	return ok && strings.HasPrefix(s, "??")
}

// ParseIneq splits "?<=n" into ("<=", "?n").
func ParseIneq(v string) (op, plain string, ok bool) {
	if len(v) < 3 || v[0] != '?' {
		return "", "", false
	}
	rest := v[1:]
	for _, o := range []string{"<=", ">=", "!=", ">", "<"} {
		if strings.HasPrefix(rest, o) {
			return o, "?" + rest[len(o):], true
		}
	}
	return "", "", false
}

func rel(op string, a, b float64) bool {
	switch op {
	case "<":
		return a < b
	case "<=":
		return a <= b
	case ">":
		return a > b
	case ">=":
		return a >= b
	case "!=":
		return a != b
	}
	return false
}

func num(x interface{}) (float64, bool) {
	f, ok := x.(float64)
	return f, ok
}

// Vars collects the variables of a pattern (values and keys).
func Vars(p interface{}, acc map[string]bool) {
	switch v := p.(type) {
	case string:
		if IsVar(v) {
			acc[v] = true
		}
	case map[string]interface{}:
		for k, e := range v {
			if IsVar(k) {
				acc[k] = true
			}
			Vars(e, acc)
		}
	case []interface{}:
		for _, e := range v {
			Vars(e, acc)
		}
	}
}

// Equal is structural equality of JSON values.
func Equal(a, b interface{}) bool {
	switch x := a.(type) {
	case nil:
		return b == nil
	case bool:
		y, ok := b.(bool)
		return ok && x == y
	case float64:
		y, ok := b.(float64)
		return ok && x == y
	case string:
		y, ok := b.(string)
		return ok && x == y
	case map[string]interface{}:
		y, ok := b.(map[string]interface{})
		if !ok || len(x) != len(y) {
			return false
		}
		for k, v := range x {
			w, ok := y[k]
			if !ok || !Equal(v, w) {
				return false
			}
		}
		return true
	case []interface{}:
		y, ok := b.([]interface{})
		if !ok || len(x) != len(y) {
			return false
		}
		for i := range x {
			if !Equal(x[i], y[i]) {
				return false
			}
		}
		return true
	}
	return false
}

type checker struct {
	B, R M
	// variables bound by the result but not given: each needs a place in the pattern where it met exactly
	// the value it is bound to (a binding has to come from the message)
	q    map[string]uint
	full uint64 // the bit of the mask in which all of q are justified
}

// A witness set is a bit set over masks: bit k is set iff the pattern part is contained in the message
// part by some embedding that justifies exactly the variables of mask k.  0 = not contained.
type wset = uint64

const plainOK wset = 1 // contained, nothing justified

func conj(a, b wset) wset {
	if a == 0 || b == 0 {
		return 0
	}
	if a == plainOK {
		return b
	}
	if b == plainOK {
		return a
	}
	var out wset
	for i := uint(0); i < 64; i++ {
		if a&(1<<i) == 0 {
			continue
		}
		for j := uint(0); j < 64; j++ {
			if b&(1<<j) != 0 {
				out |= 1 << (i | j)
			}
		}
	}
	return out
}

func (c *checker) just(v string, exact bool) wset {
	if i, need := c.q[v]; need && exact {
		return 1 << (uint(1) << i)
	}
	return plainOK
}

// Valid checks one returned binding set R of Match(P, Msg, B) against the
// soundness statement.  It returns "" or the violated clause.
func Valid(p, msg interface{}, b, r M) string {
	for k, v := range b {
		rv, ok := r[k]
		if !ok {
			return "given-binding-dropped"
		}
		if !Equal(v, rv) {
			return "given-binding-changed"
		}
	}
	vars := map[string]bool{}
	Vars(p, vars)
	allowed := map[string]bool{}
	for v := range vars {
		if v == "?" {
			continue
		}
		allowed[v] = true
		if _, plain, ok := ParseIneq(v); ok {
			allowed[plain] = true
		}
	}
	c := &checker{B: b, R: r, q: map[string]uint{}}
	var qs []string
	for k := range r {
		if _, given := b[k]; given {
			continue
		}
		if !allowed[k] {
			return "binds-variable-not-in-pattern"
		}
		qs = append(qs, k)
	}
	sort.Strings(qs)
	if len(qs) <= 6 { // 2^6 masks fit the bit set; larger results are checked for containment only
		for i, k := range qs {
			c.q[k] = uint(i)
		}
	}
	c.full = 1 << ((uint(1) << uint(len(c.q))) - 1)
	w := c.contained(p, msg)
	if w == 0 {
		return "instantiated-pattern-not-contained-in-message"
	}
	if w&c.full == 0 {
		return "binding-not-taken-from-the-message"
	}
	return ""
}

func ok(b bool) wset {
	if b {
		return plainOK
	}
	return 0
}

func (c *checker) contained(p, m interface{}) wset {
	switch pv := p.(type) {
	case nil:
		return ok(m == nil)
	case bool:
		y, is := m.(bool)
		return ok(is && y == pv)
	case float64:
		y, is := m.(float64)
		return ok(is && y == pv)
	case string:
		if !IsVar(pv) {
			y, is := m.(string)
			return ok(is && y == pv)
		}
		return c.varAt(pv, m)
	case map[string]interface{}:
		mm, is := m.(map[string]interface{})
		if !is {
			return 0
		}
		if len(pv) == 0 {
			return plainOK
		}
		if len(pv) == 1 {
			for k, v := range pv {
				if IsVar(k) {
					return c.propVar(k, v, mm)
				}
			}
		}
		keys := make([]string, 0, len(pv))
		for k := range pv {
			keys = append(keys, k)
		}
		sort.Strings(keys)
		w := plainOK
		for _, k := range keys {
			v := pv[k]
			if IsVar(k) {
				return 0 // outside the supported fragment
			}
			mv, have := mm[k]
			if !have {
				if IsOptional(v) {
					continue
				}
				return 0
			}
			w = conj(w, c.contained(v, mv))
			if w == 0 {
				return 0
			}
		}
		return w
	case []interface{}:
		ma, is := m.([]interface{})
		if !is {
			return 0
		}
		used := make([]bool, len(ma))
		return c.inject(pv, 0, ma, used)
	}
	return 0
}

// inject: pattern elements i.. matched by distinct, unused message elements;
// an optional variable element may stay unmatched.
func (c *checker) inject(pa []interface{}, i int, ma []interface{}, used []bool) wset {
	if i == len(pa) {
		return plainOK
	}
	var out wset
	for j := range ma {
		if used[j] {
			continue
		}
		w := c.contained(pa[i], ma[j])
		if w == 0 {
			continue
		}
		used[j] = true
		out |= conj(w, c.inject(pa, i+1, ma, used))
		used[j] = false
		if out&c.full != 0 || (len(c.q) == 0 && out != 0) {
			return out
		}
	}
	if IsOptional(pa[i]) {
		out |= c.inject(pa, i+1, ma, used)
	}
	return out
}

func (c *checker) propVar(k string, v interface{}, mm M) wset {
	if k == "?" {
		var out wset
		for _, mv := range mm {
			out |= c.contained(v, mv)
		}
		return out
	}
	rv, have := c.R[k]
	if !have {
		return 0
	}
	key, is := rv.(string)
	if !is {
		return 0
	}
	mv, have := mm[key]
	if !have {
		return 0
	}
	return conj(c.just(k, true), c.contained(v, mv))
}

func (c *checker) varAt(v string, m interface{}) wset {
	if v == "?" {
		return plainOK
	}
	if op, plain, isIneq := ParseIneq(v); isIneq {
		mf, mnum := num(m)
		if b, given := c.B[v]; given {
			if bf, bnum := num(b); bnum && mnum {
				if !rel(op, mf, bf) {
					return 0
				}
				if pb, pgiven := c.B[plain]; pgiven {
					if pf, pnum := num(pb); pnum {
						return ok(pf == mf)
					}
					return plainOK // non-numeric plain counterpart given: the statement only asks for the relation
				}
				rp, have := c.R[plain]
				rf, isnum := num(rp)
				if have && isnum && rf == mf {
					return c.just(plain, true)
				}
				return 0
			}
			return c.containedValue(b, m)
		}
		// not given: the first occurrence binds it plainly, a later one at a
		// number reads it as an inequality; accept either reading
		rv, have := c.R[v]
		if !have {
			return 0
		}
		var out wset
		if c.containedValue(rv, m) != 0 {
			out |= c.just(v, Equal(rv, m))
		}
		if bf, bnum := num(rv); bnum && mnum && rel(op, mf, bf) {
			rp, have := c.R[plain]
			rf, isnum := num(rp)
			if have && isnum && rf == mf {
				out |= c.just(plain, true)
			}
		}
		return out
	}
	rv, have := c.R[v]
	if !have {
		return 0
	}
	if c.containedValue(rv, m) == 0 {
		return 0
	}
	return c.just(v, Equal(rv, m))
}

// containedValue: a bound value used as a sub-pattern (values hold no variables).
func (c *checker) containedValue(val, m interface{}) wset {
	return c.contained(val, m)
}

// Canon renders a JSON value canonically (sorted keys).
func Canon(x interface{}) string {
	b, err := json.Marshal(x)
	if err != nil {
		return "<unmarshalable>"
	}
	return string(b)
}

// CanonSet renders a multiset of binding sets canonically.
func CanonSet(bss []M) string {
	ss := make([]string, len(bss))
	for i, b := range bss {
		ss[i] = Canon(b)
	}
	sort.Strings(ss)
	return "[" + strings.Join(ss, ",") + "]"
}

// ---- reference enumerator of embeddings (C02) --------------------------------

func copyM(m M) M {
	n := make(M, len(m)+1)
	for k, v := range m {
		n[k] = v
	}
	return n
}

func sortedKeys(m M) []string {
	ks := make([]string, 0, len(m))
	for k := range m {
		ks = append(ks, k)
	}
	sort.Strings(ks)
	return ks
}

// Embeddings returns every binding set under which the pattern, instantiated,
// is contained in the message, by plain backtracking (no optimisation):
// variables are bound on first meeting and re-used as sub-patterns after;
// map keys are threaded in sorted order; array elements are matched to
// distinct message elements; an optional variable stays unbound only where
// nothing is there for it.  Inequality variables are not handled (C02 does
// not generate them).
func Embeddings(p, m interface{}, bs M) []M {
	switch pv := p.(type) {
	case nil:
		if m == nil {
			return []M{bs}
		}
		return nil
	case bool:
		if y, ok := m.(bool); ok && y == pv {
			return []M{bs}
		}
		return nil
	case float64:
		if y, ok := m.(float64); ok && y == pv {
			return []M{bs}
		}
		return nil
	case string:
		if !IsVar(pv) {
			if y, ok := m.(string); ok && y == pv {
				return []M{bs}
			}
			return nil
		}
		if pv == "?" {
			return []M{bs}
		}
		if val, bound := bs[pv]; bound {
			return Embeddings(val, m, bs)
		}
		n := copyM(bs)
		n[pv] = m
		return []M{n}
	case map[string]interface{}:
		mm, ok := m.(map[string]interface{})
		if !ok {
			return nil
		}
		if len(pv) == 0 {
			return []M{bs}
		}
		if len(pv) == 1 {
			for k, v := range pv {
				if IsVar(k) {
					var out []M
					for _, fk := range sortedKeys(mm) {
						for _, b1 := range Embeddings(k, fk, bs) {
							out = append(out, Embeddings(v, mm[fk], b1)...)
						}
					}
					return out
				}
			}
		}
		cur := []M{bs}
		for _, k := range sortedKeys(pv) {
			v := pv[k]
			mv, have := mm[k]
			if !have {
				if IsOptional(v) {
					continue
				}
				return nil
			}
			var next []M
			for _, b := range cur {
				next = append(next, Embeddings(v, mv, b)...)
			}
			if len(next) == 0 {
				return nil
			}
			cur = next
		}
		return cur
	case []interface{}:
		ma, ok := m.([]interface{})
		if !ok {
			return nil
		}
		// constants and structured elements first (in order), the variable last
		var elems []interface{}
		var variable interface{}
		for _, e := range pv {
			if IsVar(e) {
				variable = e
			} else {
				elems = append(elems, e)
			}
		}
		type st struct {
			bs   M
			used []bool
		}
		cur := []st{{bs, make([]bool, len(ma))}}
		for _, e := range elems {
			var next []st
			for _, s := range cur {
				for j := range ma {
					if s.used[j] {
						continue
					}
					for _, b := range Embeddings(e, ma[j], s.bs) {
						u := append([]bool{}, s.used...)
						u[j] = true
						next = append(next, st{b, u})
					}
				}
			}
			if len(next) == 0 {
				return nil
			}
			cur = next
		}
		var out []M
		if variable == nil {
			for _, s := range cur {
				out = append(out, s.bs)
			}
			return out
		}
		for _, s := range cur {
			for j := range ma {
				if s.used[j] {
					continue
				}
				out = append(out, Embeddings(variable, ma[j], s.bs)...)
			}
		}
		if len(out) == 0 && IsOptional(variable) {
			for _, s := range cur {
				out = append(out, s.bs)
			}
		}
		return out
	}
	return nil
}

// CanonKeys returns the distinct canonical renderings of a list of binding sets.
func CanonKeys(bss []M) map[string]bool {
	out := map[string]bool{}
	for _, b := range bss {
		out[Canon(b)] = true
	}
	return out
}
