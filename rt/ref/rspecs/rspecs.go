// Package rspecs is a small family of abstract specifications and a behaviour-tree renderer, shared by the
// host-level parts of C13: the same specification loaded through a host's own loader (sio's
// ResolveSpecSource, mcrew's GetSpec) must behave like the Go-structure rendering.
package rspecs

import (
	"context"
	"fmt"

	"github.com/Comcast/sheens/core"
	"github.com/Comcast/sheens/match"
	"github.com/Comcast/sheens/verifrt/actlang"
	"github.com/Comcast/sheens/verifrt/ref/rstep"
)

type M = map[string]interface{}

// Patterns of every JSON shape, including the ones whose reading depends on the pattern syntax in force.
var Patterns = []interface{}{
	M{"a": "?x"},
	"bare",
	"?v",
	"true",
	"1",
	7.0,
	true,
	[]interface{}{"?e", 1.0},
	M{"k": "null"},
	M{"k": nil},
	"{\"a\":1}",
}

var Msgs = []interface{}{M{"a": 1.0}, "bare", "true", true, 1.0, "1", 7.0, []interface{}{1.0, 2.0}, M{"k": "null"}, M{"k": nil}, "{\"a\":1}"}

// Family: every ordered pair of patterns on the start node's two branches.
func Family() []*rstep.ASpec {
	var out []*rstep.ASpec
	for i, p1 := range Patterns {
		for j, p2 := range Patterns {
			if i == j {
				continue
			}
			out = append(out, &rstep.ASpec{Nodes: map[string]*rstep.ANode{
				"n0": {Type: "message", Branches: []rstep.ABranch{{Pattern: p1, Target: "n1"}, {Pattern: p2, Target: "n2"}}},
				"n1": {Action: actlang.P(false, actlang.Op{K: actlang.Emit, V: M{"first": float64(i)}}, actlang.Op{K: actlang.Set, A: "went", V: "first"}), Branches: []rstep.ABranch{{Target: "n0"}}},
				"n2": {Action: actlang.P(false, actlang.Op{K: actlang.Emit, V: M{"second": float64(j)}}, actlang.Op{K: actlang.Set, A: "went", V: "second"}), Branches: []rstep.ABranch{{Target: "n0"}}},
			}})
		}
	}
	return out
}

// Trace walks every message sequence up to maxLen from n0 and renders the behaviour.
func Trace(spec *core.Spec, maxLen int) string {
	var out string
	var rec func(st *core.State, depth int, prefix string)
	rec = func(st *core.State, depth int, prefix string) {
		if depth == maxLen {
			return
		}
		for i, m := range Msgs {
			w, err := spec.Walk(context.Background(), st.Copy(), []interface{}{m}, &core.Control{Limit: 20}, nil)
			key := fmt.Sprintf("%s%d", prefix, i)
			if err != nil {
				out += key + ":ERR;"
				continue
			}
			ns := st
			if to := w.To(); to != nil {
				ns = to
			}
			var em []interface{}
			w.DoEmitted(func(x interface{}) error { em = append(em, x); return nil })
			out += fmt.Sprintf("%s:%s/%s/%s;", key, ns.NodeName, rstep.Canon(rstep.MaskErrors(M(ns.Bs))), rstep.Canon(em))
			rec(ns, depth+1, key+".")
		}
	}
	rec(&core.State{NodeName: "n0", Bs: match.NewBindings()}, 0, "")
	return out
}
