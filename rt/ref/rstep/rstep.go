// Package rstep holds the abstract specification used by the core checks,
// its rendering as a real core.Spec, and the reference model of Step and
// Walk: the README "Processing" section plus the doc comments on error
// routing, written as plain functions.
package rstep

import (
	"context"
	"encoding/json"
	"fmt"
	"sort"
	"strconv"
	"strings"

	"github.com/Comcast/sheens/core"
	"github.com/Comcast/sheens/match"
	"github.com/Comcast/sheens/verifrt/actlang"
)

type M = map[string]interface{}

type ABranch struct {
	Pattern interface{}   `json:"pattern,omitempty"` // nil: no pattern (JSON null patterns are not generated)
	Guard   *actlang.Prog `json:"guard,omitempty"`
	Target  string        `json:"target"`
}

type ANode struct {
	Action     *actlang.Prog `json:"action,omitempty"`
	Type       string        `json:"type,omitempty"` // "message", "bindings", "" (default = bindings)
	Branches   []ABranch     `json:"branches,omitempty"`
	NoBranches bool          `json:"nobranching,omitempty"` // Branches == nil in the real spec
}

type ASpec struct {
	Nodes               map[string]*ANode `json:"nodes"`
	ActionErrorBranches bool              `json:"actionErrorBranches,omitempty"`
	ActionErrorNode     string            `json:"actionErrorNode,omitempty"`
}

func (s *ASpec) String() string {
	b, _ := json.Marshal(s)
	return string(b)
}

// Build renders the abstract spec as a compiled core.Spec (Go structures).
func (s *ASpec) Build() (*core.Spec, error) {
	spec := s.Raw()
	if err := spec.Compile(context.Background(), nil, true); err != nil {
		return nil, err
	}
	return spec, nil
}

// Raw renders without compiling.
func (s *ASpec) Raw() *core.Spec {
	spec := &core.Spec{Name: "gen", Nodes: map[string]*core.Node{},
		ActionErrorBranches: s.ActionErrorBranches, ActionErrorNode: s.ActionErrorNode}
	for name, an := range s.Nodes {
		n := &core.Node{}
		if an.Action != nil {
			if an.Action.Native && an.Action.ViaSource {
				n.ActionSource = an.Action.NativeSource()
			} else if an.Action.Native {
				n.Action = an.Action.NativeAction()
			} else {
				n.ActionSource = an.Action.Source()
			}
		}
		if !an.NoBranches {
			n.Branches = &core.Branches{Type: an.Type}
			for _, ab := range an.Branches {
				b := &core.Branch{Target: ab.Target}
				if ab.Pattern != nil {
					b.Pattern = clone(ab.Pattern)
				}
				if ab.Guard != nil {
					if ab.Guard.Native && ab.Guard.ViaSource {
						b.GuardSource = ab.Guard.NativeSource()
					} else if ab.Guard.Native {
						b.Guard = ab.Guard.NativeAction()
					} else {
						b.GuardSource = ab.Guard.Source()
					}
				}
				n.Branches.Branches = append(n.Branches.Branches, b)
			}
		}
		spec.Nodes[name] = n
	}
	return spec
}

func clone(x interface{}) interface{} {
	switch v := x.(type) {
	case map[string]interface{}:
		m := make(map[string]interface{}, len(v))
		for k, e := range v {
			m[k] = clone(e)
		}
		return m
	case match.Bindings:
		m := make(map[string]interface{}, len(v))
		for k, e := range v {
			m[k] = clone(e)
		}
		return m
	case []interface{}:
		a := make([]interface{}, len(v))
		for i, e := range v {
			a[i] = clone(e)
		}
		return a
	}
	return x
}

func cloneM(m M) M {
	if m == nil {
		return nil
	}
	return clone(m).(M)
}

// Canon renders a JSON-like value canonically (sorted keys; int64(1), int(1)
// and 1.0 all print as 1).  Unknown types fall back to encoding/json.
func Canon(x interface{}) string {
	var b strings.Builder
	canon(&b, x)
	return b.String()
}

func canon(b *strings.Builder, x interface{}) {
	if b.Len() > 1<<20 {
		return // cyclic or absurdly large value: the rendering is cut (and says so once)
	}
	switch v := x.(type) {
	case nil:
		b.WriteString("null")
	case bool:
		if v {
			b.WriteString("true")
		} else {
			b.WriteString("false")
		}
	case string:
		b.WriteString(strconv.Quote(v))
	case float64:
		b.WriteString(strconv.FormatFloat(v, 'g', -1, 64))
	case int64:
		b.WriteString(strconv.FormatFloat(float64(v), 'g', -1, 64))
	case int:
		b.WriteString(strconv.FormatFloat(float64(v), 'g', -1, 64))
	case map[string]interface{}:
		canonMap(b, v)
	case match.Bindings:
		canonMap(b, v)
	case []interface{}:
		b.WriteByte('[')
		for i, e := range v {
			if i > 0 {
				b.WriteByte(',')
			}
			canon(b, e)
		}
		b.WriteByte(']')
	default:
		js, err := json.Marshal(x)
		if err != nil {
			fmt.Fprintf(b, "<unmarshalable:%T>", x)
			return
		}
		var y interface{}
		if json.Unmarshal(js, &y) != nil {
			b.Write(js)
			return
		}
		switch y.(type) {
		case map[string]interface{}, []interface{}, nil, bool, string, float64:
			canon(b, y)
		default:
			b.Write(js)
		}
	}
}

func canonMap(b *strings.Builder, m map[string]interface{}) {
	if m == nil {
		b.WriteString("null")
		return
	}
	ks := make([]string, 0, len(m))
	for k := range m {
		ks = append(ks, k)
	}
	sort.Strings(ks)
	b.WriteByte('{')
	for i, k := range ks {
		if i > 0 {
			b.WriteByte(',')
		}
		b.WriteString(strconv.Quote(k))
		b.WriteByte(':')
		canon(b, m[k])
	}
	b.WriteByte('}')
}

// Outcome of a reference step.
type Outcome struct {
	Err      string        // "" or an error class
	HasTo    bool          // a next state exists
	Node     string        //
	Bs       M             //
	Consumed bool          //
	Emitted  []interface{} //
}

// Key renders an outcome for comparison.  The texts bound to "error" and
// "actionError" are masked: the reference does not predict error wording.
func (o Outcome) Key() string {
	if o.Err != "" {
		return "ERR:" + o.Err + fmt.Sprintf("|consumed=%v", o.Consumed)
	}
	if !o.HasTo {
		return fmt.Sprintf("STAY|consumed=%v|emitted=%s", o.Consumed, Canon(o.Emitted))
	}
	return fmt.Sprintf("TO:%s|%s|consumed=%v|emitted=%s", o.Node, Canon(MaskErrors(o.Bs)), o.Consumed, Canon(o.Emitted))
}

// MaskErrors replaces error texts by "<text>": the string values bound to
// error / actionError at any depth, and every other occurrence of those same
// strings (a pattern such as {"actionError":"?e"} copies the text into ?e).
func MaskErrors(bs M) M {
	if bs == nil {
		return nil
	}
	texts := map[string]bool{}
	collectTexts(bs, texts)
	return maskAny(bs, texts).(M)
}

func collectTexts(x interface{}, texts map[string]bool) {
	switch v := x.(type) {
	case match.Bindings:
		collectTexts(M(v), texts)
	case map[string]interface{}:
		for k, e := range v {
			if k == "error" || k == "actionError" {
				if s, ok := e.(string); ok {
					texts[s] = true
					continue
				}
			}
			collectTexts(e, texts)
		}
	case []interface{}:
		for _, e := range v {
			collectTexts(e, texts)
		}
	}
}

func maskAny(x interface{}, texts map[string]bool) interface{} {
	switch v := x.(type) {
	case string:
		if texts[v] {
			return "<text>"
		}
	case match.Bindings:
		return maskAny(M(v), texts)
	case map[string]interface{}:
		out := make(M, len(v))
		for k, e := range v {
			out[k] = maskAny(e, texts)
		}
		return out
	case []interface{}:
		out := make([]interface{}, len(v))
		for i, e := range v {
			out[i] = maskAny(e, texts)
		}
		return out
	}
	return x
}

func toM(v interface{}) (M, bool) {
	switch x := v.(type) {
	case map[string]interface{}:
		return x, true
	case match.Bindings:
		return M(x), true
	}
	return nil, false
}

func resolveTarget(t string, bs M) string {
	if len(bs) > 0 && strings.HasPrefix(t, "@") {
		if x, ok := bs[t[1:]]; ok {
			if s, ok := x.(string); ok {
				return s
			}
		}
	}
	return t
}

// Step is the reference step.  It returns the set of allowed outcomes (more
// than one only where the documentation leaves the choice among several
// candidate binding sets open).
func (s *ASpec) Step(node string, bs M, pending interface{}) []Outcome {
	n, ok := s.Nodes[node]
	if !ok {
		if node == "error" {
			// Compile adds an empty error node
			return []Outcome{{}}
		}
		return []Outcome{{Err: "unknown-node"}}
	}
	typ := n.Type
	if typ == "" {
		typ = "bindings"
	}
	if n.Action != nil && !n.NoBranches && typ == "message" {
		return []Outcome{{Err: "bad-branching"}}
	}
	cur := cloneM(bs)
	if cur == nil {
		cur = M{}
	}
	var emitted []interface{}
	if n.Action != nil {
		r := n.Action.Model(cur)
		if !r.Err {
			emitted = r.Emitted
			if r.Bs == nil {
				// a nil result from an action means empty bindings; permanent bindings stay (C18)
				keep := M{}
				for k, v := range cur {
					if strings.HasSuffix(k, "!") {
						keep[k] = v
					}
				}
				cur = keep
			} else {
				cur = r.Bs
			}
		} else {
			emitted = r.Emitted // only a native action's partial Execution carries any
			cur["actionError"] = "<text>"
			cur["error"] = "<text>"
			if !s.ActionErrorBranches {
				if s.ActionErrorNode == "" {
					return []Outcome{{Err: "action-error"}}
				}
				return []Outcome{{HasTo: true, Node: s.ActionErrorNode, Bs: cur, Emitted: emitted}}
			}
		}
	}
	outs := s.consider(n, typ, cur, pending, emitted)
	if n.Action != nil {
		for i := range outs {
			if outs[i].Err == "" && !outs[i].HasTo {
				eb := cloneM(cur)
				eb["error"] = "<text>"
				eb["lastNode"] = node
				lb := cloneM(bs)
				if lb == nil {
					lb = M{}
				}
				eb["lastBindings"] = lb
				outs[i].HasTo, outs[i].Node, outs[i].Bs = true, "error", eb
			}
		}
	}
	return outs
}

func (s *ASpec) consider(n *ANode, typ string, cur M, pending interface{}, emitted []interface{}) []Outcome {
	if n.NoBranches {
		return []Outcome{{Emitted: emitted}}
	}
	consumed := false
	var against interface{}
	if typ == "message" {
		if pending == nil {
			return []Outcome{{Emitted: emitted}}
		}
		consumed = true
		against = pending
	} else {
		against = map[string]interface{}(cur)
	}
	for _, br := range n.Branches {
		var cands []M
		if br.Pattern != nil {
			bss, err := match.Match(clone(br.Pattern), clone(against), match.Bindings(cloneM(cur)))
			if err != nil {
				return []Outcome{{Err: "match-error", Consumed: consumed, Emitted: emitted}}
			}
			for _, b := range bss {
				cands = append(cands, M(b))
			}
		} else {
			cands = []M{cloneM(cur)}
		}
		if br.Guard == nil {
			switch len(cands) {
			case 0:
				continue
			case 1:
				return []Outcome{{HasTo: true, Node: resolveTarget(br.Target, cands[0]), Bs: cands[0], Consumed: consumed, Emitted: emitted}}
			default:
				return []Outcome{{Err: "too-many-bindingss", Consumed: consumed, Emitted: emitted}}
			}
		}
		var outs []Outcome
		for _, c := range cands {
			r := br.Guard.Model(c)
			if r.Err {
				outs = append(outs, Outcome{Err: "guard-error", Consumed: consumed, Emitted: emitted})
				continue
			}
			if r.Bs != nil {
				outs = append(outs, Outcome{HasTo: true, Node: resolveTarget(br.Target, r.Bs), Bs: r.Bs, Consumed: consumed, Emitted: emitted})
			}
		}
		if len(outs) > 0 {
			return dedup(outs)
		}
	}
	return []Outcome{{Consumed: consumed, Emitted: emitted}}
}

// StepLogged sharpens Step where a guard was offered several candidates: log is the sequence of bindings
// (canonical JSON) the native action and guards of this step were actually called with, in order.  The
// documented rule - "if the guard returns non-nil bindings, the machine's current node name is set to the
// branch's target, and the machine's current bindings is set to those bindings" - makes the FIRST candidate
// on which the guard decides (returns bindings, or fails) the one that counts, whatever order the
// candidates were offered in.  ok=false: the log does not determine the outcome (use the set).
func (s *ASpec) StepLogged(node string, bs M, pending interface{}, log []string) (Outcome, bool) {
	n, have := s.Nodes[node]
	if !have || n.NoBranches {
		return Outcome{}, false
	}
	typ := n.Type
	if typ == "" {
		typ = "bindings"
	}
	if n.Action != nil {
		if !n.Action.Native || (typ == "message" && !n.NoBranches) {
			return Outcome{}, false
		}
		if len(log) == 0 {
			return Outcome{}, false
		}
		log = log[1:]
	}
	cur := cloneM(bs)
	if cur == nil {
		cur = M{}
	}
	var emitted []interface{}
	if n.Action != nil {
		r := n.Action.Model(cur)
		if r.Err || r.Bs == nil {
			return Outcome{}, false // error routing and nil results: the set semantics are exact there
		}
		emitted, cur = r.Emitted, r.Bs
	}
	consumed := false
	var against interface{}
	if typ == "message" {
		if pending == nil {
			return Outcome{}, false
		}
		consumed, against = true, pending
	} else {
		against = map[string]interface{}(cur)
	}
	for _, br := range n.Branches {
		var cands []M
		if br.Pattern != nil {
			bss, err := match.Match(clone(br.Pattern), clone(against), match.Bindings(cloneM(cur)))
			if err != nil {
				return Outcome{}, false
			}
			for _, b := range bss {
				cands = append(cands, M(b))
			}
		} else {
			cands = []M{cloneM(cur)}
		}
		if br.Guard == nil {
			if len(cands) == 0 {
				continue
			}
			return Outcome{}, false
		}
		if !br.Guard.Native {
			return Outcome{}, false
		}
		left := map[string][]M{}
		for _, c := range cands {
			k := Canon(map[string]interface{}(c))
			left[k] = append(left[k], c)
		}
		tried := 0
		for len(log) > 0 && len(left[log[0]]) > 0 {
			c := left[log[0]][0]
			left[log[0]] = left[log[0]][1:]
			log = log[1:]
			tried++
			r := br.Guard.Model(c)
			if r.Err {
				return Outcome{Err: "guard-error", Consumed: consumed, Emitted: emitted}, true
			}
			if r.Bs != nil {
				return Outcome{HasTo: true, Node: resolveTarget(br.Target, r.Bs), Bs: r.Bs, Consumed: consumed, Emitted: emitted}, true
			}
		}
		if tried != len(cands) {
			return Outcome{}, false // not every candidate was offered: the set semantics judge that
		}
	}
	return Outcome{}, false
}

func dedup(outs []Outcome) []Outcome {
	seen := map[string]bool{}
	var r []Outcome
	for _, o := range outs {
		k := o.Key()
		if !seen[k] {
			seen[k] = true
			r = append(r, o)
		}
	}
	sort.Slice(r, func(i, j int) bool { return r[i].Key() < r[j].Key() })
	return r
}

// ErrClass classifies an error returned by the real Step.
func ErrClass(err error) string {
	if err == nil {
		return ""
	}
	switch err.(type) {
	case *core.UnknownNode:
		return "unknown-node"
	case *core.BadBranching:
		return "bad-branching"
	case *core.SpecNotCompiled:
		return "not-compiled"
	case *core.UncompiledAction:
		return "uncompiled-action"
	case *match.UnknownPatternType:
		return "match-error"
	}
	if err == core.TooManyBindingss {
		return "too-many-bindingss"
	}
	return "other"
}

// Observe turns the real Step's result into an Outcome.  errClassHint lets
// the caller refine "other" (action vs guard error) using the reference.
func Observe(stride *core.Stride, err error) Outcome {
	o := Outcome{}
	if err != nil {
		o.Err = ErrClass(err)
		if stride != nil {
			o.Consumed = stride.Consumed != nil
		}
		return o
	}
	if stride == nil {
		o.Err = "nil-stride"
		return o
	}
	o.Consumed = stride.Consumed != nil
	if stride.Events != nil {
		o.Emitted = stride.Emitted
	}
	if len(o.Emitted) == 0 {
		o.Emitted = nil
	}
	if stride.To != nil {
		o.HasTo = true
		o.Node = stride.To.NodeName
		o.Bs = M(stride.To.Bs)
		if o.Bs == nil {
			o.Bs = M{}
		}
	}
	return o
}

// ---- reference Walk ---------------------------------------------------------

type RStride struct {
	FromNode string
	FromBs   M
	Out      Outcome
}

type RWalked struct {
	Strides   []RStride
	Remaining []interface{}
	Stopped   string // Done | Limited | BreakpointReached
	FinalNode string
	FinalBs   M
}

// Walk is the reference walk for deterministic specs (each step has exactly
// one allowed outcome; ok=false when a step leaves a choice).  bp is the
// name of a node at which a breakpoint predicate is true ("" for none).
func (s *ASpec) Walk(node string, bs M, pendings []interface{}, limit int, bp string) (w *RWalked, ok bool) {
	w = &RWalked{}
	cur := cloneM(bs)
	if cur == nil {
		cur = M{}
	}
	for i := 0; i < limit; i++ {
		if bp != "" && node == bp {
			w.Stopped, w.Remaining = "BreakpointReached", pendings
			w.FinalNode, w.FinalBs = node, cur
			return w, true
		}
		var pending interface{}
		if len(pendings) > 0 {
			pending = pendings[0]
		}
		outs := s.Step(node, cur, pending)
		if len(outs) != 1 {
			return nil, false
		}
		o := outs[0]
		if o.Err != "" {
			consumed := o.Consumed
			if node != "error" {
				eb := cloneM(cur)
				eb["error"] = "<text>"
				eb["lastNode"] = node
				eb["lastBindings"] = cloneM(cur)
				o = Outcome{HasTo: true, Node: "error", Bs: eb, Consumed: consumed, Emitted: o.Emitted}
			} else {
				o = Outcome{Consumed: consumed, Emitted: o.Emitted}
			}
		}
		w.Strides = append(w.Strides, RStride{FromNode: node, FromBs: cloneM(cur), Out: o})
		if o.Consumed {
			pendings = pendings[1:]
		}
		if !o.HasTo {
			if len(pendings) == 0 || !o.Consumed {
				w.Stopped, w.Remaining = "Done", nil
				w.FinalNode, w.FinalBs = node, cur
				return w, true
			}
		} else {
			node, cur = o.Node, cloneM(o.Bs)
		}
	}
	w.Stopped, w.Remaining = "Limited", pendings
	w.FinalNode, w.FinalBs = node, cur
	return w, true
}

// ---- document renderings (JSON / YAML) --------------------------------------

// keyName maps a field to its key in the given format ("json" or "yaml"):
// core.Spec's yaml tags leave most names to the YAML library, which
// lower-cases the Go field name.
func keyName(format, jsonName string) string {
	if format == "json" {
		return jsonName
	}
	switch jsonName {
	case "noErrorNode":
		return "noautoerrornode"
	}
	return strings.ToLower(jsonName)
}

func progDoc(p *actlang.Prog) interface{} {
	return map[string]interface{}{"interpreter": p.InterpreterName(), "source": p.JS()}
}

// Doc renders the spec as a generic document for the given format.  With
// jsonPatterns, patterns are written as JSON text under patternSyntax: json.
// Native actions cannot be written in a document; ok=false if there is one.
func (s *ASpec) Doc(format string, jsonPatterns bool) (doc map[string]interface{}, ok bool) {
	k := func(n string) string { return keyName(format, n) }
	doc = map[string]interface{}{"name": "gen"}
	if jsonPatterns {
		doc[k("patternSyntax")] = "json"
	}
	if s.ActionErrorBranches {
		doc[k("actionErrorBranches")] = true
	}
	if s.ActionErrorNode != "" {
		doc[k("actionErrorNode")] = s.ActionErrorNode
	}
	nodes := map[string]interface{}{}
	for name, an := range s.Nodes {
		n := map[string]interface{}{}
		if an.Action != nil {
			if an.Action.Native {
				return nil, false
			}
			n["action"] = progDoc(an.Action)
		}
		if !an.NoBranches {
			br := map[string]interface{}{}
			if an.Type != "" {
				br["type"] = an.Type
			}
			list := []interface{}{}
			for _, ab := range an.Branches {
				b := map[string]interface{}{"target": ab.Target}
				if ab.Pattern != nil {
					if jsonPatterns {
						js, _ := json.Marshal(ab.Pattern)
						b["pattern"] = string(js)
					} else {
						b["pattern"] = clone(ab.Pattern)
					}
				}
				if ab.Guard != nil {
					if ab.Guard.Native {
						return nil, false
					}
					b["guard"] = progDoc(ab.Guard)
				}
				list = append(list, b)
			}
			br["branches"] = list
			n["branching"] = br
		}
		nodes[name] = n
	}
	doc["nodes"] = nodes
	return doc, true
}

// YAML renders a generic document as block-style YAML (strings are written
// as double-quoted scalars, which YAML shares with JSON).
func YAML(doc interface{}) string {
	var b strings.Builder
	yamlVal(&b, doc, 0, false)
	return b.String()
}

func yamlScalar(x interface{}) string {
	js, _ := json.Marshal(x)
	return string(js)
}

func yamlVal(b *strings.Builder, x interface{}, ind int, inList bool) {
	pad := strings.Repeat("  ", ind)
	switch v := x.(type) {
	case map[string]interface{}:
		if len(v) == 0 {
			b.WriteString(" {}\n")
			return
		}
		ks := make([]string, 0, len(v))
		for k := range v {
			ks = append(ks, k)
		}
		sort.Strings(ks)
		first := true
		for _, k := range ks {
			if inList && first {
				// first key continues the "- " line
			} else {
				b.WriteString(pad)
			}
			first = false
			b.WriteString(yamlScalar(k))
			b.WriteString(":")
			switch e := v[k].(type) {
			case map[string]interface{}:
				if len(e) == 0 {
					b.WriteString(" {}\n")
				} else {
					b.WriteString("\n")
					yamlVal(b, e, ind+1, false)
				}
			case []interface{}:
				if len(e) == 0 {
					b.WriteString(" []\n")
				} else {
					b.WriteString("\n")
					yamlVal(b, e, ind, false)
				}
			default:
				b.WriteString(" " + yamlScalar(e) + "\n")
			}
		}
	case []interface{}:
		for _, e := range v {
			b.WriteString(pad + "- ")
			switch ee := e.(type) {
			case map[string]interface{}:
				if len(ee) == 0 {
					b.WriteString("{}\n")
				} else {
					yamlVal(b, ee, ind+1, true)
				}
			case []interface{}:
				if len(ee) == 0 {
					b.WriteString("[]\n")
				} else {
					// nested list: flow style keeps the emitter simple
					b.WriteString(yamlScalar(ee) + "\n")
				}
			default:
				b.WriteString(yamlScalar(e) + "\n")
			}
		}
	default:
		b.WriteString(pad + yamlScalar(x) + "\n")
	}
}
