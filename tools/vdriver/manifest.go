package main

import (
	"os"
	"path/filepath"
	"sort"
)

// writeManifest regenerates MANIFEST.json from the check table, so the
// manifest can never drift from what the driver runs.
func writeManifest() {
	var ids []string
	for id := range checks {
		ids = append(ids, id)
	}
	sort.Strings(ids)
	var cs []map[string]interface{}
	for _, id := range ids {
		ck := checks[id]
		cs = append(cs, map[string]interface{}{
			"property_id":         id,
			"quick_cmd":           "./vcheck " + id + " quick",
			"thorough_cmd":        "./vcheck " + id + " thorough",
			"evidence_file":       "/verif/evidence/" + id + ".json",
			"replay_cmd_template": "./vcheck " + id + " replay {path}",
			"engine":              ck.Engine,
			"level_claimed": map[string]interface{}{
				"category":   ck.Category,
				"text":       ck.LevelText,
				"design_ref": ck.DesignRef,
			},
			"level_note": ck.LevelNote,
			"technique":  ck.Technique,
		})
	}
	var na []map[string]interface{}
	var nids []string
	for id := range notApplicable {
		nids = append(nids, id)
	}
	sort.Strings(nids)
	for _, id := range nids {
		na = append(na, map[string]interface{}{"property_id": id, "reason": notApplicable[id]})
	}
	m := map[string]interface{}{
		"version":   1,
		"setup_cmd": "./setup.sh",
		"hooks": map[string]interface{}{
			"guard":            "verif",
			"enable":           "no source hooks are committed: each check instruments a copy of the current working tree at build time (import shims, map-range rewrite) and applies it with `go test -c -overlay -modfile`; see DESIGN.md section 2",
			"baseline_off_cmd": "cd /repo && GOFLAGS=-mod=mod GOPROXY=off GOSUMDB=off GOTOOLCHAIN=local go test -vet=off -count=1 -timeout 25m ./...",
			"source_commits":   []string{},
			"add_only":         true,
		},
		"engines": []map[string]interface{}{
			{"name": "E1", "path": "/verif/rt", "kind_free_text": "bounded-exhaustive enumerator (inputs x programs x histories x map-iteration orders) driving the real functions in lock-step with Go reference models", "serves_properties": enginesServe("E1")},
			{"name": "E2", "path": "/verif/rt/sched", "kind_free_text": "stateless schedule explorer: cooperative scheduler over shimmed sync/atomic/time, virtual time, DFS with preemption bounding, race-detector pass", "serves_properties": enginesServe("E2")},
		},
		"checks":         cs,
		"not_applicable": na,
		"notes":          "All checks: ./vcheck <ID> quick|thorough|replay <file>. Known findings: /verif/known_findings.json. Seeded breaking changes: /verif/seeded/.",
	}
	if na == nil {
		m["not_applicable"] = []interface{}{}
	}
	b, _ := jsonMarshal(m)
	os.WriteFile(filepath.Join(verifRoot, "MANIFEST.json"), append(b, '\n'), 0o644)
}

func enginesServe(e string) []string {
	out := []string{}
	for id, ck := range checks {
		if ck.Engine == e || ck.Engine == "E1+E2" {
			out = append(out, id)
		}
	}
	sort.Strings(out)
	return out
}
