package main

import (
	"encoding/json"
	"fmt"
	"os"
	"path/filepath"
	"sort"
	"strings"
)

// Violation / Report mirror rt/vh.
type Violation struct {
	Key    string      `json:"key"`
	Detail string      `json:"detail"`
	Case   interface{} `json:"case"`
	Part   string      `json:"part,omitempty"` // harness function that produced it
}

type Report struct {
	Check         string                 `json:"check"`
	Tier          string                 `json:"tier"`
	Shard         int                    `json:"shard"`
	Shards        int                    `json:"shards"`
	Evaluations   int64                  `json:"evaluations"`
	Nontrivial    int64                  `json:"nontrivial"`
	States        int64                  `json:"states"`
	Transitions   int64                  `json:"transitions"`
	Traces        int64                  `json:"traces"`
	Counters      map[string]int64       `json:"counters"`
	Violations    []Violation            `json:"violations"`
	ViolationKeys map[string]int64       `json:"violation_keys"`
	Samples       []interface{}          `json:"samples"`
	Exhaustive    bool                   `json:"exhaustive"`
	Notes         []string               `json:"notes"`
	Bounds        map[string]interface{} `json:"bounds"`
	Rule          string                 `json:"rule"`
	Outcomes      map[string]int64       `json:"outcomes"`
	WallS         float64                `json:"wall_s"`
	Completed     bool                   `json:"completed"`
}

type Merged struct {
	Report
	WorkerCrashes int
	RaceReports   int
	passes        []string
}

func newMerged(id, tier string) *Merged {
	m := &Merged{}
	m.Check, m.Tier = id, tier
	m.Counters = map[string]int64{}
	m.ViolationKeys = map[string]int64{}
	m.Bounds = map[string]interface{}{}
	m.Outcomes = map[string]int64{}
	m.Exhaustive = true
	return m
}

func (m *Merged) addViolation(v Violation) {
	m.ViolationKeys[v.Key]++
	m.Violations = append(m.Violations, v)
}

func (m *Merged) add(r *Report, tag string) {
	m.Evaluations += r.Evaluations
	m.Nontrivial += r.Nontrivial
	m.States += r.States
	m.Transitions += r.Transitions
	m.Traces += r.Traces
	for k, v := range r.Counters {
		m.Counters[k] += v
	}
	for k, v := range r.ViolationKeys {
		m.ViolationKeys[k] += v
	}
	for _, v := range r.Violations {
		v.Part = r.Check
		m.Violations = append(m.Violations, v)
	}
	if len(m.Samples) < 6 {
		for _, s := range r.Samples {
			if len(m.Samples) < 6 {
				m.Samples = append(m.Samples, s)
			}
		}
	}
	if !r.Exhaustive {
		m.Exhaustive = false
	}
	for _, n := range r.Notes {
		dup := false
		for _, o := range m.Notes {
			if o == n {
				dup = true
			}
		}
		if !dup {
			m.Notes = append(m.Notes, n)
		}
	}
	for k, v := range r.Bounds {
		m.Bounds[k] = v
	}
	for k, v := range r.Outcomes {
		// per-worker distinct counts: the merged figure is a lower bound (max), not a sum
		if v > m.Outcomes[k] {
			m.Outcomes[k] = v
		}
	}
	if r.Rule != "" && !strings.Contains(m.Rule, r.Rule) {
		// a check with several parts: what each part enumerated
		if m.Rule != "" {
			m.Rule += " || "
		}
		m.Rule += r.Rule
	}
}

// addRaceLogs turns ThreadSanitizer reports of worker i into violations.
func (m *Merged) addRaceLogs(dir string, i int, id string) {
	matches, _ := filepath.Glob(filepath.Join(dir, fmt.Sprintf("racelog-%d.*", i)))
	for _, p := range matches {
		b, err := os.ReadFile(p)
		if err != nil {
			continue
		}
		for _, blk := range strings.Split(string(b), "==================") {
			if !strings.Contains(blk, "WARNING: DATA RACE") {
				continue
			}
			m.RaceReports++
			sig := raceSig(blk)
			v := Violation{Key: id + "/data-race/" + sig, Detail: "ThreadSanitizer: " + head(blk, 2200), Case: map[string]interface{}{"race_report": head(blk, 6000)}}
			if m.ViolationKeys[v.Key] == 0 {
				m.Violations = append(m.Violations, v)
			}
			m.ViolationKeys[v.Key]++
		}
	}
}

// raceSig: the two innermost sheens functions of the conflicting accesses.
func raceSig(blk string) string {
	var fs []string
	lines := strings.Split(blk, "\n")
	for i, l := range lines {
		t := strings.TrimSpace(l)
		if strings.HasPrefix(t, "Write at") || strings.HasPrefix(t, "Read at") || strings.HasPrefix(t, "Previous write at") || strings.HasPrefix(t, "Previous read at") {
			for j := i + 1; j < len(lines) && strings.TrimSpace(lines[j]) != ""; j++ {
				f := strings.TrimSpace(lines[j])
				if strings.HasPrefix(f, "github.com/Comcast/sheens/") && !strings.Contains(f, "/verifrt/") {
					f = strings.TrimPrefix(f, "github.com/Comcast/sheens/")
					if k := strings.LastIndex(f, "("); k > 0 {
						f = f[:k]
					}
					fs = append(fs, f)
					break
				}
			}
		}
	}
	sort.Strings(fs)
	if len(fs) == 0 {
		return "unattributed"
	}
	return sanitize(strings.Join(fs, "+"))
}

func (m *Merged) evidence(ck *Check, seed int, wall float64, nViol int, known []string, instr *InstrReport, workers, deadline int) map[string]interface{} {
	cov := map[string]interface{}{
		"evaluations":         m.Evaluations,
		"distinct_nontrivial": m.Nontrivial,
		"rule":                m.Rule,
		"samples":             m.Samples,
		"exhaustive":          m.Exhaustive,
		"bounds":              m.Bounds,
		"counters":            m.Counters,
		"distinct_outcomes":   m.Outcomes,
		"workers":             workers,
		"internal_deadline_s": deadline,
		"known_findings_seen": known,
		"violation_keys":      m.ViolationKeys,
		"notes":               m.Notes,
		"worker_crashes":      m.WorkerCrashes,
	}
	if ck.Category == "model_checking" {
		cov["states"] = m.States
		cov["transitions"] = m.Transitions
		cov["traces_validated_against_impl"] = m.Traces
	}
	if ck.Race {
		cov["race_reports"] = m.RaceReports
	}
	if instr != nil {
		cov["instrumentation"] = instr
	}
	if len(m.Samples) == 0 {
		cov["samples"] = []interface{}{"(no sample recorded)"}
	}
	return map[string]interface{}{
		"property_id": ck.ID,
		"tier":        m.Tier,
		"seed":        seed,
		"level":       ck.Category,
		"coverage":    cov,
		"assumptions": ck.Assumptions,
		"wall_s":      wall,
		"violations":  nViol,
	}
}

// ---- known findings -------------------------------------------------------

type KnownFinding struct {
	Property string `json:"property"`
	Key      string `json:"key"`
	Status   string `json:"status"` // open | fixed
	What     string `json:"what"`
	Commit   string `json:"commit,omitempty"`
	Line     string `json:"line,omitempty"`
}

type Known struct {
	Findings []KnownFinding `json:"findings"`
}

func loadKnown() *Known {
	k := &Known{}
	b, err := os.ReadFile(filepath.Join(verifRoot, "known_findings.json"))
	if err != nil {
		return k
	}
	if err := json.Unmarshal(b, k); err != nil {
		fatal("known_findings.json: %v", err)
	}
	return k
}

// open: only entries with status "open" suppress; fixed entries suppress nothing.
func (k *Known) open(id, key string) (KnownFinding, bool) {
	for _, f := range k.Findings {
		if f.Status == "open" && f.Property == id && f.Key == key {
			return f, true
		}
	}
	return KnownFinding{}, false
}

func head(s string, n int) string {
	s = strings.TrimSpace(s)
	if len(s) <= n {
		return s
	}
	return s[:n] + "…"
}
