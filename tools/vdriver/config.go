package main

// Harness: one test binary built from the tree under test plus overlay.
type Harness struct {
	Name     string
	Pkg      string    // package (relative to repo root) whose test binary is built
	InPkgSrc string    // dir under /verif with in-package harness files (overlaid into Pkg as zz_verif_*.go); "" for external harness packages
	Rewrites []Rewrite // instrumented packages
	Race     bool      // a -race variant is needed by some check
}

// Part: one harness function contributing to a check (a property may span several packages).
type Part struct {
	Harness string
	Func    string
	Race    bool // also run this part in the -race binary
	OneProc bool // this part runs under the scheduler: its workers get GOMAXPROCS=1 (when the check as a whole does not ask for it)
}

type Check struct {
	ID               string
	Harness          string
	Func             string // name registered in the harness
	Parts            []Part // when set, used instead of Harness/Func
	Category         string // evidence level
	Workers          int
	GoMaxProcs       int
	Race             bool // also run a -race pass
	RaceOnly         bool
	CrashIsViolation bool
	QuickDeadline    int // seconds (internal; reaching it => exhaustive:false, exit 0)
	ThoroughDeadline int
	Assumptions      []string
	Engine           string
	LevelText        string
	LevelNote        string
	Technique        string
	DesignRef        string
}

var harnesses = map[string]*Harness{
	"match": {
		Name: "match", Pkg: "verifrt/h/hmatch",
		Rewrites: []Rewrite{{Dir: "match", VRange: true}},
		Race:     true,
	},
}

func init() {
	harnesses["core"] = &Harness{Name: "core", Pkg: "verifrt/h/hcore",
		Rewrites: []Rewrite{{Dir: "match", VRange: true}, {Dir: "core", VRange: true}}}
}

func init() {
	harnesses["tools"] = &Harness{Name: "tools", Pkg: "verifrt/h/htools", Rewrites: []Rewrite{{Dir: "tools", VRange: true}}}
	harnesses["mexpect"] = &Harness{Name: "mexpect", Pkg: "cmd/mexpect", InPkgSrc: "harness/inpkg/mexpect"}
	harnesses["spectool"] = &Harness{Name: "spectool", Pkg: "cmd/spectool", InPkgSrc: "harness/inpkg/spectool"}
	harnesses["msimple"] = &Harness{Name: "msimple", Pkg: "cmd/msimple", InPkgSrc: "harness/inpkg/msimple"}
	harnesses["mdb"] = &Harness{Name: "mdb", Pkg: "cmd/mdb", InPkgSrc: "harness/inpkg/mdb",
		Rewrites: []Rewrite{{Dir: "cmd/mdb", VRange: true}}}
	harnesses["corec"] = &Harness{Name: "corec", Pkg: "verifrt/h/hcorec", Race: true,
		Rewrites: []Rewrite{{Dir: "core", Shim: true}}}
	harnesses["sio"] = &Harness{Name: "sio", Pkg: "sio", InPkgSrc: "harness/inpkg/sio", Race: true,
		Rewrites: []Rewrite{{Dir: "sio", Shim: true, VRange: true}, {Dir: "crew", Shim: true}}}
	harnesses["mcrew"] = &Harness{Name: "mcrew", Pkg: "cmd/mcrew", InPkgSrc: "harness/inpkg/mcrew", Race: true,
		Rewrites: []Rewrite{{Dir: "cmd/mcrew", Shim: true, VRange: true}, {Dir: "crew", Shim: true}}}
}

var commonAssumptions = []string{
	"bounds are bounds: nothing is claimed beyond the stated alphabet/size/deviation bounds",
	"instrumentation is a text-spliced copy of the current working tree applied with go -overlay; the Go toolchain, goja and bbolt are trusted",
}

// notApplicable: properties not (yet) claimed, with the reason.
var notApplicable = map[string]string{}

func init() {
	for _, id := range []string{"C02", "C03", "C04", "C05", "C06", "C07", "C08", "C09", "C10", "C11", "C12", "C13", "C14", "C15", "C16", "C17", "C18", "C19", "C20"} {
		if _, ok := checks[id]; !ok {
			notApplicable[id] = "check not built yet in this round (planned in DESIGN.md section 6); no claim is made"
		}
	}
}

var checks = map[string]*Check{
	"C20": {ID: "C20", Parts: []Part{{Harness: "tools", Func: "C20"}, {Harness: "spectool", Func: "C20spectool"}}, Category: "exploration", QuickDeadline: 240, ThoroughDeadline: 1500,
		Engine: "E1", DesignRef: "6/C20",
		Technique:   "bounded-exhaustive enumeration of spec graphs with a reference analysis recomputed from the graph and a parse-back of the Dot and Mermaid renderings",
		LevelText:   "Every spec graph of the family (missing / variable / empty targets, terminal and unreachable nodes, native and source actions and guards) is compiled, analysed and rendered by the real tools; the analysis must equal a recomputation from the graph and the renderings, parsed back, must contain exactly one node per spec node and one edge per branch; no panic.",
		LevelNote:   "Trusted: the line grammar used to parse the renderings back (node names are restricted to ones it recovers unambiguously).",
		Assumptions: commonAssumptions},
	"C19": {ID: "C19", Parts: []Part{{Harness: "tools", Func: "C19"}, {Harness: "mexpect", Func: "C19mexpect"}}, Category: "exploration", QuickDeadline: 240, ThoroughDeadline: 1500,
		Engine: "E1", DesignRef: "6/C19",
		Technique:   "bounded-exhaustive enumeration of (session, output stream) pairs on the real Session.Run driving a scripted subprocess, against a reference of the pass conditions (soundness direction)",
		LevelText:   "Every session over a small vocabulary of expected / inverted / guarded outputs and every short stream of emitted lines (with repetitions and noise) is run through the real tool against a subprocess that prints the stream; whenever the tool passes, the reference pass conditions must hold. cmd/mexpect's own main() is driven the same way on generated session files with several value-dependent guards, against a stand-in mcrew on PATH.",
		LevelNote:   "Trusted: the reference pass conditions; cases expected to fail use a short timeout, which can only turn a pass into a fail. Only the false-pass direction is claimed.",
		Assumptions: commonAssumptions},
	"C15": {ID: "C15", Parts: []Part{{Harness: "sio", Func: "C15"}}, Category: "model_checking", QuickDeadline: 240, ThoroughDeadline: 1500,
		Engine: "E1", DesignRef: "6/C15",
		Technique:   "explicit-state breadth-first search over crew-operation histories on the real sio.Crew (successor = replay on a fresh crew; states deduplicated by a canonical key) with a shadow-store invariant in every state and a reboot differential on continuations",
		LevelText:   "Every reachable state (up to the history bound) of a real crew driven by create / replace-state / replace-spec / delete / re-create operations and ordinary messages is visited; in each, a store that applied every reported change must equal the live crew, and a crew rebuilt from that store must behave like the original on all short continuations.",
		LevelNote:   "Trusted: the shadow fold (copied from sio.Stdio's consumer loop) and the canonical state key; machines whose reactions commute (as the property requires).",
		Assumptions: commonAssumptions},
	"C14": {ID: "C14", Parts: []Part{{Harness: "sio", Func: "C14sio"}, {Harness: "sio", Func: "C14stdio"}, {Harness: "mdb", Func: "C14mdb"}, {Harness: "mdb", Func: "C14mdbRepl"}, {Harness: "mcrew", Func: "C14mcrew"}, {Harness: "mcrew", Func: "C14http"}}, GoMaxProcs: 1, Category: "model_checking", QuickDeadline: 240, ThoroughDeadline: 1500,
		Engine: "E1+E2", DesignRef: "6/C14",
		Technique:   "exhaustive enumeration of crews x routing targets x emission scripts x message-history depth on the real crew hosts, under every machine-iteration order within a deviation bound (vrange), against a breadth-first reference router",
		LevelText:   "Every crew of 1-3 recorder machines, every routing target shape and every emission script up to the counter depth is processed by the real crew; per-machine receive logs, Result.Emitted and emission order are compared with a reference router, under every explored map-iteration order. The hosts are also driven the way they are run: text lines on the input of the real sio.Stdio processed by the real Crew.Loop (every short sequence of lines over lengths at and around the reader's buffer sizes, line ends, comments, junk, quit), and the mcrew scenarios through Service.Listener's text protocol (machines added and messages submitted as lines, dressed with comments, CRLF, junk, 70 kB payloads): every message on a line is presented exactly once to the machines it addresses. mcrew's http service: every combination of server behaviour (answers at once / late / with an error status / drops the connection / unreachable), reply target, timeout member and method - the answer is presented exactly once per request to the machine named, or to all.",
		LevelNote:   "Trusted: the reference router (documented recipient rule per host) and the recorder script.",
		Assumptions: commonAssumptions},
	"C16": {ID: "C16", Parts: []Part{{Harness: "mcrew", Func: "C16", Race: true}}, Category: "model_checking", QuickDeadline: 240, ThoroughDeadline: 1500, GoMaxProcs: 1,
		Engine: "E1+E2", DesignRef: "6/C16",
		Technique:   "exhaustive enumeration of operation/fault sequences on the real Service over a real bolt store with a memory==store oracle after every operation, plus stateless schedule exploration of concurrent clients with a brute-force linearizability oracle (all sequential orders, the service itself as reference)",
		LevelText:   "Every sequence of service operations and store up/down events up to the bound is run on the real mcrew Service and bolt file, comparing the in-memory crew with the stored crew after every operation; every schedule (within the deviation bound) of 2-3 concurrent clients is run under the controlled scheduler and its results and final state must equal those of some sequential order.",
		LevelNote:   "Trusted: bbolt (its internal locks are not scheduling points; a thread blocked there is seen as blocked). Storage failure is modelled as the store being closed / keys bolt rejects / unserialisable bindings, not as torn writes inside bolt.",
		Assumptions: commonAssumptions},
	"C11": {ID: "C11", Parts: []Part{{Harness: "core", Func: "C11"}, {Harness: "mcrew", Func: "C11mcrew", OneProc: true}}, Category: "exploration", QuickDeadline: 240, ThoroughDeadline: 1500, CrashIsViolation: true, Workers: 8,
		Engine: "E1", DesignRef: "6/C11",
		Technique:   "bounded-exhaustive enumeration of looping script shapes x cancellation points (context cancelled at the k-th harness tick, pre-cancelled, pre-expired, real deadlines) x routing x concurrency, with a logical (tick-count) bound on progress after cancellation and a goroutine-leak check by runtime.Stack",
		LevelText:   "Every combination of looping script shape, position (action/guard), cancellation point, error routing and number of concurrent executions is run on the real interpreter and engine; the call must return, the script must not keep running after its context is done (bounded in ticks, not in milliseconds), the failure must be the timeout error routed like any action error, and no goroutine started for the call may survive it. On the mcrew host: a looping machine reached directly and through a relay (emitted messages are processed on the service's own goroutines) while the request's context ends at tick 0..6.",
		LevelNote:   "Only partly within the family: the cancellation point is an enumerated choice, but what happens inside goja between the cancel and the interruption is not under the scheduler's control; 'promptly' is weakened to a tick-count bound and a 90 s horizon. Real deadlines use the real clock.",
		Assumptions: commonAssumptions},
	"C10": {ID: "C10", Parts: []Part{{Harness: "core", Func: "C10"}, {Harness: "corec", Func: "C10c", Race: true}, {Harness: "sio", Func: "C10sio"}}, GoMaxProcs: 1, Category: "exploration", QuickDeadline: 240, ThoroughDeadline: 1500,
		Engine: "E1+E2", DesignRef: "6/C10",
		Technique:   "bounded-exhaustive enumeration of (polluter, [polluter,] probe) script sequences with solo-equivalence and caller-snapshot oracles; stateless schedule exploration of concurrent executions of one compiled source (with a race-detector pass)",
		LevelText:   "Every ordered pair and triple of polluting scripts and probe scripts is executed on the real interpreter (directly and through Spec.Walk, with shared compiled programs and shared caller objects): the probe must observe nothing, the caller's bindings and props must be unchanged. On the sio host: a script that writes into everything reachable through the step properties the crew hands it changes nothing for the next machine or for the routing.",
		LevelNote:   "Trusted: the script vocabulary as a stand-in for 'whatever a script does'; goja itself.",
		Assumptions: commonAssumptions},
	"C12": {ID: "C12", Parts: []Part{{Harness: "corec", Func: "C12", Race: true}, {Harness: "mcrew", Func: "C12mcrew", Race: true}, {Harness: "sio", Func: "C12sio", Race: true}}, Category: "model_checking", QuickDeadline: 240, ThoroughDeadline: 1500, GoMaxProcs: 1,
		Engine: "E2", DesignRef: "6/C12",
		Technique:   "stateless schedule exploration of concurrent walks over one compiled spec (yield points inside native and ECMAScript actions/guards, shimmed atomics of UpdatableSpec) with per-walk solo-equivalence oracle, plus a ThreadSanitizer pass on the explored schedules",
		LevelText:   "Every interleaving (within the deviation bound) of 2-3 concurrent walks of distinct machines over one compiled specification, and of walks with concurrent SetSpec calls on an UpdatableSpec, is executed on the real code; each walk must equal its solo result under exactly one version (never a version older than a completed SetSpec), the spec's deep snapshot must not change, and ThreadSanitizer must stay silent. On the mcrew host, client threads issuing process, add and get-spec requests against a Service that has not handed the specification out yet are explored the same way: every caller gets a compiled specification and the result of some sequential order. On the sio host, a Go host that hands one SpecSource object to SetMachine for several machines and crews and edits it between calls: every operation sequence up to the bound and every schedule of a walk against concurrent SetMachine calls - each machine runs exactly the version it was last given, never a mix.",
		LevelNote:   "Trusted: rt/sched; yield points are placed in actions and guards (the engine code between them runs atomically in a schedule); ThreadSanitizer covers the accesses in between. goja internals are not scheduling points.",
		Assumptions: commonAssumptions},
	"C17": {ID: "C17", Parts: []Part{{Harness: "mcrew", Func: "C17mcrew", Race: true}, {Harness: "mcrew", Func: "C17glue", Race: true}, {Harness: "mcrew", Func: "C17http"}, {Harness: "sio", Func: "C17sio", Race: true}}, Category: "model_checking", QuickDeadline: 240, ThoroughDeadline: 1500, GoMaxProcs: 1,
		Engine: "E2", DesignRef: "6/C17",
		Technique:   "stateless schedule exploration (controlled cooperative scheduler over shimmed sync/time, virtual clock, DFS with deviation bounding) of the real timer implementations, with a per-id monitor automaton on every execution",
		LevelText:   "For every short request scenario (requests before, during - from the firing handler - and after a firing) every schedule of requester, timer goroutines and timer-fire events within the deviation bound is executed on the real Timers code under a controlled scheduler with virtual time; a monitor checks at-most-once, never-early, never-after-successful-cancel, exactly-once at the end of time, pending-set equality and id reuse.",
		LevelNote:   "Trusted: the scheduler (rt/sched): quiescence by runtime.Stack inspection, channel operations are not choice points (each step issues at most one waking event; counted otherwise). Go's select fairness and real-time effects are outside the model.",
		Assumptions: commonAssumptions},
	"C03": {ID: "C03", Parts: []Part{{Harness: "match", Func: "C03", Race: true}, {Harness: "core", Func: "C03js"}}, Category: "model_checking", QuickDeadline: 240, ThoroughDeadline: 1500, Race: true,
		Engine: "E1", DesignRef: "6/C03",
		Technique:   "bounded-exhaustive input enumeration x deviation-bounded exhaustive exploration of map-iteration orders (every range over a map is an explicit choice point owned by the explorer) with deep argument snapshots; plus a free-running race-detector pass with shared arguments",
		LevelText:   "For every triple of the space the real matcher is executed under every combination of map-iteration orders with up to k deviating range executions; the result multiset and error outcome must not depend on the order, the arguments must be untouched (deep snapshots), results must be independent maps. A separate -race build matches the same argument objects from three goroutines. As scripts do it: _.match evaluated three times with equal arguments, the script editing the sets it got in between.",
		LevelNote:   "Trusted: the range rewrite (vinstr) and vrange.Keys; ThreadSanitizer for the concurrent clause (goroutines share no synchronisation, so the happens-before verdict is schedule independent). Orders of maps with more than 4 keys are not fully enumerated (rotations + reversal).",
		Assumptions: commonAssumptions},
	"C02": {ID: "C02", Parts: []Part{{Harness: "match", Func: "C02"}, {Harness: "core", Func: "C02step"}}, Category: "exploration", QuickDeadline: 240, ThoroughDeadline: 1500,
		Engine: "E1", DesignRef: "6/C02",
		Technique:   "bounded-exhaustive enumeration of (pattern, message) pairs against a reference backtracking enumerator of embeddings, plus exhaustive planting (instantiated pattern + every insertion of distractors up to k)",
		LevelText:   "Every small pattern/message pair over a two-letter alphabet is matched by the real matcher and by a plain backtracking reference: every embedding must be returned (and nothing else for plain patterns). Deeper: every assignment is planted into the instantiated pattern and buried under every combination of up to k partially-matching distractors; the planted assignment must be found. As the engine does it: a guard on a branch is offered exactly the binding sets Match yields for (pattern, message, the machine's bindings), each once.",
		LevelNote:   "Trusted: reference enumerator rt/ref/rmatch.Embeddings. Side conditions of the property (arrays as sets, repeated variables scalar, planted array value distinct from constant members) are enforced by the generator; inequality variables are not part of this check.",
		Assumptions: commonAssumptions},
	"C13": {ID: "C13", Parts: []Part{{Harness: "core", Func: "C13"}, {Harness: "sio", Func: "C13sio"}, {Harness: "mcrew", Func: "C13mcrew"}, {Harness: "tools", Func: "C13inline"}, {Harness: "msimple", Func: "C13msimple"}, {Harness: "spectool", Func: "C13spectool"}, {Harness: "mdb", Func: "C13mdb"}}, Category: "exploration", QuickDeadline: 240, ThoroughDeadline: 1500,
		Engine: "E1", DesignRef: "6/C13",
		Technique:   "bounded-exhaustive enumeration of abstract specs x representations x pattern syntaxes x compile variants; differential of complete behaviour trees (all message sequences up to a bound) against the Go-structure rendering",
		LevelText:   "Every abstract spec of the family is rendered in every supported representation and pattern syntax, compiled once / twice / through a serialise-reload cycle, and its complete behaviour tree over all short message sequences must equal that of the Go-structure rendering; recompilation must not change the spec; unknown interpreters, branching types and pattern syntaxes must be rejected by Compile. The hosts' own loaders (sio.ResolveSpecSource for inline / JSON-file / YAML-file sources, mcrew's Service.GetSpec for YAML files, cmd/msimple's main() for YAML files with and without %inline'd action sources) are driven, and the repository's own converters (spectool yamltojson / jsontoyaml / analyze) are run on a specification under every combination of the error-handling settings: their output must behave like their input; the loaders are driven with a family of specs over patterns of every JSON shape and must give the behaviour of the Go-structure rendering. spectool's editing commands (addMessageBranches, addOrderedOutMessages) over patterns and message lists holding strings, integers, fractions, large numbers, arrays and nested maps: the specification they write must behave like the same edit made on the Go structures (one open finding: the YAML library the repository writes with rounds numbers to float32 precision).",
		LevelNote:   "Trusted: the document renderers (rt/ref/rstep Doc/YAML), encoding/json and the two YAML libraries as loaders (they are what the hosts use).",
		Assumptions: commonAssumptions},
	"C09": {ID: "C09", Parts: []Part{{Harness: "core", Func: "C09"}, {Harness: "mcrew", Func: "C09mcrew"}, {Harness: "sio", Func: "C09sio"}}, Category: "model_checking", QuickDeadline: 240, ThoroughDeadline: 1500,
		Engine: "E1", DesignRef: "6/C09",
		Technique:   "explicit enumeration of all message histories x all subsets of save points; differential between the in-memory run and the run that persists/reloads the state through JSON at the chosen boundaries",
		LevelText:   "Every history up to the length bound over a vocabulary of value-producing ECMAScript actions and value-inspecting branches is run twice on the real engine - state kept in memory vs. state marshalled to JSON and re-read at every subset of message boundaries - and the two runs must agree at every message on node, bindings and emitted messages. The mcrew host's own persistence (Storage.WriteState / GetCrew on a bolt file) is exercised the same way on a crew of machines with different bindings, and the sio host's (sio.Stdio's state file, siostd's boot path) on the crew histories of C15 (depth 4 in both tiers).",
		LevelNote:   "Trusted: encoding/json as the persistence format (what the hosts use). Only the listed producers/inspectors are covered.",
		Assumptions: commonAssumptions},
	"C08": {ID: "C08", Parts: []Part{{Harness: "core", Func: "C08"}, {Harness: "mcrew", Func: "C08mcrew"}}, Category: "exploration", QuickDeadline: 240, ThoroughDeadline: 1500,
		Engine: "E1", DesignRef: "6/C08",
		Technique:   "bounded-exhaustive enumeration of emit/mutate/fail programs (every failure mode after every emission prefix) in every position of an action chain, observed through Walk and through a crew, against the reference emission sequence",
		LevelText:   "Every program of the emit/set/fail language up to the length bound is executed as action (3 positions) and as guard, under three error-routing modes, through Spec.Walk and through sio.Crew.ProcessMsg; the emitted messages must be exactly those of the successfully completed actions, in order. The mcrew host is driven with a chain of emitting actions under every step limit: what it publishes must be what the strides taken emitted.",
		LevelNote:   "Trusted: action-language model; cancellation is delivered through the harness context at a fixed tick (the exact interruption instant inside goja is not controlled, and unobservable here).",
		Assumptions: commonAssumptions},
	"C07": {ID: "C07", Parts: []Part{{Harness: "core", Func: "C07"}, {Harness: "mcrew", Func: "C07mcrew", OneProc: true}, {Harness: "sio", Func: "C07sio"}}, Category: "exploration", QuickDeadline: 240, ThoroughDeadline: 1500, CrashIsViolation: true,
		Engine: "E1", DesignRef: "6/C07",
		Technique:   "conjunction-bounded exhaustive enumeration over independent hostile-input dimensions (all combinations of at most k non-default dimensions) with a panic trap and hang horizon around every load/compile/step/walk, plus reference comparison where defined",
		LevelText:   "Every combination of up to k hostile dimensions (spec document defects, state, message, control, props, action behaviour, guard behaviour, error routing) in five representations is loaded, compiled and processed on the real code under a panic trap; failures must surface as errors or error states equal to the reference's. The same hostile inputs are also sent to the hosts the way clients send them: to mcrew as lines of Service.Listener's text protocol (every combination of specification file, machine state, message incl. one per action behaviour, and control setting, with and without -v), to sio as lines on the input of the real sio.Stdio processed by the real Crew.Loop (messages, captain requests and timers requests of every malformed shape, alone and in pairs): no panic, no worker death, every line answered, the host still in service afterwards.",
		LevelNote:   "Trusted: panic trap (recover) and the worker-crash detector for fatal errors; reference walk/step. Only the listed hostile values are covered; a crash that needs more than k simultaneous hostile dimensions is out of reach.",
		Assumptions: commonAssumptions},
	"C06": {ID: "C06", Harness: "core", Func: "C06", Category: "exploration", QuickDeadline: 240, ThoroughDeadline: 1500,
		Engine: "E1", DesignRef: "6/C06",
		Technique:   "bounded-exhaustive enumeration of step and walk cases with deep before/after snapshots of every argument, map-identity (alias) checks and repeat-call comparison",
		LevelText:   "Every case of the C04 step space and the C05 walk space (quick vocabularies) is executed with deep snapshots of state, messages, spec, control and props taken before and after; any difference, any returned state sharing the caller's bindings map, and any difference between two identical calls is a violation.",
		LevelNote:   "Trusted: the reflect-based snapshot (rt/snap). In the step space generated native actions never write to the map they are given; the walk space includes a native action that does (the engine hands an action a copy of the bindings, so not even that reaches the caller's state); a native guard on a pattern-less branch is handed the step's own bindings and is not generated with in-place writes.",
		Assumptions: append([]string{"failing behaviours are generated systematically: throwing / bad-return / same-map actions, rejecting and throwing guards, steps ending at the error node, walks hitting the limit or a breakpoint"}, commonAssumptions...)},
	"C18": {ID: "C18", Parts: []Part{{Harness: "core", Func: "C18"}, {Harness: "corec", Func: "C18c", Race: true}, {Harness: "sio", Func: "C18sio"}}, GoMaxProcs: 1, Category: "exploration", QuickDeadline: 200, ThoroughDeadline: 900,
		Engine: "E1+E2", DesignRef: "6/C18",
		Technique:   "bounded-exhaustive enumeration of states with permanent bindings x action/guard programs x node shapes x error routing on the real Spec.Step; plus stateless schedule exploration (with a ThreadSanitizer pass) of machines with different permanent bindings walked concurrently over one compiled spec",
		LevelText:   "All combinations of a state universe with permanent bindings and an action/guard program list covering every way of returning bindings (and of failing) are executed through Spec.Step with every error-routing setting, and again as the second step of a Spec.Walk that starts at a node in front (so that failures end in the error state a walk makes); whenever a state results every permanent binding must be present and unchanged; no crash. Concurrent part: every interleaving (within the deviation bound) of 2-3 walks of machines with different permanent bindings over one compiled spec whose actions and guards delete and overwrite them; each walk must equal its solo walk. On the sio host: specifications with boot / toob sources and actions of every kind, the host creating, re-specifying and messaging the machine - its permanent bindings stay.",
		LevelNote:   "Trusted: action-language renderers. Only the listed programs and states are covered.",
		Assumptions: commonAssumptions},
	"C05": {ID: "C05", Parts: []Part{{Harness: "core", Func: "C05"}, {Harness: "sio", Func: "C05sio"}}, Category: "model_checking", QuickDeadline: 200, ThoroughDeadline: 1500,
		Engine: "E1", DesignRef: "6/C05",
		Technique:   "explicit enumeration of all histories (spec x start state x message sequence x batch split x limit x breakpoint) on the real Spec.Walk with per-walk invariants, a reference walk and a split differential",
		LevelText:   "All walks of a finite family of 3-node specifications over all short message histories, every split into batches, a range of step limits and breakpoints are executed on the real Spec.Walk; ordered exactly-once consumption, the step bound, the truthful remainder, chain continuity, quiescence on Done, equality with a reference walk and split-independence are checked on every one. On the sio host: cascades of emitted messages of every length up to 140 (and trees) through Crew.ProcessMsg - every cascade message consumed once, in order.",
		LevelNote:   "Trusted: reference walk/step (rt/ref/rstep), action-language model. Specs are limited to 3 nodes from a fixed template list; sequences to the stated length.",
		Assumptions: append([]string{"deterministic actions and guards only (as the property states)"}, commonAssumptions...)},
	"C04": {ID: "C04", Harness: "core", Func: "C04", Category: "exploration", QuickDeadline: 200, ThoroughDeadline: 1500,
		Engine: "E1", DesignRef: "6/C04",
		Technique:   "bounded-exhaustive enumeration of node configurations x error settings x states x pending messages on the real Spec.Step against an executable reference of the documented step rule",
		LevelText:   "Every step of the stated finite space of specifications/states/messages is executed on the real Spec.Step (native and ECMAScript actions) and compared with a reference written from the README's Processing section; exhaustive within the vocabulary.",
		LevelNote:   "Trusted: the reference step rule (rt/ref/rstep), the action-language model (rt/actlang), pattern matching itself (decided by C01/C02). Error wording is not compared (masked).",
		Assumptions: append([]string{"reference rule rt/ref/rstep.Step; pattern matching inside the reference uses match.Match (its correctness is C01/C02)"}, commonAssumptions...)},
	"C01": {ID: "C01", Parts: []Part{{Harness: "match", Func: "C01"}, {Harness: "core", Func: "C01step"}}, Category: "exploration", QuickDeadline: 150, ThoroughDeadline: 1500,
		Engine: "E1", DesignRef: "6/C01",
		Technique:   "bounded-exhaustive enumeration of (pattern, message, bindings) triples against a reference containment relation (explicit enumeration, no sampling)",
		LevelText:   "Every triple of the stated finite space is executed on the real match.Match and every returned binding set is checked against an independent containment relation; exhaustive within the size bounds, nothing beyond them. The same for matching as the engine does it: every small pattern as the pattern of a branch, the machine's bindings as the given bindings - the state a step arrives at must be a sound match, and the branch is followed exactly when Match on those arguments yields one binding set.",
		LevelNote:   "Trusted: the reference relation rt/ref/rmatch (written from the documentation), the enumerator, the Go toolchain. Values outside the alphabet and sizes above the bound are not covered.",
		Assumptions: append([]string{"reference containment relation rt/ref/rmatch is the oracle (independent of match.go)"}, commonAssumptions...)},
}
