package main

// Harness: one test binary built from the tree under test plus overlay.
type Harness struct {
	Name     string
	Pkg      string    // package (relative to repo root) whose test binary is built
	InPkgSrc string    // dir under /verif with in-package harness files (overlaid into Pkg as zz_verif_*.go); "" for external harness packages
	Rewrites []Rewrite // instrumented packages
	Race     bool      // a -race variant is needed by some check
}

type Check struct {
	ID               string
	Harness          string
	Func             string // name registered in the harness
	Category         string // evidence level
	Workers          int
	GoMaxProcs       int
	Race             bool // also run a -race pass
	RaceOnly         bool
	CrashIsViolation bool
	QuickDeadline    int // seconds (internal; reaching it => exhaustive:false, exit 0)
	ThoroughDeadline int
	Assumptions      []string
	Engine           string
	LevelText        string
	LevelNote        string
	Technique        string
	DesignRef        string
}

var harnesses = map[string]*Harness{
	"match": {
		Name: "match", Pkg: "verifrt/h/hmatch",
		Rewrites: []Rewrite{{Dir: "match", VRange: true}},
		Race:     true,
	},
}

var commonAssumptions = []string{
	"bounds are bounds: nothing is claimed beyond the stated alphabet/size/deviation bounds",
	"instrumentation is a text-spliced copy of the current working tree applied with go -overlay; the Go toolchain, goja and bbolt are trusted",
}

// notApplicable: properties not (yet) claimed, with the reason.
var notApplicable = map[string]string{}

func init() {
	for _, id := range []string{"C02", "C03", "C04", "C05", "C06", "C07", "C08", "C09", "C10", "C11", "C12", "C13", "C14", "C15", "C16", "C17", "C18", "C19", "C20"} {
		if _, ok := checks[id]; !ok {
			notApplicable[id] = "check not built yet in this round (planned in DESIGN.md section 6); no claim is made"
		}
	}
}

var checks = map[string]*Check{
	"C01": {ID: "C01", Harness: "match", Func: "C01", Category: "exploration", QuickDeadline: 150, ThoroughDeadline: 1500,
		Engine: "E1", DesignRef: "6/C01",
		Technique: "bounded-exhaustive enumeration of (pattern, message, bindings) triples against a reference containment relation (explicit enumeration, no sampling)",
		LevelText: "Every triple of the stated finite space is executed on the real match.Match and every returned binding set is checked against an independent containment relation; exhaustive within the size bounds, nothing beyond them.",
		LevelNote: "Trusted: the reference relation rt/ref/rmatch (written from the documentation), the enumerator, the Go toolchain. Values outside the alphabet and sizes above the bound are not covered.",
		Assumptions: append([]string{"reference containment relation rt/ref/rmatch is the oracle (independent of match.go)"}, commonAssumptions...)},
}
