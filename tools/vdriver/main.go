// vdriver builds a harness from the current working tree of the repository
// under test (instrumented through -overlay, the tree itself is never
// written), runs it as sharded worker processes, merges their reports,
// applies the known-findings policy, writes the evidence file and sets the
// exit code.
//
//	vdriver check  <ID> quick|thorough
//	vdriver replay <ID> <file>
//	vdriver build  <harness>          (setup: warm the build cache)
package main

import (
	"bytes"
	"encoding/json"
	"fmt"
	"os"
	"os/exec"
	"path/filepath"
	"sort"
	"strconv"
	"strings"
	"sync"
	"time"
)

var (
	verifRoot = "/verif"
	repoRoot  = "/repo"
)

func jsonMarshal(v interface{}) ([]byte, error)   { return json.MarshalIndent(v, "", " ") }
func jsonUnmarshal(b []byte, v interface{}) error { return json.Unmarshal(b, v) }

func goEnv() []string {
	env := os.Environ()
	set := map[string]string{
		"GOFLAGS": "-mod=mod", "GOPROXY": "off", "GOSUMDB": "off", "GOTOOLCHAIN": "local",
	}
	var out []string
	for _, e := range env {
		k := e
		if i := strings.IndexByte(e, '='); i >= 0 {
			k = e[:i]
		}
		if _, ok := set[k]; ok {
			continue
		}
		out = append(out, e)
	}
	for k, v := range set {
		out = append(out, k+"="+v)
	}
	return out
}

func fatal(f string, a ...interface{}) {
	fmt.Fprintf(os.Stderr, "vdriver: "+f+"\n", a...)
	os.Exit(2)
}

func main() {
	if r := os.Getenv("VERIF_ROOT"); r != "" {
		verifRoot = r
	}
	if r := os.Getenv("VERIF_REPO"); r != "" {
		repoRoot = r
	}
	if len(os.Args) == 2 && os.Args[1] == "harnesses" {
		var ns []string
		for n := range harnesses {
			ns = append(ns, n)
		}
		sort.Strings(ns)
		for _, n := range ns {
			fmt.Println(n)
		}
		return
	}
	if len(os.Args) == 2 && os.Args[1] == "manifest" {
		writeManifest()
		return
	}
	if len(os.Args) < 3 {
		fatal("usage: vdriver check <ID> quick|thorough | replay <ID> <file> | build <harness>")
	}
	switch os.Args[1] {
	case "check":
		tier := "quick"
		if len(os.Args) > 3 {
			tier = os.Args[3]
		}
		if t := os.Getenv("VERIF_TIER"); t != "" && len(os.Args) <= 3 {
			tier = t
		}
		os.Exit(runCheck(os.Args[2], tier, ""))
	case "replay":
		if len(os.Args) < 4 {
			fatal("replay needs a file")
		}
		os.Exit(runCheck(os.Args[2], "quick", os.Args[3]))
	case "build":
		h, ok := harnesses[os.Args[2]]
		if !ok {
			fatal("unknown harness %s", os.Args[2])
		}
		dir, err := os.MkdirTemp(filepath.Join(verifRoot, "out"), "build-")
		if err != nil {
			fatal("%v", err)
		}
		defer os.RemoveAll(dir)
		for _, race := range []bool{false, true} {
			if race && !h.Race {
				continue
			}
			if _, _, err := buildHarness(h, dir, race); err != nil {
				fatal("build %s: %v", h.Name, err)
			}
		}
	default:
		fatal("unknown command %s", os.Args[1])
	}
}

// buildHarness creates the overlay and compiles the harness test binary.
func buildHarness(h *Harness, dir string, race bool) (string, *InstrReport, error) {
	rep := &InstrReport{}
	overlay := map[string]string{}
	// 1. run-time packages and external harness packages: /verif/rt/** -> <repo>/verifrt/**
	rt := filepath.Join(verifRoot, "rt")
	err := filepath.Walk(rt, func(p string, fi os.FileInfo, err error) error {
		if err != nil {
			return err
		}
		if fi.IsDir() || !strings.HasSuffix(p, ".go") {
			return nil
		}
		rel, _ := filepath.Rel(rt, p)
		overlay[filepath.Join(repoRoot, "verifrt", rel)] = p
		return nil
	})
	if err != nil {
		return "", nil, err
	}
	// 2. instrumented copies of the packages under test
	for _, rw := range h.Rewrites {
		ov, err := instrument(repoRoot, rw, dir, rep)
		if err != nil {
			return "", nil, err
		}
		for k, v := range ov {
			overlay[k] = v
		}
	}
	// 3. in-package harness files; the repository's own tests of that package are masked
	if h.InPkgSrc != "" {
		pkgDir := filepath.Join(repoRoot, h.Pkg)
		ents, _ := os.ReadDir(pkgDir)
		for _, e := range ents {
			if strings.HasSuffix(e.Name(), "_test.go") {
				overlay[filepath.Join(pkgDir, e.Name())] = ""
			}
		}
		src := filepath.Join(verifRoot, h.InPkgSrc)
		ents, err := os.ReadDir(src)
		if err != nil {
			return "", nil, err
		}
		for _, e := range ents {
			if strings.HasSuffix(e.Name(), ".go") {
				overlay[filepath.Join(pkgDir, "zz_verif_"+e.Name())] = filepath.Join(src, e.Name())
			}
		}
	}
	ovb, _ := jsonMarshal(map[string]interface{}{"Replace": overlay})
	ovPath := filepath.Join(dir, "overlay.json")
	if err := os.WriteFile(ovPath, ovb, 0o644); err != nil {
		return "", nil, err
	}
	// go.mod / go.sum copies so that -mod=mod can never touch the tree
	for _, f := range []string{"go.mod", "go.sum"} {
		b, err := os.ReadFile(filepath.Join(repoRoot, f))
		if err != nil {
			return "", nil, err
		}
		if err := os.WriteFile(filepath.Join(dir, f), b, 0o644); err != nil {
			return "", nil, err
		}
	}
	bin := filepath.Join(dir, "h.test")
	args := []string{"test", "-c", "-o", bin, "-modfile=" + filepath.Join(dir, "go.mod"), "-overlay=" + ovPath, "-vet=off"}
	if race {
		bin = filepath.Join(dir, "h.race.test")
		args = []string{"test", "-c", "-race", "-o", bin, "-modfile=" + filepath.Join(dir, "go.mod"), "-overlay=" + ovPath, "-vet=off"}
	}
	args = append(args, "./"+h.Pkg)
	// The toolchain itself can fail for lack of resources on a busy machine (EAGAIN from clone, no memory);
	// that says nothing about the tree under test, so such a failure is retried after a pause.
	var lastErr error
	for attempt := 0; attempt < 5; attempt++ {
		cmd := exec.Command("go", args...)
		cmd.Dir = repoRoot
		cmd.Env = goEnv()
		var out bytes.Buffer
		cmd.Stdout, cmd.Stderr = &out, &out
		err := cmd.Run()
		if err == nil {
			lastErr = nil
			break
		}
		lastErr = fmt.Errorf("go %s: %v\n%s", strings.Join(args, " "), err, out.String())
		o := out.String()
		if !(strings.Contains(o, "failed to create new OS thread") || strings.Contains(o, "resource temporarily unavailable") || strings.Contains(o, "cannot allocate memory") || strings.Contains(o, "fork/exec")) {
			break
		}
		time.Sleep(time.Duration(15*(attempt+1)) * time.Second)
	}
	if lastErr != nil {
		return "", nil, lastErr
	}
	return bin, rep, nil
}

type workerResult struct {
	rep     *Report
	crashed bool
	partial *Report // the violations a crashed worker had recorded
	log     string
	sig     string // crash signature, taken from the whole log
	infl    string
}

func runWorkers(bin string, ck *Check, tier, replay, dir string, n int, deadline int, tag string) []workerResult {
	res := make([]workerResult, n)
	var wg sync.WaitGroup
	for i := 0; i < n; i++ {
		wg.Add(1)
		go func(i int) {
			defer wg.Done()
			out := filepath.Join(dir, fmt.Sprintf("part-%s-%d.json", tag, i))
			infl := filepath.Join(dir, fmt.Sprintf("inflight-%s-%d.json", tag, i))
			cmd := exec.Command(bin, "-test.run", "^$", "-test.timeout", "0")
			cmd.Dir = dir
			env := append(os.Environ(),
				"VERIF_CHECK="+ck.Func, "VERIF_TIER="+tier,
				fmt.Sprintf("VERIF_SHARD=%d/%d", i, n), "VERIF_OUT="+out,
				"VERIF_DEADLINE_S="+strconv.Itoa(deadline), "VERIF_INFLIGHT="+infl,
				"VERIF_SCRATCH="+dir, "VERIF_REPO="+repoRoot, "VERIF_ROOT="+verifRoot)
			if replay != "" {
				env = append(env, "VERIF_REPLAY="+replay)
			}
			if os.Getenv("GOGC") == "" {
				env = append(env, "GOGC=400")
			}
			if os.Getenv("GOMEMLIMIT") == "" {
				// a soft limit: 16 workers with a generous GOGC must not add up to the machine's memory
				env = append(env, "GOMEMLIMIT=2500MiB")
			}
			if ck.GoMaxProcs > 0 {
				env = append(env, "GOMAXPROCS="+strconv.Itoa(ck.GoMaxProcs))
			}
			if tag == "race" {
				env = append(env, "VERIF_RACE=1", "GORACE=halt_on_error=0 log_path="+filepath.Join(dir, fmt.Sprintf("racelog-%d", i)))
			}
			cmd.Env = env
			// what a worker prints is kept for crash reports only: its head and its tail (a chatty host under test
			// printed tens of gigabytes in a long run, and the driver held all of it)
			buf := &cappedLog{}
			cmd.Stdout, cmd.Stderr = buf, buf
			done := make(chan error, 1)
			if err := cmd.Start(); err != nil {
				res[i] = workerResult{crashed: true, log: err.Error()}
				return
			}
			go func() { done <- cmd.Wait() }()
			var err error
			// hard watchdog: generous (internal deadline + 10 min)
			select {
			case err = <-done:
			case <-time.After(time.Duration(deadline)*time.Second + 10*time.Minute):
				cmd.Process.Kill()
				err = fmt.Errorf("watchdog: worker killed after deadline+10min")
				<-done
			}
			r := workerResult{log: headTail(buf.String(), 3000), sig: crashSig(buf.String())}
			if os.Getenv("VERIF_FULL_LOG") != "" {
				r.log = buf.String()
			}
			if b, e := os.ReadFile(infl); e == nil {
				r.infl = string(b)
			}
			b, rerr := os.ReadFile(out)
			if rerr == nil {
				var rp Report
				if json.Unmarshal(b, &rp) == nil && rp.Completed {
					r.rep = &rp
				}
			}
			if r.rep == nil {
				r.crashed = true
				if err != nil {
					r.log += "\n" + err.Error()
				}
				// what the worker had found before it died
				if pb, perr := os.ReadFile(out + ".partial"); perr == nil {
					var rp Report
					if json.Unmarshal(pb, &rp) == nil {
						r.partial = &rp
					}
				}
			}
			res[i] = r
		}(i)
	}
	wg.Wait()
	return res
}

func headTail(s string, n int) string {
	if len(s) <= 2*n {
		return s
	}
	return s[:n] + "\n…\n" + s[len(s)-n:]
}

func tail(s string, n int) string {
	if len(s) <= n {
		return s
	}
	return "…" + s[len(s)-n:]
}

func runCheck(id, tier, replay string) int {
	ck, ok := checks[id]
	if !ok {
		fatal("unknown check %s", id)
	}
	start := time.Now()
	os.MkdirAll(filepath.Join(verifRoot, "out"), 0o755)
	dir, err := os.MkdirTemp(filepath.Join(verifRoot, "out"), "build-"+id+"-")
	if err != nil {
		fatal("%v", err)
	}
	defer os.RemoveAll(dir)

	known := loadKnown()
	seed, _ := strconv.Atoi(os.Getenv("VERIF_SEED"))

	workers := ck.Workers
	if workers == 0 {
		workers = 16
	}
	if w := os.Getenv("VERIF_WORKERS"); w != "" {
		workers, _ = strconv.Atoi(w)
	}
	if replay != "" {
		workers = 1
	}
	deadline := ck.QuickDeadline
	if tier == "thorough" {
		deadline = ck.ThoroughDeadline
	}
	if d := os.Getenv("VERIF_DEADLINE_S"); d != "" {
		deadline, _ = strconv.Atoi(d)
	}

	merged := newMerged(id, tier)
	var instr *InstrReport
	harnessFailure := ""

	type pass struct {
		part Part
		race bool
		tag  string
	}
	parts := ck.Parts
	if len(parts) == 0 {
		parts = []Part{{Harness: ck.Harness, Func: ck.Func, Race: ck.Race}}
	}
	if replay != "" {
		// a replay file names the part that produced it
		var rf struct {
			Part string `json:"part"`
		}
		if b, err := os.ReadFile(replay); err == nil && json.Unmarshal(b, &rf) == nil && rf.Part != "" {
			var only []Part
			for _, pt := range parts {
				if pt.Func == rf.Part {
					only = append(only, Part{Harness: pt.Harness, Func: pt.Func})
				}
			}
			if len(only) > 0 {
				parts = only
			}
		}
	}
	passes := []pass{}
	for _, pt := range parts {
		if only := os.Getenv("VERIF_ONLY_PART"); only != "" && only != pt.Func {
			continue // development aid: one part of a check (the evidence then describes that part only)
		}
		if !ck.RaceOnly {
			passes = append(passes, pass{pt, false, "plain"})
		}
		if pt.Race {
			passes = append(passes, pass{pt, true, "race"})
		}
	}
	for pi, p := range passes {
		ph := harnesses[p.part.Harness]
		bin, rep, err := buildHarness(ph, dir, p.race)
		if err != nil {
			harnessFailure = "build failed: " + err.Error()
			break
		}
		instr = rep
		ck2 := *ck
		ck2.Func = p.part.Func
		if p.part.OneProc && ck2.GoMaxProcs == 0 {
			ck2.GoMaxProcs = 1
		}
		tag := fmt.Sprintf("%s%d", p.tag, pi)
		if p.race {
			tag = "race"
		}
		nw := workers
		if p.race && nw > 8 {
			nw = 8 // ThreadSanitizer multiplies memory use; keep the race pass at half the cores
		}
		rs := runWorkers(bin, &ck2, tier, replay, dir, nw, deadline, tag)
		for i, r := range rs {
			if r.crashed && r.partial != nil {
				merged.add(r.partial, p.tag)
				merged.Exhaustive = false
			}
			if r.crashed {
				// the whole log of a worker that died, for whoever has to find out why
				os.WriteFile(filepath.Join(verifRoot, "out", fmt.Sprintf("crash-%s-%s-%d.log", id, p.part.Func, i)), []byte(r.log), 0o644)
				if r.sig == "" {
					r.sig = crashSig(r.log)
				}
				if ck.CrashIsViolation && r.infl != "" {
					var cas interface{}
					json.Unmarshal([]byte(r.infl), &cas)
					merged.addViolation(Violation{Key: id + "/worker-crash/" + r.sig, Detail: "worker process died while executing the case: " + headTail(r.log, 800), Case: cas})
					merged.Exhaustive = false
				} else {
					merged.Notes = append(merged.Notes, fmt.Sprintf("worker %d (%s %s) died without a report; its shard is not covered: %s", i, p.part.Func, p.tag, tail(r.log, 1500)))
					merged.Exhaustive = false
					merged.WorkerCrashes++
				}
				continue
			}
			merged.add(r.rep, p.tag)
			if p.race {
				merged.addRaceLogs(dir, i, id)
			}
		}
		if p.race {
			// race logs of this pass have been consumed
			old, _ := filepath.Glob(filepath.Join(dir, "racelog-*"))
			for _, f := range old {
				os.Remove(f)
			}
		}
	}

	// classify violations
	exit := 0
	var lines []string
	replayDir := filepath.Join(verifRoot, "out", "replay")
	os.MkdirAll(replayDir, 0o755)
	keys := make([]string, 0, len(merged.ViolationKeys))
	for k := range merged.ViolationKeys {
		keys = append(keys, k)
	}
	sort.Strings(keys)
	nViol := 0
	knownSeen := []string{}
	for _, k := range keys {
		if kf, ok := known.open(id, k); ok {
			lines = append(lines, fmt.Sprintf("KNOWN-FINDING: property=%s %s %s", id, k, kf.What))
			knownSeen = append(knownSeen, k)
			continue
		}
		nViol++
		// write the first stored case of that key as replay file
		path := filepath.Join(replayDir, fmt.Sprintf("%s-%s.json", id, sanitize(k)))
		for _, v := range merged.Violations {
			if v.Key == k {
				b, _ := jsonMarshal(map[string]interface{}{"property": id, "part": v.Part, "key": k, "detail": v.Detail, "case": v.Case})
				os.WriteFile(path, b, 0o644)
				lines = append(lines, fmt.Sprintf("VIOLATION property=%s replay=%s key=%s count=%d :: %s", id, path, k, merged.ViolationKeys[k], oneLine(v.Detail, 300)))
				break
			}
		}
		exit = 1
	}
	if harnessFailure != "" {
		// A failure of my own machinery is not a verdict about the property.
		fmt.Printf("HARNESS-FAILURE property=%s %s\n", id, harnessFailure)
		merged.Notes = append(merged.Notes, "HARNESS FAILURE: "+oneLine(harnessFailure, 2000))
		merged.Exhaustive = false
		exit = 2
	}
	for i, l := range lines {
		if i == 12 {
			fmt.Printf("... %d more VIOLATION/KNOWN-FINDING lines suppressed (all keys are in the evidence file)\n", len(lines)-12)
			break
		}
		fmt.Println(l)
	}

	if replay == "" {
		ev := merged.evidence(ck, seed, time.Since(start).Seconds(), nViol, knownSeen, instr, workers, deadline)
		b, _ := jsonMarshal(ev)
		os.MkdirAll(filepath.Join(verifRoot, "evidence"), 0o755)
		if err := os.WriteFile(filepath.Join(verifRoot, "evidence", id+".json"), b, 0o644); err != nil {
			fatal("%v", err)
		}
	}
	fmt.Printf("%s %s: evaluations=%d nontrivial=%d states=%d transitions=%d violations=%d known=%d exhaustive=%v wall=%.1fs\n",
		id, tier, merged.Evaluations, merged.Nontrivial, merged.States, merged.Transitions, nViol, len(knownSeen), merged.Exhaustive, time.Since(start).Seconds())
	for _, n := range merged.Notes {
		fmt.Println("note:", oneLine(n, 400))
	}
	return exit
}

// cappedLog keeps the first 256 kB and the last 2 MB of what is written to it.
type cappedLog struct {
	mu      sync.Mutex
	head    []byte
	tail    []byte
	dropped int64
}

func (c *cappedLog) Write(p []byte) (int, error) {
	c.mu.Lock()
	defer c.mu.Unlock()
	n := len(p)
	if room := 256<<10 - len(c.head); room > 0 {
		k := room
		if k > len(p) {
			k = len(p)
		}
		c.head = append(c.head, p[:k]...)
		p = p[k:]
	}
	c.tail = append(c.tail, p...)
	if over := len(c.tail) - 2<<20; over > 0 {
		c.dropped += int64(over)
		c.tail = append(c.tail[:0], c.tail[over:]...)
	}
	return n, nil
}

func (c *cappedLog) String() string {
	c.mu.Lock()
	defer c.mu.Unlock()
	if c.dropped > 0 {
		return string(c.head) + fmt.Sprintf("\n... %d bytes of worker output dropped ...\n", c.dropped) + string(c.tail)
	}
	return string(c.head) + string(c.tail)
}

func crashSig(log string) string {
	for _, l := range strings.Split(log, "\n") {
		if strings.HasPrefix(l, "fatal error:") || strings.HasPrefix(l, "panic:") {
			return sanitize(oneLine(l, 60))
		}
	}
	return "unknown"
}

func oneLine(s string, n int) string {
	s = strings.Join(strings.Fields(s), " ")
	if len(s) > n {
		s = s[:n] + "…"
	}
	return s
}

func sanitize(s string) string {
	var b strings.Builder
	for _, r := range s {
		if r >= 'a' && r <= 'z' || r >= 'A' && r <= 'Z' || r >= '0' && r <= '9' || r == '-' || r == '.' {
			b.WriteRune(r)
		} else {
			b.WriteByte('_')
		}
	}
	out := b.String()
	if len(out) > 120 {
		out = out[:120]
	}
	return out
}
