package main

// The instrumenter: rewrites the *current* sources of a package of the tree
// under test (never the tree itself; output goes to a scratch dir and is fed
// to the go tool through -overlay).  Two rewrites, both by text splicing so
// that every other byte of the file is what the tree contains:
//
//   - VRange: `for k, v := range m` over a map becomes a loop over
//     vrange.Keys(m), which lets the explorer own the iteration order;
//   - Shim: imports of sync, sync/atomic and time are redirected to the
//     scheduler-aware packages, and calls of the builtin close are routed
//     through vsync.Close.

import (
	"crypto/sha256"
	"encoding/hex"
	"fmt"
	"go/ast"
	"go/build"
	"go/importer"
	"go/parser"
	"go/token"
	"go/types"
	"os"
	"path/filepath"
	"sort"
	"strconv"
	"strings"
)

const rtImport = "github.com/Comcast/sheens/verifrt/"

type Rewrite struct {
	Dir    string // package dir relative to the repo root, e.g. "match"
	VRange bool
	Shim   bool
	Files  []string // restrict to these base names (empty: all non-test files)
}

type edit struct {
	start, end int
	text       string
}

type InstrReport struct {
	RangesRewritten int      `json:"ranges_rewritten"`
	RangesSkipped   []string `json:"ranges_skipped,omitempty"`
	ImportsShimmed  int      `json:"imports_shimmed"`
	ClosesRewritten int      `json:"closes_rewritten"`
	GoStarts        int      `json:"go_statements_given_a_start_point"`
	Files           []string `json:"files"`
}

// instrument rewrites package rw.Dir of repo into outDir and returns overlay
// entries (absolute original path -> absolute rewritten path).
func instrument(repo string, rw Rewrite, outDir string, rep *InstrReport) (map[string]string, error) {
	dir := filepath.Join(repo, rw.Dir)
	bp, err := build.Default.ImportDir(dir, 0)
	if err != nil {
		if _, ok := err.(*build.MultiplePackageError); !ok {
			return nil, fmt.Errorf("instrument %s: %v", rw.Dir, err)
		}
	}
	names := append([]string{}, bp.GoFiles...)
	sort.Strings(names)
	want := map[string]bool{}
	for _, f := range rw.Files {
		want[f] = true
	}

	// cache key: content of all files + options
	h := sha256.New()
	sharedLoopVars := loopVarsShared(repo)
	fmt.Fprintf(h, "v7|%s|%v|%v|%v|%v\n", rw.Dir, rw.VRange, rw.Shim, rw.Files, sharedLoopVars)
	srcs := map[string][]byte{}
	for _, n := range names {
		b, err := os.ReadFile(filepath.Join(dir, n))
		if err != nil {
			return nil, err
		}
		srcs[n] = b
		fmt.Fprintf(h, "%s %d\n", n, len(b))
		h.Write(b)
	}
	key := hex.EncodeToString(h.Sum(nil))[:24]
	cacheDir := filepath.Join(verifRoot, "out", "cache", key)
	overlay := map[string]string{}
	if b, err := os.ReadFile(filepath.Join(cacheDir, "DONE")); err == nil {
		// cached
		var cached InstrReport
		if jsonUnmarshal(b, &cached) == nil {
			rep.RangesRewritten += cached.RangesRewritten
			rep.RangesSkipped = append(rep.RangesSkipped, cached.RangesSkipped...)
			rep.ImportsShimmed += cached.ImportsShimmed
			rep.ClosesRewritten += cached.ClosesRewritten
			rep.GoStarts += cached.GoStarts
			for _, f := range cached.Files {
				rep.Files = append(rep.Files, f)
				overlay[filepath.Join(dir, filepath.Base(f))] = filepath.Join(cacheDir, filepath.Base(f))
			}
			return overlay, nil
		}
	}

	fset := token.NewFileSet()
	var files []*ast.File
	for _, n := range names {
		f, err := parser.ParseFile(fset, filepath.Join(dir, n), srcs[n], parser.ParseComments)
		if err != nil {
			return nil, fmt.Errorf("instrument: parse %s: %v", n, err)
		}
		files = append(files, f)
	}
	info := &types.Info{
		Types: map[ast.Expr]types.TypeAndValue{},
		Uses:  map[*ast.Ident]types.Object{},
		Defs:  map[*ast.Ident]types.Object{},
	}
	oldwd, _ := os.Getwd()
	os.Chdir(dir)
	conf := types.Config{
		Importer: importer.ForCompiler(fset, "source", nil),
		Error:    func(error) {},
	}
	conf.Check(bp.ImportPath, fset, files, info) // errors tolerated: missing type info => range left alone and reported
	os.Chdir(oldwd)

	local := InstrReport{}
	tmp := cacheDir + fmt.Sprintf(".tmp%d", os.Getpid())
	os.MkdirAll(tmp, 0o755)
	for i, f := range files {
		name := names[i]
		if len(want) > 0 && !want[name] {
			continue
		}
		src := srcs[name]
		var edits []edit
		off := func(p token.Pos) int { return fset.Position(p).Offset }
		needVrange, needVsyncx := false, false
		counter := 0

		if rw.Shim {
			for _, im := range f.Imports {
				p, _ := strconv.Unquote(im.Path.Value)
				var repl, defName string
				switch p {
				case "sync":
					repl, defName = rtImport+"vsync", "sync"
				case "sync/atomic":
					repl, defName = rtImport+"vatomic", "atomic"
				case "time":
					repl, defName = rtImport+"vtime", "time"
				case "go.etcd.io/bbolt":
					repl, defName = rtImport+"vbolt", "bbolt"
				default:
					continue
				}
				txt := strconv.Quote(repl)
				if im.Name == nil {
					txt = defName + " " + txt
				}
				edits = append(edits, edit{off(im.Path.Pos()), off(im.Path.End()), txt})
				local.ImportsShimmed++
			}
		}

		labelled := map[*ast.RangeStmt]bool{}
		ast.Inspect(f, func(n ast.Node) bool {
			if l, ok := n.(*ast.LabeledStmt); ok {
				if r, ok := l.Stmt.(*ast.RangeStmt); ok {
					labelled[r] = true // a label must stay on the loop itself: no wrapping block
				}
			}
			return true
		})
		ast.Inspect(f, func(n ast.Node) bool {
			switch x := n.(type) {
			case *ast.CallExpr:
				if !rw.Shim {
					return true
				}
				if id, ok := x.Fun.(*ast.Ident); ok && id.Name == "close" {
					if _, isb := info.Uses[id].(*types.Builtin); isb || info.Uses[id] == nil {
						edits = append(edits, edit{off(id.Pos()), off(id.End()), "vsyncx.Close"})
						needVsyncx = true
						local.ClosesRewritten++
					}
				}
			case *ast.GoStmt:
				// `go func() { ... }()`: the new goroutine's first act is a scheduling point, so that the order
				// "spawner goes on / new goroutine starts" is the explorer's choice (default: the spawner goes
				// on) instead of the runtime's.  Only the literal-without-parameters form is touched: nothing
				// about argument evaluation changes.
				if !rw.Shim {
					return true
				}
				if fl, ok := x.Call.Fun.(*ast.FuncLit); ok && len(x.Call.Args) == 0 && (fl.Type.Params == nil || len(fl.Type.Params.List) == 0) {
					at := off(fl.Body.Lbrace) + 1
					edits = append(edits, edit{at, at, " vsyncx.Start();"})
					needVsyncx = true
					local.GoStarts++
				}
			case *ast.RangeStmt:
				if !rw.VRange {
					return true
				}
				tv, ok := info.Types[x.X]
				if !ok || tv.Type == nil {
					local.RangesSkipped = append(local.RangesSkipped, fmt.Sprintf("%s:%d untyped", name, fset.Position(x.Pos()).Line))
					return true
				}
				if _, isMap := tv.Type.Underlying().(*types.Map); !isMap {
					return true
				}
				pos := fmt.Sprintf("%s:%d", name, fset.Position(x.Pos()).Line)
				if x.Key == nil {
					return true // `for range m`: order unobservable
				}
				if x.Tok != token.DEFINE {
					local.RangesSkipped = append(local.RangesSkipped, pos+" assign-form")
					return true
				}
				// the map expression must be re-evaluable without side effects
				if !pureExpr(x.X) {
					local.RangesSkipped = append(local.RangesSkipped, pos+" impure-map-expr")
					return true
				}
				counter++
				mtxt := string(src[off(x.X.Pos()):off(x.X.End())])
				ktxt := exprText(src, off, x.Key)
				kvar := ktxt
				if ktxt == "_" {
					kvar = fmt.Sprintf("vrangeK%d", counter)
				}
				hasV := x.Value != nil && exprText(src, off, x.Value) != "_"
				var hdr string
				if sharedLoopVars && !labelled[x] {
					// before Go 1.22 (the go directive of the module decides) the loop variables are one pair of
					// variables for the whole loop: a closure or goroutine started in the body sees later values.
					// Keep that: declare them once, outside, and assign per iteration.
					vtxt := "_"
					if hasV {
						vtxt = exprText(src, off, x.Value)
					}
					hdr = fmt.Sprintf("{ %s, %s := vrange.Zero(%s); for _, %s = range vrange.Keys(%s) {", kvar, vtxt, mtxt, kvar, mtxt)
					if hasV {
						hdr += fmt.Sprintf(" var vrangeOk%d bool; %s, vrangeOk%d = (%s)[%s]; if !vrangeOk%d { continue }; _ = %s;", counter, vtxt, counter, mtxt, kvar, counter, vtxt)
					} else {
						hdr += fmt.Sprintf(" if _, vrangeOk%d := (%s)[%s]; !vrangeOk%d { continue };", counter, mtxt, kvar, counter)
					}
					edits = append(edits, edit{off(x.Body.Rbrace) + 1, off(x.Body.Rbrace) + 1, " }"})
				} else {
					hdr = fmt.Sprintf("for _, %s := range vrange.Keys(%s) {", kvar, mtxt)
					if hasV {
						vtxt := exprText(src, off, x.Value)
						hdr += fmt.Sprintf(" %s, vrangeOk%d := (%s)[%s]; if !vrangeOk%d { continue }; _ = %s;", vtxt, counter, mtxt, kvar, counter, vtxt)
					} else {
						hdr += fmt.Sprintf(" if _, vrangeOk%d := (%s)[%s]; !vrangeOk%d { continue };", counter, mtxt, kvar, counter)
					}
				}
				edits = append(edits, edit{off(x.For), off(x.Body.Lbrace) + 1, hdr})
				needVrange = true
				local.RangesRewritten++
			}
			return true
		})

		if len(edits) == 0 {
			continue
		}
		// extra imports go right after the package clause
		extra := ""
		if needVrange {
			extra += "; import vrange " + strconv.Quote(rtImport+"vrange")
		}
		if needVsyncx {
			extra += "; import vsyncx " + strconv.Quote(rtImport+"vsync")
		}
		if extra != "" {
			e := off(f.Name.End())
			edits = append(edits, edit{e, e, extra})
		}
		sort.Slice(edits, func(a, b int) bool { return edits[a].start > edits[b].start })
		out := append([]byte{}, src...)
		for _, e := range edits {
			out = append(out[:e.start], append([]byte(e.text), out[e.end:]...)...)
		}
		// No //line directive: with one at the top of a file the compiler (go1.23) no longer finds the file's
		// language version and compiles it with the newest semantics - per-iteration loop variables - whatever
		// the module's go directive says.  That silently repaired captured-loop-variable bugs in every
		// instrumented package (found through a seeded change that the harness could not reproduce).
		if err := os.WriteFile(filepath.Join(tmp, name), out, 0o644); err != nil {
			return nil, err
		}
		local.Files = append(local.Files, filepath.Join(rw.Dir, name))
	}
	b, _ := jsonMarshal(&local)
	os.WriteFile(filepath.Join(tmp, "DONE"), b, 0o644)
	os.MkdirAll(filepath.Dir(cacheDir), 0o755)
	if err := os.Rename(tmp, cacheDir); err != nil {
		// someone else produced it concurrently
		os.RemoveAll(tmp)
	}
	for _, f := range local.Files {
		overlay[filepath.Join(dir, filepath.Base(f))] = filepath.Join(cacheDir, filepath.Base(f))
	}
	rep.RangesRewritten += local.RangesRewritten
	rep.RangesSkipped = append(rep.RangesSkipped, local.RangesSkipped...)
	rep.ImportsShimmed += local.ImportsShimmed
	rep.ClosesRewritten += local.ClosesRewritten
	rep.GoStarts += local.GoStarts
	rep.Files = append(rep.Files, local.Files...)
	return overlay, nil
}

func exprText(src []byte, off func(token.Pos) int, e ast.Expr) string {
	return strings.TrimSpace(string(src[off(e.Pos()):off(e.End())]))
}

// pureExpr: identifiers, selectors, parenthesised, derefs and conversions of
// those — safe to evaluate more than once.
func pureExpr(e ast.Expr) bool {
	switch x := e.(type) {
	case *ast.Ident:
		return true
	case *ast.SelectorExpr:
		return pureExpr(x.X)
	case *ast.ParenExpr:
		return pureExpr(x.X)
	case *ast.StarExpr:
		return pureExpr(x.X)
	case *ast.CallExpr: // conversion like map[string]interface{}(bs) or T(x)
		if len(x.Args) != 1 {
			return false
		}
		switch x.Fun.(type) {
		case *ast.MapType, *ast.ParenExpr:
			return pureExpr(x.Args[0])
		}
		return false
	}
	return false
}

// loopVarsShared: does the module's go directive select the pre-1.22 loop variable semantics?
func loopVarsShared(repo string) bool {
	b, err := os.ReadFile(filepath.Join(repo, "go.mod"))
	if err != nil {
		return false
	}
	for _, line := range strings.Split(string(b), "\n") {
		f := strings.Fields(line)
		if len(f) == 2 && f[0] == "go" {
			parts := strings.Split(f[1], ".")
			if len(parts) >= 2 {
				major, _ := strconv.Atoi(parts[0])
				minor, _ := strconv.Atoi(parts[1])
				return major == 1 && minor < 22
			}
		}
	}
	return false
}
